/-
Model of the volatile registry (property C05).

Mirrors forml/provider/registry/filesystem/volatile.py: `Registry(posix.Registry)` keeps the project / release listing in
memory — `_artifacts : defaultdict(dict)`, project → {release → artifact} — and inherits `write`, `close`, `open`, `read`
and `generations` from the posix registry, run on a temporary directory:

  projects()          = the keys of `_artifacts`
  releases(project)   = the keys of `_artifacts[project]`
  push(package)       = `_artifacts[name][version] = package.install(package.path)` (installing to itself: no copy — the
                        temporary directory is not touched)
  generations(p, v)   = posix `_listing(<tmp>/<p>/<v>, Path.Generation)`: a generation is listed iff its directory holds
                        `tag.toml` — whether or not the release directory holds a package (there never is one)

The directory levels above it are the same code as for the posix registry (`Project.put`, `Level.key`, `Release.put`,
`State.dump / commit`).  Project and release directories come into being with the first `write` / `close`
(`mkdir(parents=True)`).  There are no crash points: the registry lives and dies with its process; a call can still
raise half-way.  Core Lean only.
-/
import ForML.Model.Registry

namespace ForML.Registry
open ForML.Fs

structure VReg where
  /-- `_artifacts`: the (project, release) pairs, in insertion order -/
  arts : List (Nat × Nat)
  /-- the temporary directory -/
  fs : Fs
  deriving Repr, Inhabited

def VReg.empty : VReg := ⟨[], Fs.empty⟩

/-- `Registry.releases(project)` -/
def vReleasesOf (st : VReg) (p : Nat) : List Nat :=
  st.arts.filterMap (fun e => if e.1 = p then some e.2 else none)

/-- `p in Registry.projects()` -/
def vProjListed (st : VReg) (p : Nat) : Bool := st.arts.any (fun e => e.1 == p)

def vRelListed (st : VReg) (p v : Nat) : Bool := st.arts.contains (p, v)

/-- what a reader walking project → release → generation reaches -/
def vGenListed (st : VReg) (p v g : Nat) : Bool := vRelListed st p v && genValid st.fs p v g

/-- `Project.put` before `registry.push` (same code as for the posix registry, on the in-memory listing) -/
def vPublishGuard (impl : Impl) (st : VReg) (dirProj name v : Nat) : Option Err :=
  if impl.keyFirst && name != dirProj then some .mismatch
  else if vProjListed st dirProj then
    match maxOf (vReleasesOf st dirProj) with
    | none => none
    | some prev => if name ≠ dirProj then some .mismatch else if prev < v then none else some .invalid
  else none

/-- `Level.key` of project and release -/
def vTrainGuard (st : VReg) (p v : Nat) : Option Err :=
  if vProjListed st p && vRelListed st p v then none else some .invalid

structure VOutcome where
  st : VReg
  calls : List (List Op)
  err : Option Err
  deriving Inhabited

/-- one step of a history on the volatile registry -/
def vExec (impl : Impl) (st : VReg) : Step → VOutcome
  | .publish dp name v _ =>
    match vPublishGuard impl st dp name v with
    | some e => ⟨st, [], some e⟩
    | none => ⟨{ st with arts := if st.arts.contains (name, v) then st.arts else st.arts ++ [(name, v)] }, [], none⟩
  | .train p v ord states =>
    match vTrainGuard st p v with
    | some e => ⟨st, [], some e⟩
    | none =>
      let o := runCalls st.fs (trainCalls impl p v ord states)
      ⟨{ st with fs := o.fs }, o.calls, o.err⟩

def vPlay (impl : Impl) : VReg → List Step → VReg
  | st, [] => st
  | st, s :: rest => vPlay impl (vExec impl st s).st rest

/-- the reader's view, pointwise: tags and states of listed generations of listed releases -/
def vVis (st : VReg) : Path → Option Node
  | [.proj p, .rel v, .gen g, .tag] => if vGenListed st p v g then get st.fs (tagP p v g) else none
  | [.proj p, .rel v, .gen g, .state s] =>
    if vGenListed st p v g && (match tagOf st.fs p v g with | some t => t.sids.contains s | none => false)
    then get st.fs (stateP p v g s) else none
  | _ => none

end ForML.Registry
