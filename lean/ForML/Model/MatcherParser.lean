/-
C09 — the feed's parser as it is: `forml/io/dsl/parser.py` `Container` (contexts, symbol stack, origins registry),
`bypass`, `Visitor.visit_*`, `resolve_source`, `resolve_feature`, `generate_feature`, `fetch` — as a stack machine over
the shared DSL syntax, generic in everything a concrete parser (a feed's `Reader.parser`) supplies:

  the native symbol type `σ`, every abstract `generate_*`, `resolve_feature` (parsers override it), the per-context
  `Tables` registry (`select` / `filter` / the segment of a table: forml/io/dsl/parser.py `Container.Context.Tables`,
  whose content is C14's subject) and `Source.features` (the default projection: forml/io/dsl/_struct/frame.py)

are fields of `Hooks`; any of them may raise (`HErr`).  What is *not* a parameter is the code this property is about:

  Python                                                       here
  -----------------------------------------------------------  ----------------------------------------------------
  `Container.Context` (symbols, tables, origins)               `PCtx`
  `Container._context / _stack`, `__enter__`, `__exit__`       `PState`, `enter`, `leave`
  `Symbols.push / pop`, `Container.context`                    `push`, `pop` (`RuntimeError('Empty context')`, `('Invalid context')`)
  `Visitor.resolve_source` (`UnprovisionedError`)              `resolveSource`
  `Visitor.resolve_feature`                                    `Hooks.resolveFeature` (`none` = `UnprovisionedError`)
  `Visitor.generate_feature` (`accept` + `pop`)                `genFeature`
  `visit_literal / element / aliased / expression / window`    `visitF` (`context.origins[feature.origin]`: `KeyError`)
  `bypass(resolve_feature)` on `visit_expression / window`     `bypassFeature`
  `visit_table`                                                `visitS` on `.table` (`origins[source] = resolve_source(source)`
                                                               first, then the fields and the predicate of the segment)
  `visit_reference` (not decorated)                            `visitS` on `.ref`
  `bypass(resolve_source)` on `visit_join / set / query`       `bypassSource`: the wrapped method ran already, the override
                                                               is looked up afterwards and replaces the top symbol
  `visit_query` (`with self:` — a context of its own)          `visitS` on `.query`
  `with parser as visitor: accept; fetch()`                    `parseFull`

`Model/Matcher.lean` `parse` is the source skeleton of this machine; `Lemmas/C09Parser.lean` proves that it is a sound
abstraction of it for every `Hooks`.  Core Lean only.
-/
import ForML.Model.Matcher

namespace ForML.Matcher

open ForML.Dsl

/-- whatever a hook (a `generate_*`, the tables registry, …) raises -/
abbrev HErr := String

/-- what the parser raises -/
inductive PErr where
  | unprovisioned (s : Source)          -- `UnprovisionedError('Unknown mapping for source …')` from `resolve_source`
  | unprovisionedFeature (f : Feature)  -- `UnprovisionedError('Unknown mapping for feature …')` from `resolve_feature`
  | keyError (o : Source)               -- `self.context.origins[feature.origin]`
  | window                              -- `RuntimeError('Window functions not yet supported')`
  | invalidContext                      -- `RuntimeError('Invalid context')`
  | emptyContext                        -- `RuntimeError('Empty context')`
  | contextNotFetched                   -- `RuntimeError('Context not fetched')`
  | prematureFetch                      -- `RuntimeError('Premature fetch')`
  | stackError                          -- `IndexError`: `Container._stack.pop()` of an empty list
  | hook (e : HErr)                     -- raised by a hook
  deriving DecidableEq, Repr, Inhabited

/-- what a concrete parser supplies (`σ`: its native symbols, `τ`: the state of its `Tables` registry) -/
structure Hooks (σ τ : Type) where
  /-- `self._sources[source]` for an advertised source -/
  native : Source → σ
  /-- `resolve_feature`: `none` = `UnprovisionedError` -/
  resolveFeature : Feature → Except HErr (Option σ)
  genElement : σ → σ → Except HErr σ
  genLiteral : Lit → Except HErr σ
  genExpression : Op → List σ → Except HErr σ
  genCast : σ → Kind → Except HErr σ
  genAlias : σ → String → Except HErr σ
  genTable : σ → List σ → Option σ → Except HErr σ
  /-- `(origin, handle)` -/
  genReference : σ → String → Except HErr (σ × σ)
  genJoin : σ → σ → Option σ → JoinKind → Except HErr σ
  genSet : σ → σ → SetKind → Except HErr σ
  genQuery : σ → List σ → Option σ → List σ → Option σ → List (σ × Dir) → Option Rows → Except HErr σ
  /-- `Source.features` -/
  features : Source → Except HErr (List Feature)
  /-- `Tables()` -/
  tablesNew : τ
  /-- `Tables.select(*features)` -/
  tablesSelect : τ → List Feature → Except HErr τ
  /-- `Tables.filter(expression)` -/
  tablesFilter : τ → Feature → Except HErr τ
  /-- `sorted(tables[source].fields)` -/
  segmentFields : τ → Source → Except HErr (List Feature)
  /-- `tables[source].predicate` -/
  segmentPredicate : τ → Source → Except HErr (Option Feature)

/-- `Container.Context` -/
structure PCtx (σ τ : Type) where
  symbols : List σ            -- top first
  origins : List (Source × σ)
  tables : τ

/-- `Container`: the current context (`None` outside `with` / after `fetch`) and the suspended ones -/
structure PState (σ τ : Type) where
  ctx : Option (PCtx σ τ)
  stack : List (Option (PCtx σ τ))

variable {σ τ : Type}

def liftH {α : Type} (x : Except HErr α) : Except PErr α :=
  match x with
  | .ok a => .ok a
  | .error e => .error (.hook e)

/-- `Container.context` -/
def context (st : PState σ τ) : Except PErr (PCtx σ τ) :=
  match st.ctx with
  | none => .error .invalidContext
  | some c => .ok c

def setCtx (st : PState σ τ) (c : PCtx σ τ) : PState σ τ := { st with ctx := some c }

/-- `self.context.symbols.push(item)` -/
def push (x : σ) (st : PState σ τ) : Except PErr (PState σ τ) := do
  let c ← context st
  pure (setCtx st { c with symbols := x :: c.symbols })

/-- `self.context.symbols.pop()` -/
def pop (st : PState σ τ) : Except PErr (σ × PState σ τ) := do
  let c ← context st
  match c.symbols with
  | [] => .error .emptyContext
  | x :: xs => pure (x, setCtx st { c with symbols := xs })

/-- `self.context.origins[source] = symbol` -/
def setOrigin (o : Source) (x : σ) (st : PState σ τ) : Except PErr (PState σ τ) := do
  let c ← context st
  pure (setCtx st { c with origins := (o, x) :: c.origins })

/-- `self.context.origins[feature.origin]` -/
def getOrigin (o : Source) (st : PState σ τ) : Except PErr σ := do
  let c ← context st
  match c.origins.lookup o with
  | none => .error (.keyError o)
  | some x => pure x

/-- `Container.__enter__` -/
def enter (H : Hooks σ τ) (st : PState σ τ) : PState σ τ :=
  { ctx := some ⟨[], [], H.tablesNew⟩, stack := st.ctx :: st.stack }

/-- `Container.__exit__` without an exception in flight -/
def leave (st : PState σ τ) : Except PErr (PState σ τ) :=
  match st.ctx with
  | some c =>
    if c.symbols.isEmpty then
      match st.stack with
      | [] => .error .stackError
      | top :: rest => .ok { ctx := top, stack := rest }
    else .error .contextNotFetched
  | none =>
    match st.stack with
    | [] => .error .stackError
    | top :: rest => .ok { ctx := top, stack := rest }

/-- `Visitor.resolve_source` -/
def resolveSource (H : Hooks σ τ) (S : Sources) (s : Source) : Except PErr σ :=
  if adv S s then .ok (H.native s) else .error (.unprovisioned s)

/-- `[pop() for c in reversed(feature)]` reversed again: `n` symbols in their original order -/
def popN : Nat → PState σ τ → Except PErr (List σ × PState σ τ)
  | 0, st => pure ([], st)
  | n + 1, st => do
    let (x, st) ← pop st
    let (xs, st) ← popN n st
    pure (xs ++ [x], st)

def featuresLength : Features → Nat
  | .nil => 0
  | .cons _ fs => featuresLength fs + 1

/-- `bypass(resolve_feature)`: after the wrapped method, a mapped feature replaces the generated symbol -/
def bypassFeature (H : Hooks σ τ) (f : Feature) (st : PState σ τ) : Except PErr (PState σ τ) := do
  match ← liftH (H.resolveFeature f) with
  | none => pure st
  | some new =>
    let (_, st) ← pop st
    push new st

mutual
/-- `feature.accept(visitor)` -/
def visitF (H : Hooks σ τ) : Feature → PState σ τ → Except PErr (PState σ τ)
  | .lit v, st => do
    let x ← liftH (H.genLiteral v)
    push x st
  | .elem o n, st => do
    let origin ← getOrigin o st
    match ← liftH (H.resolveFeature (.elem o n)) with
    | none => .error (.unprovisionedFeature (.elem o n))
    | some e =>
      let x ← liftH (H.genElement origin e)
      push x st
  | .alias f n, st => do
    let st ← visitF H f st
    let (x, st) ← pop st
    let y ← liftH (H.genAlias x n)
    push y st
  | .expr op args, st => do
    let st ← visitFs H args st
    let (xs, st) ← popN (featuresLength args) st
    let y ← liftH (H.genExpression op xs)
    let st ← push y st
    bypassFeature H (.expr op args) st
  | .cast f k, st => do
    let st ← visitF H f st
    let (x, st) ← pop st
    let y ← liftH (H.genCast x k)
    let st ← push y st
    bypassFeature H (.cast f k) st
  | .window _ _ _, _ => .error .window
/-- `for term in feature: term.accept(self)` -/
def visitFs (H : Hooks σ τ) : Features → PState σ τ → Except PErr (PState σ τ)
  | .nil, st => pure st
  | .cons f fs, st => do
    let st ← visitF H f st
    visitFs H fs st
end

/-- `Visitor.generate_feature`: `feature.accept(self); return self.context.symbols.pop()` -/
def genFeature (H : Hooks σ τ) (f : Feature) (st : PState σ τ) : Except PErr (σ × PState σ τ) := do
  let st ← visitF H f st
  pop st

def genFeatures (H : Hooks σ τ) : List Feature → PState σ τ → Except PErr (List σ × PState σ τ)
  | [], st => pure ([], st)
  | f :: fs, st => do
    let (x, st) ← genFeature H f st
    let (xs, st) ← genFeatures H fs st
    pure (x :: xs, st)

def genFeatureOpt (H : Hooks σ τ) : Option Feature → PState σ τ → Except PErr (Option σ × PState σ τ)
  | none, st => pure (none, st)
  | some f, st => do
    let (x, st) ← genFeature H f st
    pure (some x, st)

def genOrderings (H : Hooks σ τ) : List Dsl.Ordering → PState σ τ → Except PErr (List (σ × Dir) × PState σ τ)
  | [], st => pure ([], st)
  | .mk f d :: os, st => do
    let (x, st) ← genFeature H f st
    let (xs, st) ← genOrderings H os st
    pure ((x, d) :: xs, st)

/-- `self.context.tables.select(*features)` -/
def tablesSelect (H : Hooks σ τ) (fs : List Feature) (st : PState σ τ) : Except PErr (PState σ τ) := do
  let c ← context st
  let t ← liftH (H.tablesSelect c.tables fs)
  pure (setCtx st { c with tables := t })

/-- `self.context.tables.filter(expression)` -/
def tablesFilter (H : Hooks σ τ) (f : Feature) (st : PState σ τ) : Except PErr (PState σ τ) := do
  let c ← context st
  let t ← liftH (H.tablesFilter c.tables f)
  pure (setCtx st { c with tables := t })

/-- `bypass(resolve_source)`, the part after the wrapped method: `try: new = resolve_source(subject)` /
`except UnprovisionedError: pass` / `else: pop the old symbol, push the new one` -/
def bypassSource (H : Hooks σ τ) (S : Sources) (subject : Source) (st : PState σ τ) : Except PErr (PState σ τ) :=
  if adv S subject then do
    let (_, st) ← pop st
    push (H.native subject) st
  else pure st

/-- the part of `visit_table` after `resolve_source`: the fields and the predicate registered for the table in the
current context are generated, then `generate_table` -/
def tableTail (H : Hooks σ τ) (t : Source) (origin : σ) (st : PState σ τ) : Except PErr (PState σ τ) := do
  let c ← context st
  let fields ← liftH (H.segmentFields c.tables t)
  let (fs, st) ← genFeatures H fields st
  let predicate ← liftH (H.segmentPredicate c.tables t)
  let (p, st) ← genFeatureOpt H predicate st
  let x ← liftH (H.genTable origin fs p)
  push x st

/-- the part of `visit_reference` after the instance was visited -/
def refTail (H : Hooks σ τ) (r : Source) (name : String) (st : PState σ τ) : Except PErr (PState σ τ) := do
  let (i, st) ← pop st
  let (origin, handle) ← liftH (H.genReference i name)
  let st ← setOrigin r handle st
  push origin st

/-- `if condition is not None: self.context.tables.filter(condition)` -/
def tablesFilterOpt (H : Hooks σ τ) (c : FeatureOpt) (st : PState σ τ) : Except PErr (PState σ τ) :=
  match c with
  | .none => pure st
  | .some f => tablesFilter H f st

/-- `if postfilter is not None: self.context.tables.select(postfilter)` -/
def tablesSelectOpt (H : Hooks σ τ) (c : FeatureOpt) (st : PState σ τ) : Except PErr (PState σ τ) :=
  match c with
  | .none => pure st
  | .some f => tablesSelect H [f] st

/-- the part of `visit_join` before its sides are visited -/
def joinHead (H : Hooks σ τ) (c : FeatureOpt) (st : PState σ τ) : Except PErr (PState σ τ) :=
  tablesFilterOpt H c st

/-- the part of `visit_join` after its sides were visited, with the `bypass` epilogue -/
def joinTail (H : Hooks σ τ) (S : Sources) (l r : Source) (k : JoinKind) (c : FeatureOpt) (st : PState σ τ) :
    Except PErr (PState σ τ) := do
  let (R, st) ← pop st
  let (L, st) ← pop st
  let (e, st) ← genFeatureOpt H c.toOption st
  let x ← liftH (H.genJoin L R e k)
  let st ← push x st
  bypassSource H S (.join l r k c) st

/-- the part of `visit_set` after its sides were visited, with the `bypass` epilogue -/
def setTail (H : Hooks σ τ) (S : Sources) (l r : Source) (k : SetKind) (st : PState σ τ) : Except PErr (PState σ τ) := do
  let (R, st) ← pop st
  let (L, st) ← pop st
  let x ← liftH (H.genSet L R k)
  let st ← push x st
  bypassSource H S (.set l r k) st

/-- `Query.features`: the selection, or the features of the source -/
def queryFeatures (H : Hooks σ τ) (src : Source) (sel : Features) : Except PErr (List Feature) :=
  if sel.isEmpty then liftH (H.features src) else pure sel.toList

/-- the part of `visit_query` before its source is visited: `with self:` and the registration of every clause -/
def queryHead (H : Hooks σ τ) (src : Source) (sel : Features) (pre : FeatureOpt) (grp : Features) (post : FeatureOpt)
    (ord : Orderings) (st : PState σ τ) : Except PErr (PState σ τ) := do
  let st := enter H st
  let feats ← queryFeatures H src sel
  let st ← tablesSelect H feats st
  let st ← tablesFilterOpt H pre st
  let st ← tablesSelectOpt H post st
  let st ← tablesSelect H grp.toList st
  tablesSelect H (ord.toList.map Dsl.Ordering.feature) st

/-- the part of `visit_query` after its source was visited, with the `bypass` epilogue -/
def queryTail (H : Hooks σ τ) (S : Sources) (src : Source) (sel : Features) (pre : FeatureOpt) (grp : Features)
    (post : FeatureOpt) (ord : Orderings) (rows : Option Rows) (st : PState σ τ) : Except PErr (PState σ τ) := do
  let feats ← queryFeatures H src sel
  let (fs, st) ← genFeatures H feats st
  let (w, st) ← genFeatureOpt H pre.toOption st
  let (g, st) ← genFeatures H grp.toList st
  let (h, st) ← genFeatureOpt H post.toOption st
  let (o, st) ← genOrderings H ord.toList st
  let (frm, st) ← pop st
  let q ← liftH (H.genQuery frm fs w g h o rows)
  let st ← leave st
  let st ← push q st
  bypassSource H S (.query src sel pre grp post ord rows) st

/-- `source.accept(visitor)` -/
def visitS (H : Hooks σ τ) (S : Sources) : Source → PState σ τ → Except PErr (PState σ τ)
  | .table n fs, st => do
    let origin ← resolveSource H S (.table n fs)
    let st ← setOrigin (.table n fs) origin st
    tableTail H (.table n fs) origin st
  | .ref inst name, st => do
    let st ← visitS H S inst st
    refTail H (.ref inst name) name st
  | .join l r k c, st => do
    let st ← joinHead H c st
    let st ← visitS H S l st
    let st ← visitS H S r st
    joinTail H S l r k c st
  | .set l r k, st => do
    let st ← visitS H S l st
    let st ← visitS H S r st
    setTail H S l r k st
  | .query src sel pre grp post ord rows, st => do
    let st ← queryHead H src sel pre grp post ord st
    let st ← visitS H S src st
    queryTail H S src sel pre grp post ord rows st

/-- `Container.fetch` followed by `Container.__exit__` -/
def fetch (st : PState σ τ) : Except PErr (σ × PState σ τ) :=
  match st.ctx with
  | none => .error .invalidContext   -- `self._context.symbols`: AttributeError on None (not reachable from `parseFull`)
  | some c =>
    match c.symbols with
    | [] => .error .emptyContext
    | x :: xs =>
      if xs.isEmpty then
        match leave { st with ctx := none } with
        | .error e => .error e
        | .ok st => .ok (x, st)
      else .error .prematureFetch

/-- `with parser as visitor: statement.accept(visitor); result = visitor.fetch()` -/
def parseFull (H : Hooks σ τ) (S : Sources) (s : Source) : Except PErr σ := do
  let st := enter H { ctx := none, stack := [] }
  let st ← visitS H S s st
  let (x, _) ← fetch st
  pure x

/-- the feed's parser gets through the statement -/
def parsesOk (H : Hooks σ τ) (S : Sources) (s : Source) : Bool :=
  match parseFull H S s with
  | .ok _ => true
  | .error _ => false

/-- the feed's parser reports an unprovisioned source -/
def reportsUnprovisioned (H : Hooks σ τ) (S : Sources) (s : Source) : Option Source :=
  match parseFull H S s with
  | .error (.unprovisioned t) => some t
  | _ => none

/-- the parser fails for a reason other than an unprovisioned source (an unsupported construct, a column of a source
that is not in scope, a failing hook, …) -/
def otherFailure (H : Hooks σ τ) (S : Sources) (s : Source) : Bool :=
  match parseFull H S s with
  | .ok _ => false
  | .error (.unprovisioned _) => false
  | .error _ => true

/-! ### a concrete parser: free terms (what the harness' tuple parser builds), source skeleton only -/

/-- symbols of the free parser: the skeleton of the sources, every feature-level symbol is opaque -/
inductive Term where
  | native (s : Source)
  | handle (name : String)
  | feat
  | ref (inst : Term) (name : String)
  | join (l r : Term) (kind : JoinKind)
  | set (l r : Term) (kind : SetKind)
  | query (src : Term)
  deriving DecidableEq, Repr, Inhabited

/-- the free parser over a `Tables` registry and a `Source.features` supplied from outside; like forml's SQLAlchemy
parser it resolvesSkeleton an unmapped element by its name -/
def freeHooks {τ : Type} (features : Source → Except HErr (List Feature)) (new : τ)
    (select : τ → List Feature → Except HErr τ) (filter : τ → Feature → Except HErr τ)
    (fields : τ → Source → Except HErr (List Feature)) (predicate : τ → Source → Except HErr (Option Feature)) :
    Hooks Term τ where
  native := .native
  resolveFeature := fun f => match f with
    | .elem _ _ => .ok (some .feat)
    | _ => .ok none
  genElement := fun _ _ => .ok .feat
  genLiteral := fun _ => .ok .feat
  genExpression := fun _ _ => .ok .feat
  genCast := fun _ _ => .ok .feat
  genAlias := fun _ _ => .ok .feat
  genTable := fun t _ _ => .ok t
  genReference := fun i n => .ok (.ref i n, .handle n)
  genJoin := fun l r _ k => .ok (.join l r k)
  genSet := fun l r k => .ok (.set l r k)
  genQuery := fun s _ _ _ _ _ _ => .ok (.query s)
  features := features
  tablesNew := new
  tablesSelect := select
  tablesFilter := filter
  segmentFields := fields
  segmentPredicate := predicate

end ForML.Matcher
