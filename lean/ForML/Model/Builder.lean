/-
Actor builders with hyper-parameters and the pickling contract of instructions (C02).

Mirrors
  * forml/flow/_task.py
        class Spec(collections.namedtuple('Spec', 'actor, args, kwargs'), Builder[_Actor]):
            def __new__(cls, actor, *args, **kwargs):
                inspect.signature(actor).bind_partial(*args, **kwargs)
                return super().__new__(cls, actor, args, types.MappingProxyType(kwargs))
            def __getnewargs_ex__(self):
                return (self.actor, *self.args), dict(self.kwargs)
        class Builder:
            def __call__(self, *args, **kwargs):
                return self.actor(*(args or self.args), **self.kwargs | kwargs)
  * forml/flow/_code/target/user.py      `Functor.execute`: `self.action(self.builder(), *args)` - every execution
                                          instantiates the actor from the builder
  * forml/provider/runner/pyfunc.py      `_build`: `actor = builder()` once, when the expression is constructed
  * forml/provider/runner/dask.py        scheduler `processes`: every task (the instruction object and its argument
                                          values) is pickled into a worker process, i.e. every instruction is executed
                                          on a copy rebuilt by `copyreg.__newobj_ex__(cls, args, kwargs)` =
                                          `cls.__new__(cls, *args, **kwargs)` from what `__getnewargs_ex__` returned

The shared table model (`Symbols.lean`) names the configured actor of a functor by one symbol `a : Actor`. Here the
functor carries the *builder* (`Spec`: actor class with its constructor signature, positional and keyword arguments) and
the symbol is derived: `Spec.call` binds the arguments like the Python call `cls(*args, **kwargs)` does - positional
arguments to the leading parameters, keyword arguments by name, constructor defaults for what was not passed - and the
resulting `Instance` (class symbol + the full parameter assignment, which the symbolic actors of the harness expose in
every output and every state) is mapped to an actor symbol by an arbitrary coding `code : Instance → Actor`
(`PTable.lower`). An explicit `None`, a falsy value or a value equal to the constructor default is an argument like any
other: it is bound, pickled and rebuilt.

Where Python raises `TypeError` (`bind_partial` in `Spec.__new__`, a missing required argument at instantiation) the
model returns `none`.

Core Lean only.
-/
import ForML.Model.Symbols
import ForML.Model.Dask

namespace ForML.Flow

/-! ### hyper-parameter values and constructor signatures -/

/-- values a builder is configured with (`str n` = the n-th string of the harness's palette, `str 0` = `''`) -/
inductive Hyper where
  | none
  | bool (b : Bool)
  | int (i : Int)
  | str (n : Nat)
  deriving DecidableEq, Repr, Inhabited

/-- one parameter of the actor's `__init__` (after `self`): positional-or-keyword, or keyword-only -/
structure Param where
  name : Nat
  default : Option Hyper
  kwonly : Bool
  deriving DecidableEq, Repr, Inhabited

/-- the actor class a builder refers to (`Spec.actor`): its symbol and `inspect.signature(actor)` -/
structure ActorClass where
  sym : Actor
  params : List Param
  deriving DecidableEq, Repr, Inhabited

/-- keyword arguments: a `dict` in insertion order -/
abbrev Kwargs := List (Nat × Hyper)

def Kwargs.get (kw : Kwargs) (n : Nat) : Option Hyper :=
  match kw with
  | [] => none
  | (m, v) :: r => if m = n then some v else Kwargs.get r n

/-- positional binding: the arguments go to the leading positional parameters, in order. Returns the bound pairs
and the parameters that are left; `none` = `TypeError: too many positional arguments` -/
def bindPos : List Param → List Hyper → Option (List (Nat × Hyper) × List Param)
  | ps, [] => some ([], ps)
  | [], _ :: _ => none
  | p :: ps, v :: vs =>
    if p.kwonly then none
    else match bindPos ps vs with
      | none => none
      | some (b, r) => some ((p.name, v) :: b, r)

/-- do the names of a dict repeat? (cannot happen in Python; the model refuses such a list) -/
def dupNames : Kwargs → Bool
  | [] => false
  | (n, _) :: r => r.any (fun e => e.1 = n) || dupNames r

/-- keyword binding: every keyword must name a parameter that is still unbound (`TypeError: got an unexpected keyword
argument` / `multiple values for argument` otherwise) -/
def kwOk (rest : List Param) (kw : Kwargs) : Bool :=
  kw.all (fun e => rest.any (fun p => p.name = e.1)) && !dupNames kw

/-- `inspect.signature(actor).bind_partial(*args, **kwargs)` succeeds -/
def bindPartialOk (sig : List Param) (args : List Hyper) (kw : Kwargs) : Bool :=
  match bindPos sig args with
  | none => false
  | some (_, rest) => kwOk rest kw

/-- the parameters that are left take the keyword argument of their name, else the constructor default; `none` =
`TypeError: missing required argument` -/
def fillRest (kw : Kwargs) : List Param → Option (List (Nat × Hyper))
  | [] => some []
  | p :: ps =>
    match (match kw.get p.name with | some v => some v | none => p.default) with
    | none => none
    | some v =>
      match fillRest kw ps with
      | none => none
      | some r => some ((p.name, v) :: r)

/-- the call `actor(*args, **kwargs)`: the full parameter assignment in signature order -/
def bindCall (sig : List Param) (args : List Hyper) (kw : Kwargs) : Option (List (Nat × Hyper)) :=
  match bindPos sig args with
  | none => none
  | some (b, rest) =>
    if kwOk rest kw then
      match fillRest kw rest with
      | none => none
      | some r => some (b ++ r)
    else none

/-! ### `flow.Spec` -/

/-- `Spec(actor, args, kwargs)` -/
structure Spec where
  cls : ActorClass
  args : List Hyper
  kwargs : Kwargs
  deriving DecidableEq, Repr, Inhabited

/-- `Spec.__new__(cls, actor, *args, **kwargs)` (what `Actor.builder(*args, **kwargs)` calls) -/
def Spec.new (actor : ActorClass) (args : List Hyper) (kw : Kwargs) : Option Spec :=
  if bindPartialOk actor.params args kw then some ⟨actor, args, kw⟩ else none

/-- a builder that `Spec.__new__` has accepted -/
def Spec.valid (s : Spec) : Bool := bindPartialOk s.cls.params s.args s.kwargs

/-- a configured actor as an observer sees it: the class and every constructor parameter with its value -/
structure Instance where
  sym : Actor
  params : List (Nat × Hyper)
  deriving DecidableEq, Repr, Inhabited

/-- `Builder.__call__()` = `self.actor(*self.args, **self.kwargs)` -/
def Spec.call (s : Spec) : Option Instance :=
  match bindCall s.cls.params s.args s.kwargs with
  | none => none
  | some ps => some ⟨s.cls.sym, ps⟩

/-- `Builder.__repr__` = `flow.name(actor, *args, **kwargs)`: the class name, the positional arguments and the keyword
arguments *whose value is not None* (`[f'{k}={extract(v)}' for k, v in kwargs.items() if v is not None]`; a callable is
printed by its `__name__`). What is printed does not determine the builder. -/
def Spec.repr (s : Spec) : Actor × List Hyper × Kwargs :=
  (s.cls.sym, s.args, s.kwargs.filter (fun e => decide (e.2 ≠ Hyper.none)))

/-- an element of the positional tuple returned by `__getnewargs_ex__`: the actor class or an argument value -/
inductive NewArg where
  | actor (c : ActorClass)
  | value (v : Hyper)
  deriving DecidableEq, Repr, Inhabited

/-- `Spec.__getnewargs_ex__`: `(self.actor, *self.args), dict(self.kwargs)` -/
def Spec.getnewargsEx (s : Spec) : List NewArg × Kwargs :=
  (.actor s.cls :: s.args.map .value, s.kwargs)

/-- the values of a tuple of new-args (`none` if a class sits among them) -/
def newArgValues : List NewArg → Option (List Hyper)
  | [] => some []
  | .value v :: r => (newArgValues r).map (v :: ·)
  | .actor _ :: _ => none

/-- `copyreg.__newobj_ex__(Spec, args, kwargs)` = `Spec.__new__(Spec, *args, **kwargs)`: the first positional
argument is the actor class -/
def Spec.newobjEx : List NewArg × Kwargs → Option Spec
  | (.actor c :: r, kw) =>
    match newArgValues r with
    | none => none
    | some vs => Spec.new c vs kw
  | _ => none

/-- `pickle.loads(pickle.dumps(spec))` -/
def Spec.roundtrip (s : Spec) : Option Spec := Spec.newobjEx s.getnewargsEx

/-! ### tables whose functors carry their builder -/

inductive PInstr where
  | functor (b : Spec) (action : Action) (presets : List Preset)   -- `user.Functor(builder, action)`
  | loader (g : Gid)
  | dumper
  | committer
  | getter (i : Nat)
  deriving DecidableEq, Repr, Inhabited

structure PSymbol where
  id : Key
  instr : PInstr
  args : List Key
  deriving DecidableEq, Repr, Inhabited

abbrev PTable := List PSymbol

/-- every builder of the table went through `Spec.__new__` -/
def PInstr.valid : PInstr → Bool
  | .functor b _ _ => b.valid
  | _ => true

def PTable.valid (T : PTable) : Bool := T.all (fun s => s.instr.valid)

/-- the instruction as the executing back-end sees it: `self.builder()` names the configured actor -/
def PInstr.lower (code : Instance → Actor) : PInstr → Option Instr
  | .functor b action presets =>
    match b.call with
    | none => none                                  -- TypeError at `builder()`
    | some inst => some (.functor (code inst) action presets)
  | .loader g => some (.loader g)
  | .dumper => some .dumper
  | .committer => some .committer
  | .getter i => some (.getter i)

def PSymbol.lower (code : Instance → Actor) (s : PSymbol) : Option Symbol :=
  match s.instr.lower code with
  | none => none
  | some i => some ⟨s.id, i, s.args⟩

/-- `mapM` written out (structural recursion, convenient in proofs) -/
def mapOpt (f : α → Option β) : List α → Option (List β)
  | [] => some []
  | x :: r =>
    match f x with
    | none => none
    | some y =>
      match mapOpt f r with
      | none => none
      | some ys => some (y :: ys)

/-- the table in the shared vocabulary of `Symbols.lean`; `none` = some builder cannot be instantiated (every back-end
raises `TypeError` when it gets to that instruction) -/
def PTable.lower (code : Instance → Actor) (T : PTable) : Option Table := mapOpt (PSymbol.lower code) T

/-- an instruction object after `pickle.loads(pickle.dumps(instruction))`: `Functor` is a named tuple of the builder
and the action (`Apply`/`Train`/`SetState(...)` objects without state of their own, rebuilt field by field), the
system instructions carry their index / key / asset accessor -/
def PInstr.ship : PInstr → Option PInstr
  | .functor b action presets =>
    match b.roundtrip with
    | none => none
    | some b' => some (.functor b' action presets)
  | i => some i

def PSymbol.ship (s : PSymbol) : Option PSymbol :=
  match s.instr.ship with
  | none => none
  | some i => some ⟨s.id, i, s.args⟩

/-- every instruction of the table shipped into a worker process -/
def PTable.ship (T : PTable) : Option PTable := mapOpt PSymbol.ship T

inductive ProcErr where
  | pickling                 -- an instruction cannot be rebuilt from its pickle (`TypeError` in `Spec.__new__`)
  | instantiate              -- `builder()` raises `TypeError`
  | dask (e : DaskErr)
  deriving DecidableEq, Repr, Inhabited

/-- `dask.Runner.run` under an in-process scheduler (`synchronous`, `threads`): the instruction objects of the table
are executed themselves -/
def runDaskLocal (code : Instance → Actor) (A : Option Assets) (T : PTable) : Except ProcErr Memo :=
  match T.lower code with
  | none => .error .instantiate
  | some t =>
    match runDask A t with
    | .error e => .error (.dask e)
    | .ok m => .ok m

/-- `dask.Runner.run` under scheduler `processes`: the job is linked in the parent (`_mkjob` sees the original
objects), every task then executes a shipped copy of its instruction -/
def runDaskProcesses (code : Instance → Actor) (A : Option Assets) (T : PTable) : Except ProcErr Memo :=
  match T.ship with
  | none => .error .pickling
  | some T' => runDaskLocal code A T'

/-! ### a concrete coding of instances (used by the driver; any injective coding does) -/

def indexIn [DecidableEq α] (x : α) : List α → Nat
  | [] => 0
  | y :: r => if y = x then 0 else indexIn x r + 1

/-- Actor symbol of an instance: a builder without any constructor parameter keeps its class symbol (so that such
tables read exactly as in `Symbols.lean`); otherwise the symbol is `sym % 4000 + 4000 * (1 + position in the list of
known instances)` - the low part keeps what the shared model reads off the symbol (`Actor.falsyOut/falsyState`). -/
def internCode (known : List Instance) (i : Instance) : Actor :=
  if i.params.isEmpty then i.sym else i.sym % 4000 + 4000 * (1 + indexIn i known)

end ForML.Flow
