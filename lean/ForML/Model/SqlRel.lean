/-
C06 — relational values and the clause semantics shared by the reference denotation of DSL statements
(`ForML.Model.DslDenote`) and by the evaluator of the abstract SQL tree the parser emits (`ForML.Model.Parser`).

Values are `int | bool | str | null` (floats, decimals, dates are outside the model); rows are positional lists,
tables are lists of rows (bags: the order carries no meaning unless an ORDER BY clause defined it), comparisons and
logic are SQL three-valued.  Evaluation is partial (`Option`): an unknown column, an operand of the wrong sort or an
operator outside the modelled set is `none` for the whole statement (never a default value).

`runQuery` is the meaning of one SELECT block given the *meanings of its clauses* (closures over a row and, for
aggregating queries, the group the row represents):  WHERE → grouping → HAVING → ORDER BY → OFFSET/LIMIT → projection.
What differs between the DSL and SQL is how a clause gets its meaning (structural origins vs. qualified names, join
kinds vs. join options, operator classes vs. SQL operators) — that is what the C06 theorems are about.

Core Lean only.
-/
namespace ForML.Rel

/-- a cell -/
inductive Val where
  | int (n : Int)
  | bool (b : Bool)
  | str (s : String)
  | null
  deriving DecidableEq, Repr, Inhabited

abbrev Row := List Val

/-- stored table: physical column names and rows -/
structure PhysTable where
  cols : List String
  rows : List Row
  deriving DecidableEq, Repr, Inhabited

/-- storage content: physical table name ↦ table -/
abbrev Db := List (String × PhysTable)

/-- direction of one ORDER BY term as the engine sees it -/
inductive SortDir where
  | asc | desc
  deriving DecidableEq, Repr, Inhabited

/-! ### scalar semantics -/

/-- three-way comparison of two non-null cells of the same sort (`none`: sorts differ) -/
def cmpVal : Val → Val → Option Ordering
  | .int a, .int b => some (compare a b)
  | .str a, .str b => some (compare a b)
  | .bool a, .bool b => some (compare a.toNat b.toNat)
  | _, _ => none

/-- comparison operator lifted to cells: NULL if an operand is NULL, error if the sorts differ -/
def liftCmp (test : Ordering → Bool) (a b : Val) : Option Val :=
  match a, b with
  | .null, _ => some .null
  | _, .null => some .null
  | a, b => (cmpVal a b).map (fun o => .bool (test o))

/-- integer arithmetic lifted to cells: NULL-propagating, error on non-integers -/
def liftArith (f : Int → Int → Int) (a b : Val) : Option Val :=
  match a, b with
  | .int x, .int y => some (.int (f x y))
  | .null, .int _ => some .null
  | .int _, .null => some .null
  | .null, .null => some .null
  | _, _ => none

/-- Kleene conjunction -/
def and3 (a b : Val) : Option Val :=
  match a, b with
  | .bool false, .bool _ => some (.bool false)
  | .bool false, .null => some (.bool false)
  | .bool _, .bool false => some (.bool false)
  | .null, .bool false => some (.bool false)
  | .bool true, .bool true => some (.bool true)
  | .bool true, .null => some .null
  | .null, .bool true => some .null
  | .null, .null => some .null
  | _, _ => none

/-- Kleene disjunction -/
def or3 (a b : Val) : Option Val :=
  match a, b with
  | .bool true, .bool _ => some (.bool true)
  | .bool true, .null => some (.bool true)
  | .bool _, .bool true => some (.bool true)
  | .null, .bool true => some (.bool true)
  | .bool false, .bool false => some (.bool false)
  | .bool false, .null => some .null
  | .null, .bool false => some .null
  | .null, .null => some .null
  | _, _ => none

def not3 : Val → Option Val
  | .bool b => some (.bool !b)
  | .null => some .null
  | _ => none

def isNull : Val → Val
  | .null => .bool true
  | _ => .bool false

def absVal : Val → Option Val
  | .int n => some (.int (if n < 0 then -n else n))
  | .null => some .null
  | _ => none

/-! ### aggregates (over the values of the argument on the rows of one group) -/

def nonNull (vs : List Val) : List Val := vs.filter (· != .null)

def aggCount (vs : List Val) : Option Val := some (.int (nonNull vs).length)

def aggSum (vs : List Val) : Option Val :=
  match nonNull vs with
  | [] => some .null
  | x :: xs => (x :: xs).foldlM (fun acc v => liftArith (· + ·) acc v) (.int 0)

/-- the smaller (`pickLess = true`) or greater of two non-null cells -/
def pick (pickLess : Bool) (a b : Val) : Option Val :=
  (cmpVal a b).map (fun o => if (o == .lt) == pickLess then a else if o == .eq then a else b)

def aggExtreme (pickLess : Bool) (vs : List Val) : Option Val :=
  match nonNull vs with
  | [] => some .null
  | x :: xs => xs.foldlM (fun acc v => pick pickLess acc v) x

/-! ### ordering of rows -/

/-- total preorder used by ORDER BY on cells: NULL first, then by value (cells of different sorts: by sort) -/
def sortRank : Val → Nat
  | .null => 0 | .bool _ => 1 | .int _ => 2 | .str _ => 3

def valLe (a b : Val) : Bool :=
  match cmpVal a b with
  | some o => o != .gt
  | none => sortRank a ≤ sortRank b

/-- lexicographic `≤` of two key vectors under the directions -/
def keysLe : List (Val × SortDir) → List Val → Bool
  | [], _ => true
  | _, [] => true
  | (a, d) :: ks, b :: bs =>
    if a = b then keysLe ks bs
    else match d with
      | .asc => valLe a b
      | .desc => valLe b a

/-- stable insertion of a keyed item -/
def insertKeyed {α : Type} (dirs : List SortDir) (x : List Val × α) : List (List Val × α) → List (List Val × α)
  | [] => [x]
  | y :: ys => if keysLe (x.1.zip dirs) y.1 then x :: y :: ys else y :: insertKeyed dirs x ys

/-- stable sort by key vectors -/
def sortKeyed {α : Type} (dirs : List SortDir) (xs : List (List Val × α)) : List (List Val × α) :=
  xs.foldr (insertKeyed dirs) []

/-! ### rows, joins, sets -/

def nullRow (width : Nat) : Row := List.replicate width .null

/-- position of a label in a label list -/
def idxOf? {α : Type} [DecidableEq α] (a : α) : List α → Option Nat
  | [] => none
  | b :: bs => if b = a then some 0 else (idxOf? a bs).map (· + 1)

/-- a predicate value keeps the row iff it is TRUE; FALSE and NULL drop it; anything else is an error -/
def truth : Val → Option Bool
  | .bool b => some b
  | .null => some false
  | _ => none

def filterRows {α : Type} (p : α → Option Val) : List α → Option (List α)
  | [] => some []
  | x :: xs => do
    let v ← p x
    let keep ← truth v
    let rest ← filterRows p xs
    pure (if keep then x :: rest else rest)

/-- all pairs `l ++ r` satisfying `on`, then (if `keepL`) the left rows without partner NULL-extended, then (if
`keepR`) the right rows without partner NULL-extended -/
def joinRows (l r : List Row) (wl wr : Nat) (on : Row → Option Val) (keepL keepR : Bool) : Option (List Row) := do
  let pairs := l.flatMap (fun a => r.map (fun b => (a, b)))
  let matched ← filterRows (fun (p : Row × Row) => on (p.1 ++ p.2)) pairs
  let lonely (side : List Row) (mine : Row × Row → Row) : List Row :=
    side.filter (fun a => !(matched.any (fun p => mine p == a)))
  let left := if keepL then (lonely l (·.1)).map (· ++ nullRow wr) else []
  let right := if keepR then (lonely r (·.2)).map (nullRow wl ++ ·) else []
  pure (matched.map (fun p => p.1 ++ p.2) ++ left ++ right)

/-- Cartesian product -/
def productRows (l r : List Row) : List Row := l.flatMap (fun a => r.map (fun b => a ++ b))

def dedupRows : List Row → List Row
  | [] => []
  | x :: xs => x :: (dedupRows xs).filter (· != x)

inductive SetOp where
  | union | intersect | except
  deriving DecidableEq, Repr, Inhabited

/-- set operations have set (distinct) semantics; NULLs are equal to each other here -/
def setRows : SetOp → List Row → List Row → List Row
  | .union, l, r => dedupRows (l ++ r)
  | .intersect, l, r => dedupRows (l.filter (r.contains ·))
  | .except, l, r => dedupRows (l.filter (!r.contains ·))

/-! ### SQL operators (what an entry of `alchemy.Parser.EXPRESSION` renders as) -/

/-- the operator an `EXPRESSION` entry was observed to emit on probe operands (extracted from the live table on every
run into `ForML.Generated.C06Tables`); `raises`: the entry raises on column operands; `other`: not classified -/
inductive SqlOp where
  | add | sub | mul | div | mod
  | lt | le | gt | ge | eq | ne | isNull | isNotNull
  | and | or | not
  | abs | count | sum | min | max | avg
  | cast
  | fn (name : String)
  | raises
  | other (text : String)
  deriving DecidableEq, Repr, Inhabited

def SqlOp.isAgg : SqlOp → Bool
  | .count | .sum | .min | .max | .avg => true
  | _ => false

/-- SQL meaning of a scalar operator (operators outside the modelled set: `none`) -/
def sqlScalar : SqlOp → List Val → Option Val
  | .add, [a, b] => liftArith (· + ·) a b
  | .sub, [a, b] => liftArith (· - ·) a b
  | .mul, [a, b] => liftArith (· * ·) a b
  | .lt, [a, b] => liftCmp (· == .lt) a b
  | .le, [a, b] => liftCmp (· != .gt) a b
  | .gt, [a, b] => liftCmp (· == .gt) a b
  | .ge, [a, b] => liftCmp (· != .lt) a b
  | .eq, [a, b] => liftCmp (· == .eq) a b
  | .ne, [a, b] => liftCmp (· != .eq) a b
  | .isNull, [a] => some (isNull a)
  | .isNotNull, [a] => not3 (isNull a)
  | .and, [a, b] => and3 a b
  | .or, [a, b] => or3 a b
  | .not, [a] => not3 a
  | .abs, [a] => absVal a
  | _, _ => none

/-- SQL meaning of an aggregate function -/
def sqlAgg : SqlOp → List Val → Option Val
  | .count, vs => aggCount vs
  | .sum, vs => aggSum vs
  | .min, vs => aggExtreme true vs
  | .max, vs => aggExtreme false vs
  | _, _ => none

/-! ### one SELECT block -/

/-- meaning of an expression: the rows of the group, the row representing the group ↦ value -/
abbrev Ev := List Row → Row → Option Val

structure Clauses where
  /-- the block aggregates (GROUP BY present or an aggregate in the projection / HAVING / ORDER BY) -/
  agg : Bool
  sel : List Ev
  whr : Option Ev
  grp : List Ev
  hav : Option Ev
  ord : List (Ev × SortDir)
  off : Option Int
  lim : Option Int

/-- group rows by key vector, groups in order of first occurrence -/
def addToGroups (k : List Val) (r : Row) : List (List Val × List Row) → List (List Val × List Row)
  | [] => [(k, [r])]
  | (k', rs) :: gs => if k' = k then (k', rs ++ [r]) :: gs else (k', rs) :: addToGroups k r gs

def groupRows (keys : List Ev) : List Row → List (List Val × List Row) → Option (List (List Val × List Row))
  | [], acc => some acc
  | r :: rs, acc => do
    let k ← keys.mapM (fun e => e [r] r)
    groupRows keys rs (addToGroups k r acc)

/-- unit of evaluation after grouping: (rows of the group, representative row) -/
abbrev Unit' := List Row × Row

def units (c : Clauses) (width : Nat) (rows : List Row) : Option (List Unit') :=
  if c.agg then
    if c.grp.isEmpty then some [(rows, rows.headD (nullRow width))]
    else do
      let gs ← groupRows c.grp rows []
      pure (gs.map (fun g => (g.2, g.2.headD (nullRow width))))
  else some (rows.map (fun r => ([r], r)))

def toNat' (i : Int) : Nat := i.toNat

def runQuery (c : Clauses) (width : Nat) (rows : List Row) : Option (List Row) := do
  let rows ← match c.whr with
    | none => some rows
    | some p => filterRows (fun r => p [r] r) rows
  let us ← units c width rows
  let us ← match c.hav with
    | none => some us
    | some p => filterRows (fun (u : Unit') => p u.1 u.2) us
  let us ← if c.ord.isEmpty then some us else do
    let keyed ← us.mapM (fun (u : Unit') => do
      let ks ← c.ord.mapM (fun (e : Ev × SortDir) => e.1 u.1 u.2)
      pure (ks, u))
    pure ((sortKeyed (c.ord.map (·.2)) keyed).map (·.2))
  let us := match c.off with
    | none => us
    | some o => us.drop (toNat' o)
  let us := match c.lim with
    | none => us
    | some n => us.take (toNat' n)
  us.mapM (fun (u : Unit') => c.sel.mapM (fun e => e u.1 u.2))

end ForML.Rel
