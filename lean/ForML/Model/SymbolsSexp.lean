/-
S-expression codec of symbol tables, provenance terms and asset stores (line protocol of the C01/C02
model drivers; twin of the encoders in harness/props/c01.py). Not used by any theorem.

  key    ::= (uid n) | (gid g) | (getter n i) | (loader g) | (dumper n) | committer
  instr  ::= (functor a apply|train (setstate*)) | (loader g) | dumper | committer | (getter i)
  symbol ::= (key instr (key*))
  val    ::= none | (input n) | (stored i) | (apply a val (val*)) | (state a val val val)
           | (proj i val) | (dumped val) | (committed (val*)) | (error name)
  assets ::= none | ((gid*) (val*))
-/
import ForML.Model.Sexp
import ForML.Model.Symbols

namespace ForML.Flow
open ForML

def RunErr.name : RunErr → String
  | .fuel => "fuel" | .unbound => "unbound" | .arity => "arity" | .noAssets => "noAssets"
  | .unknownNode => "unknownNode" | .commitSize => "commitSize"
  | .assetRefused => "assetRefused" | .assetCrashed => "assetCrashed"

def RunErr.ofName? : String → Option RunErr
  | "fuel" => some .fuel | "unbound" => some .unbound | "arity" => some .arity
  | "noAssets" => some .noAssets | "unknownNode" => some .unknownNode | "commitSize" => some .commitSize
  | "assetRefused" => some .assetRefused | "assetCrashed" => some .assetCrashed
  | _ => none

partial def Val.toSexp : Val → Sexp
  | .none => .atom "none"
  | .input n => .list [.atom "input", .ofNat n]
  | .stored i => .list [.atom "stored", .ofNat i]
  | .apply a st args => .list [.atom "apply", .ofNat a, st.toSexp, .list (args.map Val.toSexp)]
  | .state a p x y => .list [.atom "state", .ofNat a, p.toSexp, x.toSexp, y.toSexp]
  | .proj i v => .list [.atom "proj", .ofNat i, v.toSexp]
  | .dumped v => .list [.atom "dumped", v.toSexp]
  | .committed vs => .list [.atom "committed", .list (vs.map Val.toSexp)]
  | .error e => .list [.atom "error", .atom e.name]

partial def Val.ofSexp? : Sexp → Option Val
  | .atom "none" => some .none
  | .list [.atom "input", n] => n.nat?.map .input
  | .list [.atom "stored", n] => n.nat?.map .stored
  | .list [.atom "apply", a, st, .list args] => do
    pure (.apply (← a.nat?) (← Val.ofSexp? st) (← args.mapM Val.ofSexp?))
  | .list [.atom "state", a, p, x, y] => do
    pure (.state (← a.nat?) (← Val.ofSexp? p) (← Val.ofSexp? x) (← Val.ofSexp? y))
  | .list [.atom "proj", i, v] => do pure (.proj (← i.nat?) (← Val.ofSexp? v))
  | .list [.atom "dumped", v] => do pure (.dumped (← Val.ofSexp? v))
  | .list [.atom "committed", .list vs] => do pure (.committed (← vs.mapM Val.ofSexp?))
  | .list [.atom "error", .atom e] => (RunErr.ofName? e).map .error
  | _ => none

def Key.toSexp : Key → Sexp
  | .uid n => .list [.atom "uid", .ofNat n]
  | .gid g => .list [.atom "gid", .ofNat g]
  | .getter n i => .list [.atom "getter", .ofNat n, .ofNat i]
  | .loader g => .list [.atom "loader", .ofNat g]
  | .dumper n => .list [.atom "dumper", .ofNat n]
  | .committer => .atom "committer"

def Key.ofSexp? : Sexp → Option Key
  | .list [.atom "uid", n] => n.nat?.map .uid
  | .list [.atom "gid", n] => n.nat?.map .gid
  | .list [.atom "getter", n, i] => do pure (.getter (← n.nat?) (← i.nat?))
  | .list [.atom "loader", n] => n.nat?.map .loader
  | .list [.atom "dumper", n] => n.nat?.map .dumper
  | .atom "committer" => some .committer
  | _ => none

def Instr.toSexp : Instr → Sexp
  | .functor a act ps =>
    .list [.atom "functor", .ofNat a, .atom (match act with | .apply => "apply" | .train => "train"),
           .list (ps.map fun _ => .atom "setstate")]
  | .loader g => .list [.atom "loader", .ofNat g]
  | .dumper => .atom "dumper"
  | .committer => .atom "committer"
  | .getter i => .list [.atom "getter", .ofNat i]

def Instr.ofSexp? : Sexp → Option Instr
  | .list [.atom "functor", a, .atom act, .list ps] => do
    let act ← match act with | "apply" => some Action.apply | "train" => some Action.train | _ => none
    let ps ← ps.mapM (fun p => match p with | .atom "setstate" => some Preset.setState | _ => none)
    pure (.functor (← a.nat?) act ps)
  | .list [.atom "loader", g] => g.nat?.map .loader
  | .atom "dumper" => some .dumper
  | .atom "committer" => some .committer
  | .list [.atom "getter", i] => i.nat?.map .getter
  | _ => none

def Symbol.toSexp (s : Symbol) : Sexp := .list [s.id.toSexp, s.instr.toSexp, .list (s.args.map Key.toSexp)]

def Symbol.ofSexp? : Sexp → Option Symbol
  | .list [k, i, .list args] => do pure ⟨← Key.ofSexp? k, ← Instr.ofSexp? i, ← args.mapM Key.ofSexp?⟩
  | _ => none

def Table.toSexp (t : Table) : Sexp := .list (t.map Symbol.toSexp)

def Table.ofSexp? : Sexp → Option Table
  | .list ss => ss.mapM Symbol.ofSexp?
  | _ => none

/-- outer `Option`: parse failure; inner: no accessor -/
def Assets.ofSexp? : Sexp → Option (Option Assets)
  | .atom "none" => some none
  | .list [gs, .list vs] => do pure (some ⟨← gs.natList?, ← vs.mapM Val.ofSexp?⟩)
  | _ => none

def Memo.toSexp (m : Memo) : Sexp :=
  .list [.list (m.vals.reverse.map fun (k, v) => .list [k.toSexp, v.toSexp]), .list (m.trace.map Key.toSexp)]

end ForML.Flow
