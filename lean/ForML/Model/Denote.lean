/-
C03 — denotational semantics ⟦e⟧ of pipeline expressions.

Written from the *documentation* (docs/workflow/operator.rst "Stateful Mapper", "Operator Composition";
docs/workflow/topology.rst "Segment Coherence"; the docstrings of `wrap.Operator`, `payload.MapReduce`,
`payload.Dump`, `ensemble.FullStack`) — not from the compose methods:

* an expression maps the three inputs of a trunk (apply-mode features, train-mode features, labels) to its
  three outputs and trains a list of actors;
* a stateful actor is *trained* on exactly the train-mode features and labels produced by what precedes
  it; in train mode the freshly trained actor maps the train features, in apply mode the actor with that
  very state maps the apply features; a stateless actor just maps;
* `A >> B` composes; the *scope* of an operator is everything to its left inside its parentheses
  (`A >> B >> C`: scope of `C` is `A >> B`; `A >> (B >> C)`: scope of `C` is `B`); an operator may expand
  its scope several times (the stacking ensemble: once per fold).

The only imports from the graph model are the types `Val`, `Actor`, `Expr`.
-/
import ForML.Model.Compose

namespace ForML.Compose

/-- outputs of a (partial) pipeline and the states it trains: (actor tag, state term) -/
structure Sem where
  apply : Val
  train : Val
  label : Val
  states : List (Nat × Val)

/-- meaning of an expression (or of a scope): inputs `apply-features train-features labels ↦ Sem` -/
abbrev Scope := Val → Val → Val → Sem

def Scope.origin : Scope := fun a t l => ⟨a, t, l, []⟩

/-- state of actor `a` trained on features `x`, labels `y` (stateless: no state) -/
def trainedState (a : Actor) (x y : Val) : Val :=
  if a.stateful then .state a.tag .none x y else .none

/-- actor `a` holding state `st` mapping `x` -/
def applied (a : Actor) (st x : Val) : Val := .apply a.tag st [x]

/-- actors given by the same builder are one and the same actor -/
def unify (known : List Actor) (a : Actor) : Actor :=
  (known.find? (fun k => k.tag == a.tag)).getD a

/-- `wrap.Operator`: the label actor is engaged first — trained on the incoming features and labels, it
transforms the labels; the apply-path and train-path actors are trained on the incoming train features and the
(transformed) labels, and map the apply resp. train features. -/
def denoteWrap (lab app trn : Option Actor) (S : Scope) : Scope := fun xa xt xl =>
  let s := S xa xt xl
  let labSt := lab.map (fun a => trainedState a s.train s.label)
  let label' := match lab with
    | some a => applied a (trainedState a s.train s.label) s.label
    | none => s.label
  let app' := app.map (unify lab.toList)
  let trn' := trn.map (unify (lab.toList ++ app'.toList))
  let stateFor (a : Actor) : Val :=
    match lab, labSt with
    | some l, some st => if l.tag == a.tag then st else trainedState a s.train label'
    | _, _ => trainedState a s.train label'
  let actors := (lab.toList ++ app'.toList ++ trn'.toList).foldl
    (fun acc a => if acc.any (fun k => k.tag == a.tag) then acc else acc ++ [a]) []
  { apply := match app' with
      | some a => applied a (stateFor a) s.apply
      | none => s.apply
    train := match trn' with
      | some a => applied a (stateFor a) s.train
      | none => s.train
    label := label'
    states := s.states ++ (actors.filter (·.stateful)).map (fun a => (a.tag, stateFor a)) }

/-- `payload.MapReduce`: parallel (possibly stateful) mappers, outputs combined by a stateless reducer -/
def denoteMapReduce (ms : List Actor) (reducer : Nat) (S : Scope) : Scope := fun xa xt xl =>
  let s := S xa xt xl
  let st (m : Actor) := trainedState m s.train s.label
  { apply := .apply reducer .none (ms.map (fun m => applied m (st m) s.apply))
    train := .apply reducer .none (ms.map (fun m => applied m (st m) s.train))
    label := s.label
    states := s.states ++ (ms.filter (·.stateful)).map (fun m => (m.tag, st m)) }

/-- `payload.Dump` / `payload.Sniff`: "transparent": the apply path passes through the (untrained) apply dumper,
the train path is untouched, a separate dumper is trained on the train features and labels -/
def denoteDebug (a t : Actor) (S : Scope) : Scope := fun xa xt xl =>
  let s := S xa xt xl
  { apply := applied a .none s.apply
    train := s.train
    label := s.label
    states := s.states ++ [(t.tag, trainedState t s.train s.label)] }

/-- `ensemble.FullStack`: the splitter is prepended in front of the whole scope, which is expanded once per fold;
every base model is trained per fold on that fold's train part; train output = per base the stacked
predictions on the held-out parts (pushed through the fold's own apply path), appended over the bases;
apply output = per base the fold models' predictions reduced, appended; labels = stacked held-out labels. -/
def denoteStack (bases : List Scope) (n splitter appender stacker reducer : Nat) (S : Scope) : Scope :=
  fun xa xt xl =>
  let spSt := Val.state splitter .none xt xl
  let feats := Val.apply splitter spSt [xt]
  let labs := Val.apply splitter spSt [xl]
  let ks := List.range n
  let fold (k : Nat) : Sem := S xa (.proj (2 * k) feats) (.proj (2 * k) labs)
  let test (k : Nat) : Val := (S (.proj (2 * k + 1) feats) (.proj (2 * k) feats) (.proj (2 * k) labs)).apply
  let baseFold (B : Scope) (k : Nat) : Sem := B (fold k).apply (fold k).train (fold k).label
  let baseTest (B : Scope) (k : Nat) : Val := (B (test k) (fold k).train (fold k).label).apply
  { apply := .apply appender .none (bases.map (fun B => .apply reducer .none (ks.map (fun k => (baseFold B k).apply))))
    train := .apply appender .none (bases.map (fun B => .apply stacker .none (ks.map (fun k => baseTest B k))))
    label := .apply stacker .none (ks.map (fun k => .proj (2 * k + 1) labs))
    states := [(splitter, spSt)] ++ ks.flatMap (fun k => (fold k).states)
      ++ bases.flatMap (fun B => ks.flatMap (fun k => (baseFold B k).states)) }

/-- operators written against the composition API (`ApiOp`): a supplied path is mapped by its (stateless) worker, an
omitted one is passed on untouched; `labelMix` rewrites the labels from the labels and the train-mode features and
leaves both feature paths alone; `monitor` trains an actor on the side; `tee` changes nothing -/
def denoteApi : ApiOp → Scope → Scope
  | .extend oa ot ol _, S => fun xa xt xl =>
    let s := S xa xt xl
    { apply := match oa with | some t => .apply t .none [s.apply] | none => s.apply
      train := match ot with | some t => .apply t .none [s.train] | none => s.train
      label := match ol with | some t => .apply t .none [s.label] | none => s.label
      states := s.states }
  | .labelMix tag, S => fun xa xt xl =>
    let s := S xa xt xl
    { apply := s.apply, train := s.train, label := .apply tag .none [s.label, s.train], states := s.states }
  | .monitor a, S => fun xa xt xl =>
    let s := S xa xt xl
    { apply := s.apply, train := s.train, label := s.label, states := s.states ++ [(a.tag, trainedState a s.train s.label)] }
  | .tee _, S => S

mutual
  /-- meaning of `e` composed onto a scope `S` -/
  def denoteC : Expr → Scope → Scope
    | .seq l r, S => fun xa xt xl =>
      let s := S xa xt xl
      let t := denoteC r (denoteC l Scope.origin) s.apply s.train s.label
      ⟨t.apply, t.train, t.label, s.states ++ t.states⟩
    | .wrap lab app trn, S => denoteWrap lab app trn S
    | .mapreduce ms r, S => denoteMapReduce ms r S
    | .debug a t, S => denoteDebug a t S
    | .stack bases n s a k r, S => denoteStack (denoteAll bases) n s a k r S
    | .api op, S => denoteApi op S

  def denoteAll : List Expr → List Scope
    | [] => []
    | b :: bs => denoteC b Scope.origin :: denoteAll bs
end

/-- ⟦e⟧ -/
def denote (e : Expr) : Scope := denoteC e Scope.origin

end ForML.Compose
