/-
Symbol tables and their reference interpreter (shared by C01 and C02).

Mirrors
  * forml/flow/_code/target/__init__.py   `Symbol(instruction, arguments)`
  * forml/flow/_code/target/system.py     `Loader`, `Dumper`, `Getter`, `Committer`
  * forml/flow/_code/target/user.py       `Functor`, `Apply`, `Train`, `Preset.reduce`, `SetState.set`
  * forml/io/asset/_access.py             `State.__contains__/offset/load/dump/commit` (abstract store)

Payloads are *provenance terms* (`Val`, DESIGN.md section 4): actors are uninterpreted function
symbols, so a value records exactly which actor was applied with which state to which inputs.
A Python instruction *object* is referred to by a structured `Key` (instead of a random uuid /
`id()`); a table is a list of symbols `(id, instr, args)` where `args` are the ids of the symbols
whose results are the positional arguments.

Core Lean only.
-/
namespace ForML.Flow

abbrev Uid := Nat      -- `Node.uid`
abbrev Gid := Nat      -- `Worker.Group.uid` (= `Worker.gid`)
abbrev Actor := Nat    -- actor symbol (the group's `builder`)

/-! ### provenance terms -/

/-- Run-time error kinds of the interpreter (Python would raise; the model embeds the error in the
term at the place where it happened, it is never silently dropped). -/
inductive RunErr where
  | fuel        -- cyclic table (Python: infinite recursion / dead-lock)
  | unbound     -- argument refers to an instruction that is not in the table
  | arity       -- wrong number of arguments for the instruction
  | noAssets    -- loader / dumper / committer without an asset accessor
  | unknownNode -- `State.offset`: gid not in the persistent list (`UnexpectedError`)
  | commitSize  -- `State.commit`: `len(states) != len(nodes)` (assertion)
  | assetRefused -- the accessor refused a load with a `forml.InvalidError` that is not the documented `MissingError`
                 -- (`asset.Level.Invalid`: nonexistent generation, unknown state reference; `UnexpectedError`)
  | assetCrashed -- the accessor raised anything else (I/O error, bug)
  deriving DecidableEq, Repr, Inhabited

/-- Provenance terms. `none` is Python's `None` / an empty state (the only *falsy* value). -/
inductive Val where
  | none
  | input (n : Nat)                                      -- external input #n (used by C02)
  | stored (i : Nat)                                     -- state at list position i of the previous generation
  | apply (a : Actor) (st : Val) (args : List Val)        -- `actor.apply(*args)` of actor `a` holding state `st`
  | state (a : Actor) (prev : Val) (feats labels : Val)   -- `actor.train(feats, labels); actor.get_state()`
  | proj (i : Nat) (v : Val)                              -- `v[i]` (Getter)
  | dumped (v : Val)                                      -- state id returned by `assets.dump(v)`
  | committed (vs : List Val)                             -- effect of `assets.commit(vs)`
  | error (e : RunErr)
  deriving Repr, Inhabited

/-! ### falsy yet informative payloads

The flow layer is payload agnostic *except* where it tests the truthiness of a payload (`Preset.reduce`: `if value:`).
So the symbolic payloads come in both kinds: besides `None`, an actor may yield a state or an output that is falsy in
Python (`b''`, an empty sequence, `0`) and still tells where it came from. Which kind a symbolic actor produces is part
of its symbol: bit `falsyBase` of the symbol = its `apply` returns a falsy payload, bit `2 * falsyBase` = its
`get_state()` returns a falsy payload; a stored state `stored i` with `i ≥ falsyBase` is a falsy stored payload. -/

def falsyBase : Nat := 1000

/-- `actor.apply(...)` of this symbolic actor returns a falsy (but distinguishable) payload -/
def Actor.falsyOut (a : Actor) : Bool := a / falsyBase % 2 == 1

/-- `actor.get_state()` of this symbolic actor returns a falsy (but distinguishable) payload -/
def Actor.falsyState (a : Actor) : Bool := a / (2 * falsyBase) % 2 == 1

/-- Python truthiness as used by `Preset.reduce` (`if value:`): `None` is falsy, and so are the payloads of the falsy
kinds above; everything else (projections, state ids, commit effects, errors) is truthy. -/
def Val.truthy : Val → Bool
  | .none => false
  | .stored i => decide (i < falsyBase)
  | .apply a _ _ => !Actor.falsyOut a
  | .state a _ _ _ => !Actor.falsyState a
  | _ => true

/-- the state an actor holds after `Preset.reduce` offered it `v` on a fresh actor: a falsy value is skipped -/
def Val.asState (v : Val) : Val := if v.truthy then v else .none

theorem Val.asState_none : Val.asState .none = .none := rfl

/-! ### instructions, symbols, tables -/

/-- Identity of an instruction object. `compile` uses `uid n` for the functor of node `n`,
`gid g` only as a transient alias, `getter n i` for the getter of output port `i` of `n`,
`loader g`, `dumper n` (of trainer `n`) and `committer`. -/
inductive Key where
  | uid (n : Uid)
  | gid (g : Gid)
  | getter (n : Uid) (i : Nat)
  | loader (g : Gid)
  | dumper (n : Uid)
  | committer
  deriving DecidableEq, Repr, Inhabited

/-- `user.Apply` / `user.Train` -/
inductive Action where
  | apply | train
  deriving DecidableEq, Repr, Inhabited

/-- `user.Preset` subclasses wrapped around the action (outermost first). Only `SetState` is ever
produced by the compiler (`Functor.preset_state`). -/
inductive Preset where
  | setState
  deriving DecidableEq, Repr, Inhabited

inductive Instr where
  | functor (a : Actor) (action : Action) (presets : List Preset)   -- `user.Functor(builder, action)`
  | loader (g : Gid)                                                -- `system.Loader(assets, key=g)`
  | dumper                                                          -- `system.Dumper(assets)`
  | committer                                                       -- `system.Committer(assets)`
  | getter (i : Nat)                                                -- `system.Getter(i)`
  deriving DecidableEq, Repr, Inhabited

/-- `target.Symbol(instruction, arguments)`; `id` is the identity of the instruction object. -/
structure Symbol where
  id : Key
  instr : Instr
  args : List Key
  deriving DecidableEq, Repr, Inhabited

abbrev Table := List Symbol

/-- the symbol holding instruction `k` (first match, like `dict(symbols)[instr]`) -/
def Table.find (t : Table) (k : Key) : Option Symbol :=
  match t with
  | [] => none
  | s :: r => if s.id = k then some s else Table.find r k

/-! ### abstract asset store (`asset.State`) -/

/-- `asset.State(generation, nodes)`: the persistent group list and the states of the previous
generation by list position (`prev` shorter than the list, or `Val.none` entries = no state). -/
structure Assets where
  persistent : List Gid
  prev : List Val
  deriving Repr, Inhabited

/-- position of `g` in `l` (`tuple.index`) -/
def indexOf (g : Gid) : List Gid → Option Nat
  | [] => none
  | x :: r => if x = g then some 0 else (indexOf g r).map (· + 1)

/-- `State.__contains__` -/
def Assets.contains (A : Assets) (g : Gid) : Bool := (indexOf g A.persistent).isSome

/-- `State.offset` -/
def Assets.offset (A : Assets) (g : Gid) : Option Nat := indexOf g A.persistent

/-- `Loader.execute` = `State.load` (`generation.get(offset(gid))`; missing → `None`) -/
def Assets.load (A : Assets) (g : Gid) : Val :=
  match A.offset g with
  | some i => A.prev.getD i .none
  | none => .error .unknownNode

/-- `State.commit` -/
def Assets.commit (A : Assets) (vs : List Val) : Val :=
  if vs.length = A.persistent.length then .committed vs else .error .commitSize

/-! ### instruction semantics -/

/-- `Preset.reduce` chain: every preset takes the leading argument; a truthy value is set on the
actor (`SetState.set`), a falsy one is skipped. Returns the actor state and the remaining
arguments, or `none` when an argument is missing (`value, *args = args` raises). -/
def reducePresets : List Preset → Val → List Val → Option (Val × List Val)
  | [], st, args => some (st, args)
  | .setState :: ps, st, v :: args => reducePresets ps (if v.truthy then v else st) args
  | .setState :: _, _, [] => none

/-- `Functor.execute`: fresh actor from the builder (state `none`), presets, then the action. -/
def execFunctor (a : Actor) (action : Action) (presets : List Preset) (args : List Val) : Val :=
  match reducePresets presets .none args with
  | none => .error .arity
  | some (st, rest) =>
    match action with
    | .apply => .apply a st rest
    | .train =>
      match rest with
      | [x, y] => .state a st x y
      | _ => .error .arity

/-- `Instruction.execute(*args)` -/
def exec (A : Option Assets) : Instr → List Val → Val
  | .functor a action presets, args => execFunctor a action presets args
  | .getter i, [v] => .proj i v
  | .getter _, _ => .error .arity
  | .loader g, [] => match A with | some A => A.load g | none => .error .noAssets
  | .loader _, _ => .error .arity
  | .dumper, [v] => match A with | some _ => .dumped v | none => .error .noAssets
  | .dumper, _ => .error .arity
  | .committer, vs => match A with | some A => A.commit vs | none => .error .noAssets

/-! ### reference interpreter -/

/-- Denotation of instruction `k` in table `t`: the instruction applied to the denotations of its
arguments. `fuel` bounds the depth (`t.length + 1` is enough for every acyclic table). This is the
*meaning* of a table; `run` below computes the same values with memoisation. -/
def Table.value (A : Option Assets) (t : Table) : Nat → Key → Val
  | 0, _ => .error .fuel
  | f + 1, k =>
    match t.find k with
    | none => .error .unbound
    | some s => exec A s.instr (s.args.map (Table.value A t f))

/-- default fuel -/
def Table.fuel (t : Table) : Nat := t.length + 1

/-- Memo of the executing interpreter: computed results and the execution trace (one entry per
`Instruction.__call__`, in execution order). -/
structure Memo where
  vals : List (Key × Val)
  trace : List Key
  deriving Repr, Inhabited

/-- association-list lookup (first match) -/
def lookupVal (k : Key) : List (Key × Val) → Option Val
  | [] => none
  | (k', v) :: r => if k' = k then some v else lookupVal k r

def Memo.get (m : Memo) (k : Key) : Option Val := lookupVal k m.vals

/-- Dependency-ordered memoising evaluation of instruction `k` (depth-first from `k`):
arguments first, left to right, every instruction executed at most once. -/
def evalM (A : Option Assets) (t : Table) : Nat → Memo → Key → Memo × Val
  | 0, m, _ => (m, .error .fuel)
  | f + 1, m, k =>
    match m.get k with
    | some v => (m, v)
    | none =>
      match t.find k with
      | none => (m, .error .unbound)
      | some s =>
        let (m', vs) := s.args.foldl
          (fun (acc : Memo × List Val) a => let (m1, v) := evalM A t f acc.1 a; (m1, acc.2 ++ [v])) (m, [])
        let v := exec A s.instr vs
        (⟨(k, v) :: m'.vals, m'.trace ++ [k]⟩, v)

/-- **Reference interpreter**: run every symbol of the table (table order), memoised.
`(run A t).vals` holds the result of every instruction, `(run A t).trace` the execution order. -/
def run (A : Option Assets) (t : Table) : Memo :=
  t.foldl (fun m s => (evalM A t t.fuel m s.id).1) ⟨[], []⟩

/-- sinks of a table: instructions that are nobody's argument -/
def Table.sinks (t : Table) : List Key :=
  (t.map (·.id)).filter (fun k => !(t.any (fun s => s.args.contains k)))

end ForML.Flow
