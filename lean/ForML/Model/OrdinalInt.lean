/-
C10 — `kind.Integer.cast` at the level of *values*, exact on unbounded integers.

* forml/io/dsl/_struct/kind.py  `Primitive.cast`: `isinstance(value, numbers.Integral)` ⇒ the value
  itself (Python `int`, `bool`, numpy integer scalars); otherwise `Integer._cast(value) = int(value)`,
  `ValueError`/`TypeError` ⇒ `CastError`:
  - a string (what the CLI `--lower` and `--upper` options deliver): `int(str)` parses an optional sign and
    decimal digits *exactly* — there is no detour through a float; `'1e6'`, `'10.0'`, `'2.7'`, `''`
    are refused;
  - a `float` / `decimal.Decimal` / numpy float: truncation towards zero of the exact rational value
    (`value.as_integer_ratio()`).

Strings are lists of characters; the accepted language is the canonical one `[+-]?[0-9]+` (Python
also strips blanks and allows `_` between digits: not generated).

`toDouble` (round-to-nearest-even onto 53 significant bits) and `castIntegerViaDouble` are **not**
the code that exists: they state what a detour `int(float(value))` would do (Lemmas/C10Int).
-/
import ForML.Model.Ordinal

namespace ForML.Ordinal

/-- value of a decimal digit character -/
def digitVal (c : Char) : Option Nat :=
  if 48 ≤ c.toNat ∧ c.toNat ≤ 57 then some (c.toNat - 48) else none

/-- the digit character of `d < 10` -/
def digitChar (d : Nat) : Char :=
  match d with
  | 0 => '0' | 1 => '1' | 2 => '2' | 3 => '3' | 4 => '4'
  | 5 => '5' | 6 => '6' | 7 => '7' | 8 => '8' | _ => '9'

/-- digits, most significant first, folded onto an accumulator -/
def parseDigits : List Char → Nat → Option Nat
  | [], acc => some acc
  | c :: r, acc =>
    match digitVal c with
    | some d => parseDigits r (acc * 10 + d)
    | none => none

/-- a non-empty string of digits -/
def parseNat (cs : List Char) : Option Nat :=
  match cs with
  | [] => none
  | _ => parseDigits cs 0

/-- `int(str)` on `[+-]?[0-9]+` -/
def parseIntStr : List Char → Option Int
  | '-' :: r => (parseNat r).map (fun n => -(Int.ofNat n))
  | '+' :: r => (parseNat r).map Int.ofNat
  | cs => (parseNat cs).map Int.ofNat

/-- digits of `n`, least significant first; `fuel` ≥ number of digits -/
def digitsRev : Nat → Nat → List Nat
  | 0, _ => []
  | fuel + 1, n => if n < 10 then [n] else (n % 10) :: digitsRev fuel (n / 10)

/-- `str(n)` for a natural number -/
def renderNat (n : Nat) : List Char := ((digitsRev (n + 1) n).reverse).map digitChar

/-- `str(n)` -/
def renderInt : Int → List Char
  | .ofNat n => renderNat n
  | .negSucc n => '-' :: renderNat (n + 1)

/-- a bound handed to `Integer.cast` -/
inductive IntBound where
  | int (n : Int)                    -- an Integral instance (int, bool, numpy integer): returned as is
  | str (cs : List Char)             -- a string
  | ratio (num : Int) (den : Nat)    -- float / Decimal: its exact value `num / den`
  | other                            -- anything `int()` refuses with TypeError (date, None-like, …)
  deriving DecidableEq, Repr

/-- `Integer.cast(value)` -/
def castInteger : IntBound → Except Err Int
  | .int n => .ok n
  | .str cs =>
    match parseIntStr cs with
    | some n => .ok n
    | none => .error .castError
  | .ratio n d => if d = 0 then .error .castError else .ok (Int.tdiv n (Int.ofNat d))
  | .other => .error .castError

/-! ### what a detour through binary64 would do (not the code that exists) -/

/-- nearest double of a natural number (ties to even), as the integer it denotes; exact up to 2^53 -/
def toDoubleNat (n : Nat) : Nat :=
  let bits := if n = 0 then 0 else Nat.log2 n + 1
  if bits ≤ 53 then n
  else
    let sh := bits - 53
    let q := n >>> sh
    let r := n - (q <<< sh)
    let half := 1 <<< (sh - 1)
    let q' := if r > half ∨ (r = half ∧ q % 2 = 1) then q + 1 else q
    q' <<< sh

def toDouble : Int → Int
  | .ofNat n => Int.ofNat (toDoubleNat n)
  | .negSucc n => -(Int.ofNat (toDoubleNat (n + 1)))

/-- `int(float(value))` for a string bound -/
def castIntegerViaDouble : IntBound → Except Err Int
  | .str cs =>
    match parseIntStr cs with
    | some n => .ok (toDouble n)
    | none => .error .castError
  | b => castInteger b

end ForML.Ordinal
