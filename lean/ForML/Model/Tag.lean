/-
C18 — generation tags (core Lean only).

Mirrors forml/io/asset/_directory/level/minor.py `Tag.dumps` / `Tag.loads`:

  dumps:  toml.dumps({'training': {'timestamp': …, 'ordinal': …},
                      'tuning':   {'timestamp': …, 'score': …},
                      'states':   [str(s) for s in states]})
          -- the `toml` writer drops keys whose value is `None`
  loads:  meta = toml.loads(raw)
          Training(timestamp=meta['training'].get('timestamp'), ordinal=meta['training'].get('ordinal'))
          Tuning(timestamp=meta['tuning'].get('timestamp'), score=meta['tuning'].get('score'))
          states = (uuid.UUID(s) for s in meta['states'])

`loads` follows the *repaired* code (fixes/C18-tag-loads-timestamp.diff); `loadsStrict` is the code before
the repair (`meta['training']['timestamp']`, KeyError on tags without a training timestamp).

Two levels:
  * structured: which keys are written, which TOML type carries each ordinal kind and what comes back;
  * string level (string ordinals): `toml.encoder._dump_str` (net effect of `repr` + quote fix-ups, then the
    `\x` re-joining loop, mirrored statement by statement) and the reader's basic-string handling
    (`toml.decoder` `_unescape` + the "looks triple-quoted" slice `v[2:-2]` in `load_value`).

Characters are code points.  Code points >= 0x100 are taken to be printable (written raw); the harness only
sends such strings to the model.  Opaque tokens (trusted, "modelled, not verified"): float bit patterns,
uuid numbers, and the text form of timestamps.
-/
import ForML.Model.Keys

namespace ForML.Tag

/-! ### string level -/

inductive StrErr where
  | indexError     -- `_dump_str`: `IndexError: list index out of range`
  | reserved       -- reader: "Reserved escape sequence used"
  | outOfModel     -- `\u` / `\U` escapes are not produced by the modelled writer region
  | notAString
  deriving DecidableEq, Repr

/-- code points below 0x100 that Python's `repr` writes as `\xNN` -/
def isXEsc (c : Nat) : Bool :=
  (c < 32 && c != 9 && c != 10 && c != 13) || (127 ≤ c && c ≤ 160) || c == 173

def hexDigit (d : Nat) : Nat := if d < 10 then 48 + d else 87 + d

/-- one character through `repr` and the quote fix-ups of `_dump_str` (`\'` → `'`, `"` → `\"`): whatever
quote `repr` chose, the net effect is that `"` and `\` are escaped and `'` is not -/
def esc (c : Nat) : List Nat :=
  if c == 92 then [92, 92]
  else if c == 34 then [92, 34]
  else if c == 9 then [92, 116]
  else if c == 10 then [92, 110]
  else if c == 13 then [92, 114]
  else if isXEsc c then [92, 120, hexDigit (c / 16), hexDigit (c % 16)]
  else [c]

def escape : List Nat → List Nat
  | [] => []
  | c :: r => esc c ++ escape r

/-- the escaped text contains `\x` -/
def hasBX : List Nat → Bool
  | a :: b :: r => (a == 92 && b == 120) || hasBX (b :: r)
  | _ => false

/-- `v.split("\\x")` (accumulator holds the current piece reversed) -/
def splitBX : List Nat → List Nat → List (List Nat)
  | acc, a :: b :: r => if a == 92 && b == 120 then acc.reverse :: splitBX [] r else splitBX (a :: acc) (b :: r)
  | acc, [a] => [(a :: acc).reverse]
  | acc, [] => [acc.reverse]

/-- `.replace("\\\\", "\\")` -/
def replaceBB : List Nat → List Nat
  | a :: b :: r => if a == 92 && b == 92 then 92 :: replaceBB r else a :: replaceBB (b :: r)
  | l => l

/-- the inner `while v[0][:i] and v[0][i] == "\\"` loop on the reversed piece: never looks at the first
character of the piece -/
def toggles : List Nat → Bool → Bool
  | c :: d :: r, j => if c == 92 then toggles (d :: r) (!j) else j
  | _, j => j

/-- `joinx` after the inner loop; `none` = `v[0][i]` on an empty piece (IndexError) -/
def joinx (p : List Nat) : Option Bool :=
  match p.reverse with
  | [] => none
  | c :: r => some (toggles (c :: r) (c != 92))

/-- the `while len(v) > 1` loop of `_dump_str` -/
def xloop : Nat → List (List Nat) → Except StrErr (List Nat)
  | _, [] => .error .indexError
  | _, [p] => .ok p
  | 0, _ => .error .indexError
  | f + 1, p :: q :: rest =>
    -- if not v[0]: v = v[1:]
    let v := if p.isEmpty then q :: rest else p :: q :: rest
    match v with
    | [] => .error .indexError
    | p :: rest =>
      let p := replaceBB p
      match joinx p with
      | none => .error .indexError
      | some jx =>
        match rest with
        | [] => .error .indexError      -- v[1]
        | q :: rest => xloop f ((p ++ (if jx then [120] else [117, 48, 48]) ++ q) :: rest)

/-- `toml.encoder._dump_str` -/
def dumpStr (s : List Nat) : Except StrErr (List Nat) :=
  let pieces := splitBX [] (escape s)
  match xloop pieces.length pieces with
  | .ok body => .ok (34 :: body ++ [34])
  | .error e => .error e

/-- `_escapes` of toml.decoder: `0 b f n r t "` -/
def escChar (c : Nat) : Option Nat :=
  if c == 48 then some 0 else if c == 98 then some 8 else if c == 102 then some 12
  else if c == 110 then some 10 else if c == 114 then some 13 else if c == 116 then some 9
  else if c == 34 then some 34 else if c == 92 then some 92 else none

/-- prepend one decoded character to the result of decoding the rest -/
def consOk (x : Nat) : Except StrErr (List Nat) → Except StrErr (List Nat)
  | .ok t => .ok (x :: t)
  | .error e => .error e

/-- `toml.decoder._unescape` (and the preceding reserved-escape check) on the whole quoted value -/
def unescape : List Nat → Except StrErr (List Nat)
  | [] => .ok []
  | a :: l =>
    if a == 92 then
      match l with
      | [] => .ok [92]
      | c :: r =>
        match escChar c with
        | some x => consOk x (unescape r)
        | none => if c == 117 || c == 85 then .error .outOfModel else .error .reserved
    else consOk a (unescape l)

/-- tail of `load_value` for strings:
`if len(v) > 1 and v[1] == quotechar and (len(v) < 3 or v[1] == v[2]): v = v[2:-2]` then `v[1:-1]` -/
def looksTriple (v : List Nat) : Bool :=
  match v with
  | _ :: b :: rest => b == 34 && (match rest with | [] => true | c :: _ => b == c)
  | _ => false

def finish (v : List Nat) : List Nat :=
  let v := if looksTriple v then ((v.drop 2).dropLast).dropLast else v
  (v.drop 1).dropLast

/-- reading a basic string value (a value is one iff it starts with `"`) -/
def loadStr (v : List Nat) : Except StrErr (List Nat) :=
  match v with
  | [] => .error .notAString
  | q :: _ =>
    if q == 34 then
      match unescape v with
      | .ok u => .ok (finish u)
      | .error e => .error e
    else .error .notAString

/-! ### structured level -/

/-- a `datetime.datetime`: fields and optional UTC offset in minutes -/
structure Ts where
  y : Nat
  mo : Nat
  d : Nat
  h : Nat
  mi : Nat
  s : Nat
  us : Nat
  tz : Option Int
  deriving DecidableEq, Repr

/-- int or float (float = opaque bit pattern) -/
inductive Num where
  | int (i : Int)
  | float (bits : Nat)
  deriving DecidableEq, Repr

/-- the training ordinal: a value of one of the primitive DSL kinds -/
inductive Ordinal where
  | int (i : Int)
  | float (bits : Nat)
  | bool (b : Bool)
  | str (s : List Nat)
  | date (y m d : Nat)
  | datetime (t : Ts)
  | decimal (text : List Nat) (asInt : Int) (asFloat : Nat)   -- `int(d)`, bits of `float(str(d))`
  deriving DecidableEq, Repr

structure Tag where
  trainTs : Option Ts
  ordinal : Option Ordinal
  tuneTs : Option Ts
  score : Option Num
  states : List Nat          -- uuids as numbers
  deriving DecidableEq, Repr

/-- TOML values -/
inductive TVal where
  | int (i : Int)
  | float (bits : Nat)
  | bool (b : Bool)
  | strLit (text : List Nat)    -- the literal as written, quotes included
  | date (y m d : Nat)
  | datetime (t : Ts)
  deriving DecidableEq, Repr

/-- the keys of the `[training]` / `[tuning]` tables -/
inductive Key where
  | timestamp
  | ordinal
  | score
  deriving DecidableEq, Repr

def Key.name : Key → String
  | .timestamp => "timestamp"
  | .ordinal => "ordinal"
  | .score => "score"

structure Doc where
  states : List Nat
  training : List (Key × TVal)
  tuning : List (Key × TVal)
  deriving DecidableEq, Repr

/-- the writer skips `None` values -/
def sect (kvs : List (Key × Option TVal)) : List (Key × TVal) :=
  kvs.filterMap (fun kv => kv.2.map (fun v => (kv.1, v)))

/-- `TomlEncoder.dump_value` by Python type -/
def dumpOrdinal : Ordinal → Except StrErr TVal
  | .int i => .ok (.int i)
  | .float b => .ok (.float b)
  | .bool b => .ok (.bool b)
  | .date y m d => .ok (.date y m d)
  | .datetime t => .ok (.datetime t)
  | .decimal text i f =>                           -- `Decimal: _dump_float` writes `str(d)`; the reader takes
    if text.any (fun c => c == 46 || c == 101 || c == 69) then .ok (.float f) else .ok (.int i)  -- it for a float iff `. e E`
  | .str s =>
    match dumpStr s with
    | .ok t => .ok (.strLit t)
    | .error e => .error e

def dumpNum : Num → TVal
  | .int i => .int i
  | .float b => .float b

/-- the value written under `ordinal` (nothing for `None`) -/
def dumpOrd? : Option Ordinal → Except StrErr (Option TVal)
  | none => .ok none
  | some o =>
    match dumpOrdinal o with
    | .ok v => .ok (some v)
    | .error e => .error e

/-- `Tag.dumps` -/
def dumps (t : Tag) : Except StrErr Doc :=
  match dumpOrd? t.ordinal with
  | .error e => .error e
  | .ok ov =>
    .ok { states := t.states
          training := sect [(.timestamp, t.trainTs.map .datetime), (.ordinal, ov)]
          tuning := sect [(.timestamp, t.tuneTs.map .datetime), (.score, t.score.map dumpNum)] }

inductive LoadErr where
  | keyError (k : Key)
  | str (e : StrErr)
  | badType (k : Key)
  deriving DecidableEq, Repr

/-- `dict.get` -/
def lookup (k : Key) : List (Key × TVal) → Option TVal
  | [] => none
  | (k', v) :: r => if k' = k then some v else lookup k r

def loadOrdinal : TVal → Except LoadErr Ordinal
  | .int i => .ok (.int i)
  | .float b => .ok (.float b)
  | .bool b => .ok (.bool b)
  | .date y m d => .ok (.date y m d)
  | .datetime t => .ok (.datetime t)
  | .strLit v =>
    match loadStr v with
    | .ok s => .ok (.str s)
    | .error e => .error (.str e)

/-- what `.get('ordinal')` gives -/
def loadOrd? : Option TVal → Except LoadErr (Option Ordinal)
  | none => .ok none
  | some v =>
    match loadOrdinal v with
    | .ok o => .ok (some o)
    | .error e => .error e

def loadTs : Option TVal → Except LoadErr (Option Ts)
  | none => .ok none
  | some (.datetime t) => .ok (some t)
  | some _ => .error (.badType .timestamp)

def loadScore : Option TVal → Except LoadErr (Option Num)
  | none => .ok none
  | some (.int i) => .ok (some (.int i))
  | some (.float b) => .ok (some (.float b))
  | some _ => .error (.badType .score)

/-- `Tag.loads` (repaired: `.get('timestamp')`) -/
def loads (d : Doc) : Except LoadErr Tag :=
  match loadTs (lookup .timestamp d.training) with
  | .error e => .error e
  | .ok trainTs =>
    match loadOrd? (lookup .ordinal d.training) with
    | .error e => .error e
    | .ok ordinal =>
      match loadTs (lookup .timestamp d.tuning) with
      | .error e => .error e
      | .ok tuneTs =>
        match loadScore (lookup .score d.tuning) with
        | .error e => .error e
        | .ok score => .ok { trainTs, ordinal, tuneTs, score, states := d.states }

/-- `Tag.loads` before the repair: `meta['training']['timestamp']` -/
def loadsStrict (d : Doc) : Except LoadErr Tag :=
  match lookup .timestamp d.training with
  | none => .error (.keyError .timestamp)
  | some _ => loads d

end ForML.Tag
