/-
Model of the actor state / hyper-parameter contract (C13).

Python anchors
* forml/flow/_task.py            `Actor.get_state/set_state/is_stateful`, `Builder.update/reset/__call__`,
                                 `Spec.__new__/__getnewargs_ex__`
* forml/pipeline/wrap/_actor.py  `Parametric`, `Stateless.Actor`, `Stateful.Actor`, `Class.Actor`
                                 (attribute redirection to the origin, `copyreg` reducer)
* forml/flow/_code/target/user.py `Preset.reduce`, `SetState.set`, `Train.__call__`, `Functor.execute`

An actor object is `(params, state, ctor)`: the dict of attributes that came in through the
constructor (the hyper-parameters the actor reports through `get_params` *and* the constructor
arguments it keeps to itself -- `Sig.hidden`; the Actor API allows `get_params/set_params` to cover
only a subset of the constructor arguments), the one further attribute the toy actors have (`None` =
untrained) and, for the class-wrapped flavour, the constructor arguments remembered for unpickling.
The flavours -- native class (default `get_state/set_state`), native class with its own naive
`get_state/set_state`, function-decorated (`wrap.Actor.apply`, `wrap.Actor.train/.apply`),
class-wrapped (`wrap.Actor.type`) -- are instances of one interface `Flavour`.  The user's functions
are parameters (`User`): they receive the *effective lookup* of the attributes (`pget params`), so
behaviour depends on a dict only through its key→value content (dict order is not observable).

The wrapped flavour follows the code **with the repairs applied**: fixes/C13-type-empty-mapping.diff
(c5871cf), fixes/C13-stateful-noncallable.diff (146ab51), fixes/C13-wrapped-pickle-ctor-args.diff (e52a412).
The unrepaired variants are kept as `TrainMap.statefulLegacy` / `wrappedRepickleLegacy` for the
refutation theorems.
Core Lean only.
-/
namespace ForML.Actor

/-! ### hyper-parameter dicts -/

abbrev Key := Nat
/-- a Python `dict[str, int]`; the first occurrence of a key is the effective one -/
abbrev PMap := List (Key × Int)

/-- `d.get(k)` -/
def pget : PMap → Key → Option Int
  | [], _ => none
  | (k', v) :: r, k => if k' = k then some v else pget r k

/-- `d[k] = v` -/
def pset : PMap → Key → Int → PMap
  | [], k, v => [(k, v)]
  | (k', v') :: r, k, v => if k' = k then (k, v) :: r else (k', v') :: pset r k v

/-- `d | u` / `d.update(u)` (the order of newly inserted keys is not meaningful) -/
def pupdate (m : PMap) : PMap → PMap
  | [] => m
  | (k, v) :: r => pset (pupdate m r) k v

def pkeys (m : PMap) : List Key := m.map (·.1)

/-- `{k: v for k, v in d.items() if p(k)}` -/
def pfilter (p : Key → Bool) (m : PMap) : PMap := m.filter (fun kv => p kv.1)

/-- `a if a is not None else b` on lookups -/
def por : Option Int → Option Int → Option Int
  | some v, _ => some v
  | none, b => b

/-! ### signatures (`inspect.signature(...).bind / bind_partial`) -/

inductive Err where
  | typeError | runtimeError | unexpectedError | attributeError | noObject | assertionError
  deriving DecidableEq, Repr

/-- The slice of a Python signature that matters for hyper-parameters.
`anon`: leading positional parameters that are not hyper-parameters (`features`, `state` of a
decorated function; only `bind_partial` of `Spec.__new__` ever sees them);
`pos`: positional-or-keyword hyper-parameters in order; `kw`: keyword-only ones; `varkw`: `**params`;
`mandatory`: names without a default; `defaults`: what a constructor that stores *all* its
arguments stores for the omitted ones; `hidden`: constructor arguments of a class that its
`get_params` does not report and its `set_params` does not accept (not hyper-parameters). -/
structure Sig where
  anon : Nat := 0
  pos : List Key := []
  kw : List Key := []
  varkw : Bool := false
  mandatory : List Key := []
  defaults : PMap := []
  hidden : List Key := []
  deriving Repr, DecidableEq

def Sig.names (s : Sig) : List Key := s.pos ++ s.kw

/-- the name is a hyper-parameter (reported by `get_params`, accepted by `set_params`) -/
def Sig.visible (s : Sig) (k : Key) : Bool := !s.hidden.contains k

/-- every key of `m` is an accepted keyword -/
def accepts (s : Sig) (m : PMap) : Bool :=
  s.varkw || m.all (fun kv => s.names.contains kv.1)

/-- every key of `m` is accepted by the class' `set_params` -/
def settable (s : Sig) (m : PMap) : Bool :=
  accepts s m && m.all (fun kv => s.visible kv.1)

def zipPos : List Key → List Int → PMap
  | k :: ks, v :: vs => (k, v) :: zipPos ks vs
  | _, _ => []

/-- `signature.bind_partial(*args, **kwargs)`: too many positionals, multiple values for one
name and unexpected keywords are `TypeError`s. -/
def bindPartial (s : Sig) (args : List Int) (kwargs : PMap) : Except Err PMap :=
  if args.length > s.anon + s.pos.length then .error .typeError
  else
    let bound := zipPos s.pos (args.drop s.anon)
    if kwargs.any (fun kv => (pkeys bound).contains kv.1) then .error .typeError
    else if !accepts s kwargs then .error .typeError
    else .ok (pupdate bound kwargs)

/-- `signature.bind(*args, **kwargs)`: additionally every mandatory name must be bound -/
def bind (s : Sig) (args : List Int) (kwargs : PMap) : Except Err PMap :=
  match bindPartial s args kwargs with
  | .error e => .error e
  | .ok b => if s.mandatory.all (fun k => (pget b k).isSome) then .ok b else .error .typeError

/-- all defaults are for accepted names (well-formed signature) -/
def Sig.wf (s : Sig) : Bool := s.defaults.all (fun kv => s.names.contains kv.1)

/-! ### actor objects, state blobs, user functions -/

structure Obj (σ : Type) where
  /-- attributes that came in through the constructor / `set_params` -/
  params : PMap
  state : Option σ
  /-- `Class.Actor._init`: the constructor arguments a class-wrapped actor remembers (repaired code) -/
  ctor : List Int × PMap := ([], [])

/-- what `cloudpickle.loads(state)` yields: the whole `__dict__` (native / wrapped: parameters and
internals) or the bare user state (decorated) -/
inductive Payload (σ : Type) where
  | whole (params : PMap) (state : Option σ)
  | value (s : σ)

/-- state bytes; `none` = `b''` -/
abbrev Blob (σ : Type) := Option (Payload σ)

/-- uninterpreted user code -/
structure User (σ : Type) where
  /-- stateful apply: params, trained state, input -/
  applyFn : (Key → Option Int) → σ → Int → Int
  /-- stateless apply -/
  applyFn0 : (Key → Option Int) → Int → Int
  /-- train: params, previous state (`None` the first time), features, labels -/
  trainFn : (Key → Option Int) → Option σ → Int → Int → σ

/-- The actor interface (`flow.Actor`) -/
structure Flavour (σ : Type) where
  /-- signature seen by `Spec.__new__` (`inspect.signature(actor)`) -/
  specSig : Sig
  /-- `actor(*args, **kwargs)` -/
  build : List Int → PMap → Except Err (Obj σ)
  apply : Obj σ → Int → Except Err Int
  train : Obj σ → Int → Int → Except Err (Obj σ)
  getState : Obj σ → Blob σ
  setState : Obj σ → Blob σ → Except Err (Obj σ)
  getParams : Obj σ → PMap
  setParams : Obj σ → PMap → Except Err (Obj σ)
  /-- `actor.is_stateful()` -/
  isStateful : Bool
  /-- spec side: a training implementation exists -/
  hasTrain : Bool
  /-- `loads(dumps(actor_instance))` -/
  repickle : Obj σ → Except Err (Obj σ)

/-! ### native flavour: `flow.Actor` subclass using the default `get_state/set_state` -/

/-- toy `__init__`: stores every argument (`defaults | bound`) -/
def ctorStore (sig : Sig) (args : List Int) (kwargs : PMap) : Except Err (Obj σ) :=
  match bind sig args kwargs with
  | .error e => .error e
  | .ok b => .ok { params := pupdate sig.defaults b, state := none }

/-- toy `get_params()`: the hyper-parameter attributes -/
def reported (sig : Sig) (o : Obj σ) : PMap := pfilter sig.visible o.params

/-- toy `set_params(**kw)`: unknown names are a `TypeError`, otherwise the values are stored -/
def storeParams (sig : Sig) (o : Obj σ) (kw : PMap) : Except Err (Obj σ) :=
  if settable sig kw then .ok { o with params := pupdate o.params kw } else .error .typeError

/-- toy `apply` of a class with (`stateful`) / without a training method -/
def classApply (u : User σ) (stateful : Bool) (o : Obj σ) (x : Int) : Except Err Int :=
  if stateful then
    match o.state with
    | none => .error .runtimeError          -- toy: `raise RuntimeError('Actor not trained')`
    | some s => .ok (u.applyFn (pget o.params) s x)
  else .ok (u.applyFn0 (pget o.params) x)

/-- `flow.Actor.get_state`: `b''` unless stateful, else the pickled `__dict__` -/
def dictGetState (stateful : Bool) (o : Obj σ) : Blob σ :=
  if stateful then some (.whole o.params o.state) else none

/-- `flow.Actor.set_state`: empty → nothing; stateless → `UnexpectedError`; otherwise
`params = get_params(); __dict__.update(loads(state)); set_params(**params)` -/
def dictSetState (sig : Sig) (stateful : Bool) (o : Obj σ) : Blob σ → Except Err (Obj σ)
  | none => .ok o
  | some pl =>
    if !stateful then .error .unexpectedError
    else match pl with
      | .whole p s => storeParams sig { o with params := p, state := s } (reported sig o)
      | .value _ => .error .typeError       -- `dict.update(<non mapping>)`

def native (u : User σ) (sig : Sig) (hasTrain : Bool) : Flavour σ where
  specSig := sig
  build := ctorStore sig
  apply := classApply u hasTrain
  train := fun o x y =>
    if hasTrain then .ok { o with state := some (u.trainFn (pget o.params) o.state x y) }
    else .error .runtimeError               -- `flow.Actor.train`: 'Stateless actor'
  getState := dictGetState hasTrain
  setState := dictSetState sig hasTrain
  getParams := reported sig
  setParams := storeParams sig
  isStateful := hasTrain                    -- `cls.train.__code__ is not Actor.train.__code__`
  hasTrain := hasTrain
  repickle := fun o => .ok o                -- default `__reduce_ex__`: class by reference/value + `__dict__`

/-! ### native flavour with user-written state methods

A `flow.Actor` subclass with a training method that overrides `get_state`/`set_state` the naive
way: `get_state = dumps(self.__dict__)`; `set_state(s)`: `if s: self.__dict__.update(loads(s))` --
no hyper-parameter is preserved by the actor itself, only the platform's `SetState.set` does it. -/

def nativeCustom (u : User σ) (sig : Sig) : Flavour σ where
  specSig := sig
  build := ctorStore sig
  apply := classApply u true
  train := fun o x y => .ok { o with state := some (u.trainFn (pget o.params) o.state x y) }
  getState := fun o => some (.whole o.params o.state)
  setState := fun o b =>
    match b with
    | none => .ok o
    | some (.whole p s) => .ok { o with params := p, state := s }
    | some (.value _) => .error .typeError
  getParams := reported sig
  setParams := storeParams sig
  isStateful := true
  hasTrain := true
  repickle := fun o => .ok o

/-! ### decorated flavour: `wrap.Actor.apply` (`pair = false`), `wrap.Actor.train/.apply` (`pair = true`) -/

def decorated (u : User σ) (sig : Sig) (pair : Bool) : Flavour σ where
  -- `functools.update_wrapper(actor, apply)` sets `__wrapped__`: the Spec sees the user function's signature
  specSig := { sig with anon := if pair then 2 else 1 }
  -- `Stateless/Stateful.Actor.__init__(self, **kwargs)`: keyword-only, validated against the functions
  build := fun args kwargs =>
    if !args.isEmpty then .error .typeError
    else match bind { sig with anon := 0 } [] kwargs with
      | .error e => .error e
      | .ok _ => .ok { params := kwargs, state := none }
  apply := fun o x =>
    if pair then
      match o.state with
      | none => .error .runtimeError        -- 'Actor not trained'
      | some s => if accepts sig o.params then .ok (u.applyFn (pget o.params) s x) else .error .typeError
    else if accepts sig o.params then .ok (u.applyFn0 (pget o.params) x) else .error .typeError
  train := fun o x y =>
    if pair then
      if accepts sig o.params then .ok { o with state := some (u.trainFn (pget o.params) o.state x y) }
      else .error .typeError
    else .error .runtimeError
  -- `Stateful.Actor.get_state`: `b''` while `_state is None`, else the pickled state value
  getState := fun o => if pair then o.state.map .value else none
  setState := fun o b =>
    if pair then
      match b with
      | none => .ok o
      | some (.value s) => .ok { o with state := some s }
      | some (.whole _ _) => .error .typeError
    else match b with
      | none => .ok o
      | some _ => .error .unexpectedError
  getParams := fun o => o.params            -- `Parametric.get_params`
  setParams := fun o kw => .ok { o with params := pupdate o.params kw }   -- `Parametric.set_params`: no validation
  isStateful := pair                        -- `Stateful.Actor` overrides `train`
  hasTrain := pair
  repickle := fun o => .ok o

/-! ### class-wrapped flavour: `wrap.Actor.type(origin, **mapping)` -/

/-- what the `train` entry of the mapping resolves to -/
inductive TrainMap where
  | callable        -- a function taking the origin instance
  | method          -- the name of an origin method
  | noncallable     -- the name of an origin attribute that is not callable
  | absent          -- a name the origin does not have
  deriving DecidableEq, Repr

def TrainMap.trains : TrainMap → Bool
  | .callable | .method => true
  | _ => false

/-- `Class.Actor.is_stateful` (repaired): `callable(attr) or callable(getattr(Origin, attr, None))` -/
def TrainMap.stateful : TrainMap → Bool
  | .callable | .method => true
  | .noncallable | .absent => false

/-- `Class.Actor.is_stateful` as it is in the unrepaired code: `callable(attr) or hasattr(Origin, attr)` -/
def TrainMap.statefulLegacy : TrainMap → Bool
  | .absent => false
  | _ => true

/-- `Class.Actor.__init__`: `self._origin = Origin(*args, **kwargs); self._init = args, kwargs` -/
def wrappedBuild (sig : Sig) (args : List Int) (kwargs : PMap) : Except Err (Obj σ) :=
  match ctorStore sig args kwargs with
  | .error e => .error e
  | .ok o => .ok { o with ctor := (args, kwargs) }

/-- the copyreg reducer: `(partial(actor, *a._init[0], **a._init[1]), (), (a.get_state(), a.get_params()), …,
lambda o, s: (o.set_state(s[0]), o.set_params(**s[1])))` -/
def wrappedRepickle (sig : Sig) (stateful : Bool) (o : Obj σ) : Except Err (Obj σ) :=
  match wrappedBuild sig o.ctor.1 o.ctor.2 with
  | .error e => .error e
  | .ok (o0 : Obj σ) =>
    match dictSetState sig stateful o0 (dictGetState stateful o) with
    | .error e => .error e
    | .ok o1 => storeParams sig o1 (reported sig o)

/-- the reducer of the unrepaired code: `(actor, (), …)` -- the origin is re-created without arguments -/
def wrappedRepickleLegacy (sig : Sig) (stateful : Bool) (o : Obj σ) : Except Err (Obj σ) :=
  match wrappedBuild sig [] [] with
  | .error e => .error e
  | .ok (o0 : Obj σ) =>
    match dictSetState sig stateful o0 (dictGetState stateful o) with
    | .error e => .error e
    | .ok o1 => storeParams sig o1 (reported sig o)

def wrapped (u : User σ) (sig : Sig) (tm : TrainMap) : Flavour σ where
  specSig := sig                            -- `__wrapped__` = the origin class
  build := wrappedBuild sig
  apply := classApply u tm.trains
  train := fun o x y =>
    match tm with
    | .callable | .method => .ok { o with state := some (u.trainFn (pget o.params) o.state x y) }
    | .noncallable => .error .typeError     -- `'bool' object is not callable`
    | .absent => .error .attributeError
  -- `flow.Actor.get_state/set_state` run with `self.__dict__` redirected to the origin's
  getState := dictGetState tm.stateful
  setState := dictSetState sig tm.stateful
  getParams := reported sig
  setParams := storeParams sig
  isStateful := tm.stateful
  hasTrain := tm.trains
  repickle := wrappedRepickle sig tm.stateful

/-! ### the flavours as data -/

inductive FlavourSpec where
  | native (sig : Sig) (hasTrain : Bool)
  | custom (sig : Sig)
  | decorated (sig : Sig) (pair : Bool)
  | wrapped (sig : Sig) (tm : TrainMap)
  deriving Repr, DecidableEq

def FlavourSpec.sig : FlavourSpec → Sig
  | .native s _ | .custom s | .decorated s _ | .wrapped s _ => s

def FlavourSpec.toFlavour (u : User σ) : FlavourSpec → Flavour σ
  | .native s t => ForML.Actor.native u s t
  | .custom s => ForML.Actor.nativeCustom u s
  | .decorated s p => ForML.Actor.decorated u s p
  | .wrapped s tm => ForML.Actor.wrapped u s tm

/-! ### builders (`flow.Spec`, `flow.Builder`) -/

structure Spec where
  args : List Int
  kwargs : PMap
  deriving Repr, DecidableEq

/-- `Spec.__new__`: `inspect.signature(actor).bind_partial(*args, **kwargs)` -/
def mkSpec (f : Flavour σ) (args : List Int) (kwargs : PMap) : Except Err Spec :=
  match bindPartial f.specSig args kwargs with
  | .error e => .error e
  | .ok _ => .ok { args := args, kwargs := kwargs }

/-- `Builder.update`: `builder(*(args or self.args), **self.kwargs | kwargs)` -/
def Spec.update (f : Flavour σ) (sp : Spec) (args : List Int) (kwargs : PMap) : Except Err Spec :=
  mkSpec f (if args.isEmpty then sp.args else args) (pupdate sp.kwargs kwargs)

/-- `Builder.reset`: `builder(*args, **kwargs)` -/
def Spec.reset (f : Flavour σ) (_sp : Spec) (args : List Int) (kwargs : PMap) : Except Err Spec :=
  mkSpec f args kwargs

/-- `Builder.__call__`: `actor(*(args or self.args), **self.kwargs | kwargs)` -/
def Spec.call (f : Flavour σ) (sp : Spec) (args : List Int) (kwargs : PMap) : Except Err (Obj σ) :=
  f.build (if args.isEmpty then sp.args else args) (pupdate sp.kwargs kwargs)

/-- `loads(dumps(spec))` via `__getnewargs_ex__` -/
def Spec.repickle (f : Flavour σ) (sp : Spec) : Except Err Spec := mkSpec f sp.args sp.kwargs

/-! ### histories -/

def trainAll (f : Flavour σ) (o : Obj σ) : List (Int × Int) → Except Err (Obj σ)
  | [] => .ok o
  | (x, y) :: r =>
    match f.train o x y with
    | .error e => .error e
    | .ok o' => trainAll f o' r

/-- life of an actor between construction and state export: training steps and `set_params` calls -/
inductive Op where
  | train (x y : Int)
  | setParams (kw : PMap)
  deriving Repr

def runOp (f : Flavour σ) (o : Obj σ) : Op → Except Err (Obj σ)
  | .train x y => f.train o x y
  | .setParams kw => f.setParams o kw

def runOps (f : Flavour σ) (o : Obj σ) : List Op → Except Err (Obj σ)
  | [] => .ok o
  | op :: r =>
    match runOp f o op with
    | .error e => .error e
    | .ok o' => runOps f o' r

/-- the builder follows the same hyper-parameter updates (`Builder.update(**kw)` per `set_params(**kw)`) -/
def Spec.follow (f : Flavour σ) (sp : Spec) : List Op → Except Err Spec
  | [] => .ok sp
  | .train _ _ :: r => sp.follow f r
  | .setParams kw :: r =>
    match sp.update f [] kw with
    | .error e => .error e
    | .ok sp' => sp'.follow f r

/-! ### the platform path (`target/user.py`) -/

/-- `Preset.reduce` + `SetState.set`: a falsy value is skipped, otherwise
`params = get_params(); set_state(value); set_params(**params)` -/
def presetState (f : Flavour σ) (o : Obj σ) : Blob σ → Except Err (Obj σ)
  | none => .ok o
  | some pl =>
    match f.setState o (some pl) with
    | .error e => .error e
    | .ok o' => f.setParams o' (f.getParams o)

/-- how a state reaches an actor: `actor.set_state(b)` directly, or through the platform's preset -/
def giveState (preset : Bool) (f : Flavour σ) (o : Obj σ) (b : Blob σ) : Except Err (Obj σ) :=
  if preset then presetState f o b else f.setState o b

/-- `Functor(builder, SetState(Apply())).execute(state, x)` -/
def functorApply (f : Flavour σ) (sp : Spec) (b : Blob σ) (x : Int) : Except Err Int :=
  match sp.call f [] [] with
  | .error e => .error e
  | .ok o =>
    match presetState f o b with
    | .error e => .error e
    | .ok o' => f.apply o' x

/-- `Functor(builder, SetState(Train())).execute(state, x, y)`: `train` then `get_state()` -/
def functorTrain (f : Flavour σ) (sp : Spec) (b : Blob σ) (x y : Int) : Except Err (Blob σ) :=
  match sp.call f [] [] with
  | .error e => .error e
  | .ok o =>
    match presetState f o b with
    | .error e => .error e
    | .ok o' =>
      match f.train o' x y with
      | .error e => .error e
      | .ok o'' => .ok (f.getState o'')

/-- incremental training through the platform: each generation starts from a fresh actor preset
with the previous generation's state -/
def functorChain (f : Flavour σ) (sp : Spec) (b : Blob σ) : List (Int × Int) → Except Err (Blob σ)
  | [] => .ok b
  | (x, y) :: r =>
    match functorTrain f sp b x y with
    | .error e => .error e
    | .ok b' => functorChain f sp b' r

/-! ### the integer toy functions shared with harness/props/c13.py (driver instantiation only) -/

def toyGet (p : Key → Option Int) (k : Key) (d : Int) : Int := (p k).getD d

/-- `a*x + b + 3*s + c*d` -/
def toyApply (p : Key → Option Int) (s : Int) (x : Int) : Int :=
  toyGet p 0 1 * x + toyGet p 1 0 + 3 * s + toyGet p 2 0 * toyGet p 3 0

/-- `a*x + b - c + 2*d` -/
def toyApply0 (p : Key → Option Int) (x : Int) : Int :=
  toyGet p 0 1 * x + toyGet p 1 0 - toyGet p 2 0 + 2 * toyGet p 3 0

/-- `(7 if prev is None else 2*prev + 1) + a*x + y + b*d - c` -/
def toyTrain (p : Key → Option Int) (prev : Option Int) (x y : Int) : Int :=
  (match prev with | none => 7 | some s => 2 * s + 1)
    + toyGet p 0 1 * x + y + toyGet p 1 0 * toyGet p 3 0 - toyGet p 2 0

def toyUser : User Int := { applyFn := toyApply, applyFn0 := toyApply0, trainFn := toyTrain }

end ForML.Actor
