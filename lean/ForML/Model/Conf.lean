/-
C20 (first half) — configuration layering: model of `forml/setup/_conf.py`.

  Config.update.merge(left, right)   ↦  `merge`        (mapping × mapping → recursive; list/tuple × list/tuple →
                                                          `(*right, *(v for v in left if v not in right))`; else right)
  Config.__init__/update/read        ↦  `stack`        (`update(defaults)`, then one `update(tomli.load(f))` per file)
  CONFIG[a][b]…                      ↦  `get` / `obs`
  Section.__new__ / Provider._extract↦  `resolveSection`

Keys and scalar values are naturals (the harness numbers the strings / TOML scalars of a case injectively, Python
equality classes ↦ equal numbers).  The order of keys inside a table is incidental in Python (`set(left).union(right)`)
and is therefore never observed: everything is stated through `get`/`obs` along key paths.  Core Lean only.
-/
namespace ForML.Conf

inductive Cfg where
  | scalar : Nat → Cfg
  | list : List Nat → Cfg
  | table : List (Nat × Cfg) → Cfg
  deriving Repr, Inhabited

abbrev Tbl := List (Nat × Cfg)
abbrev Path := List Nat

/-- `mapping[k]` (first binding; Python dicts have no duplicate keys) -/
def lookup (k : Nat) : Tbl → Option Cfg
  | [] => none
  | (k', v) :: r => if k' = k then some v else lookup k r

/-- the list × list branch of `merge`: `(*right, *(v for v in left if v not in right))` -/
def mergeList (old new : List Nat) : List Nat := new ++ old.filter (fun v => !new.contains v)

mutual
/-- `Config.update.merge(left, right)` including the per-key dispatch (`isinstance` tests in the same order) -/
def merge : Cfg → Cfg → Cfg
  | .table l, .table r => .table (mergeL l r ++ r.filter (fun e => (lookup e.1 l).isNone))
  | .list xs, .list ys => .list (mergeList xs ys)
  | _, r => r
/-- the keys of `left` (common ones merged, the others copied) -/
def mergeL : Tbl → Tbl → Tbl
  | [], _ => []
  | (k, v) :: rest, r =>
    (match lookup k r with
     | some w => (k, merge v w)
     | none => (k, v)) :: mergeL rest r
end

/-- `Config(defaults, *paths)`: successive `update`s -/
def stack (base : Cfg) (cs : List Cfg) : Cfg := cs.foldl merge base

def child : Cfg → Nat → Option Cfg
  | .table t, k => lookup k t
  | _, _ => none

/-- `CONFIG[k1][k2]…` (`none` = KeyError / not subscriptable) -/
def get : Cfg → Path → Option Cfg
  | c, [] => some c
  | c, k :: p => match child c k with
    | some v => get v p
    | none => none

/-- what is visible at one path: the scalar, the list, or "a table" (its content is visible at longer paths) -/
inductive Leaf where
  | scalar : Nat → Leaf
  | list : List Nat → Leaf
  | table : Leaf
  deriving DecidableEq, Repr

def leaf : Cfg → Leaf
  | .scalar v => .scalar v
  | .list xs => .list xs
  | .table _ => .table

def obs (c : Cfg) (p : Path) : Option Leaf := (get c p).map leaf

/-- `c` says nothing about `p`: walking `p` stays inside tables of `c` until a key is absent -/
def untouched : Cfg → Path → Bool
  | _, [] => false
  | .table t, k :: p => match lookup k t with
    | none => true
    | some v => untouched v p
  | _, _ :: _ => false

/-- path-wise effect of one more (newer) source on what is visible at a path -/
def stepLeaf (acc : Option Leaf) (oc : Option Leaf) (unt : Bool) : Option Leaf :=
  match oc with
  | some (.list ys) => match acc with
    | some (.list xs) => some (.list (mergeList xs ys))
    | _ => some (.list ys)
  | some l => some l
  | none => if unt then acc else none

/-- spec-shaped reading of a stack, newest source first: the first source that says something about `p` decides,
lists accumulate, sources that do not touch `p` are skipped, a source overriding a prefix of `p` hides all older -/
def layered (base : Option Leaf) : List Cfg → Path → Option Leaf
  | [], _ => base
  | c :: older, p => stepLeaf (layered base older p) (obs c p) (untouched c p)

mutual
/-- every list anywhere in the tree satisfies `P` -/
def allLists (P : List Nat → Bool) : Cfg → Bool
  | .scalar _ => true
  | .list xs => P xs
  | .table t => allListsL P t
def allListsL (P : List Nat → Bool) : Tbl → Bool
  | [] => true
  | (_, v) :: r => allLists P v && allListsL P r
end

def nodupB : List Nat → Bool
  | [] => true
  | x :: r => !r.contains x && nodupB r

mutual
/-- same kind (scalar / list / table) at every common path -/
def compat : Cfg → Cfg → Bool
  | .scalar _, .scalar _ => true
  | .list _, .list _ => true
  | .table l, .table r => compatL l r
  | _, _ => false
def compatL : Tbl → Tbl → Bool
  | [], _ => true
  | (k, v) :: rest, r =>
    (match lookup k r with
     | some w => compat v w
     | none => true) && compatL rest r
end

/-! ### section resolution (`Section.__new__`, `Provider._extract`) -/

inductive SecErr where
  | missing   -- forml.MissingError: Config section not found
  | malformed -- the section / group is not a table (TypeError / AttributeError in Python; not generated)
  deriving DecidableEq, Repr

/-- `Provider(reference)`: `kwargs = CONFIG[GROUP][reference]`; `provider = kwargs.pop('provider', reference)`;
`kwargs.update(kwargs.pop('params', {}))`.  Returns (provider reference or `none` = the section name itself, params).
`kProvider`/`kParams` are the numbers of the keys `provider` / `params`. -/
def resolveSection (cfg : Cfg) (group ref kProvider kParams : Nat) : Except SecErr (Option Cfg × Tbl) :=
  match child cfg group with
  | none => .error .missing
  | some g =>
    match g with
    | .table gt =>
      match lookup ref gt with
      | none => .error .missing
      | some (.table kw) =>
        let provider := lookup kProvider kw
        let kw := kw.filter (fun e => e.1 != kProvider)
        let params := lookup kParams kw
        let kw := kw.filter (fun e => e.1 != kParams)
        match params with
        | none => .ok (provider, kw)
        | some (.table ps) => .ok (provider, kw.filter (fun e => (lookup e.1 ps).isNone) ++ ps)
        | some _ => .error .malformed
      | some _ => .error .malformed
    | _ => .error .malformed

end ForML.Conf
