/-
Model of `ABTest.Builder` (forml/application/_strategy.py), C17: `ABTest.compare(project, release, generation, target)`
starts the variant list, `.over(generation, *, release=None, project=None, target=None)` appends
`Variant(project or last.project, release or last.release, generation, target)`, `.against(...)` does the same and
hands the list to `ABTest.__init__`, which refuses variant sets that are not exclusive
(`Variant.__eq__`/`__hash__`: same project, release and generation).
-/
namespace ForML.Strategy

/-- `ABTest.Variant` (keys abstracted to naturals; `target = none`: omitted) -/
structure Variant where
  project : Nat
  release : Nat
  generation : Nat
  target : Option Nat
  deriving DecidableEq, Repr

/-- the arguments of one `over(...)` / `against(...)` call; `none` = keyword omitted -/
structure VArg where
  generation : Nat
  release : Option Nat
  project : Option Nat
  target : Option Nat
  deriving DecidableEq, Repr

/-- `Builder.over`: the coordinates not given are inherited from the variant added last -/
def Builder.over (vs : List Variant) (a : VArg) : List Variant :=
  match vs.getLast? with
  | none => vs
  | some last => vs ++ [⟨a.project.getD last.project, a.release.getD last.release, a.generation, a.target⟩]

/-- `compare(first).over(a₁)…over(aₙ₋₁).against(aₙ)`: the calls as a left fold -/
def Builder.build (first : Variant) (args : List VArg) : List Variant := args.foldl Builder.over [first]

/-- `Variant.__eq__` -/
def Variant.same (a b : Variant) : Bool :=
  a.project == b.project && a.release == b.release && a.generation == b.generation

/-- `len(set(variants)) == len(variants)`; otherwise `ValueError('Exclusive variants required')` -/
def exclusive : List Variant → Bool
  | [] => true
  | v :: r => !(r.any (Variant.same v)) && exclusive r

/-- the variant set as *declared*: every variant carries its own generation and target, and for project and
release the value given last at or before it -/
def declaredFrom (p r : Nat) : List VArg → List Variant
  | [] => []
  | a :: rest =>
    ⟨a.project.getD p, a.release.getD r, a.generation, a.target⟩ ::
      declaredFrom (a.project.getD p) (a.release.getD r) rest

def declared (first : Variant) (args : List VArg) : List Variant :=
  first :: declaredFrom first.project first.release args

end ForML.Strategy
