/-
C16 — what one pool worker carries from request to request.  Core Lean only.

Anchors:
* `forml/runtime/_service/prediction.py` `Pool.Worker.run` : every forked worker owns one `pyfunc.Runner` for its whole
  life and calls `self._runner.call(task.entry)` once per task; `forml.AnyError` → failure result (the worker goes on),
  any other exception → failure result, `stopped.set()`, the worker dies.
* `forml/provider/runner/pyfunc.py`
  `Branch.fork`         : a term with `szout > 1` consumers becomes `szout` `Replica`s over ONE shared
                          `deque(maxlen = szout - 1)`; with `szout ≤ 1` the term itself (no queue at all)
  `Replica.__call__`    : `if self._queue: return self._queue.popleft()`; else compute the value from the argument,
                          append `replicas` references to it, return it
  `Zip.__call__`        : `self._instruction(*(b(arg) for b in self._branches))` — the branches are evaluated left to
                          right; a raising branch ends the evaluation, the replicas not yet consumed stay queued
  `Expression.__call__` : `try: return self._term(arg)  finally: for fork in self._forks: fork.reset()` — the reset
                          discipline: replicas never outlive the evaluation that produced them.

The pipeline shape modelled is the one `payload.MapReduce` produces: a head (everything before the fan-out: feature
extraction — `forml.MissingError` for a missing column — and whatever actor precedes the fork), `n` parallel mapper
branches fed by the fork and a reducer that zips them.  `n ≤ 1` is a linear pipeline (no `Replica`).  A value flowing
through the fork is the decoded request itself (`Entry`), so a replica left behind by request A and consumed by
request B is visible both in B's outcome (`Outcome.mixed` / the payload inside `Err.invalid`).

`ResetPolicy` selects the reset discipline: `always` is the code that exists; `firstCallOnly` (the reset works on a
worker's first call only, e.g. the forks kept in a one-shot iterator) and `onSuccessOnly` (`else` instead of `finally`)
are kept so that the need for the discipline stays a kernel-checked counterexample.
-/
namespace ForML.Serving

/-- What the decoded request carries into the pipeline (`layout.Entry`): a payload token and whether the entry is
well-formed (`ok`), lacks a required column (`forml.MissingError` at the head, inside the worker), makes an actor raise
a non-platform exception (`fatal`, at the head; outside the property's fault class) or makes the mapper actor of
branch `branch` raise a `forml.InvalidError` (`refused`: a platform-level failure raised INSIDE the pipeline, after the
fork). -/
inductive EntryKind where
  | ok | missingColumn | fatal
  | refused (branch : Nat)
  deriving DecidableEq, Repr

structure Entry where
  kind : EntryKind
  payload : Nat
  deriving DecidableEq, Repr

/-- Error kinds a caller can observe. `missingApp`, `unsupported`, `missingFeatures`, `invalid` are platform-level
errors (`forml.AnyError`); `invalid payload branch` is the `forml.InvalidError` the mapper of `branch` raised on the data
of the request with `payload` (so a failure delivered to the wrong caller is visible); `fatal` is the non-platform
exception itself, `notRunning` is `RuntimeError('Executor not running')` of `Executor.apply` after the pool was stopped,
`brokenPool` is `concurrent.futures.process.BrokenProcessPool` of the wrapper's process pool (`Wrapper.respond`) once a
result could not be brought back from it (`ForML.Model.ServingCold`). -/
inductive Err where
  | missingApp | unsupported | missingFeatures | fatal | notRunning | brokenPool
  | invalid (payload branch : Nat)
  deriving DecidableEq, Repr

/-- `value inst payload` is the uninterpreted `f inst payload` (injective in both arguments, so that any crossing of
responses is visible); `mixed inst seen` is a response whose branches were computed from the data of different
requests (`seen` = the payload every branch worked on, in branch order). -/
inductive Outcome where
  | value (inst payload : Nat)
  | mixed (inst : Nat) (seen : List Nat)
  | error (e : Err)
  deriving DecidableEq, Repr

def Outcome.err? : Outcome → Option Err
  | .error e => some e
  | _ => none

/-- the reset discipline of `Expression.__call__` -/
inductive ResetPolicy where
  /-- `finally: for fork in self._forks: fork.reset()` with `_forks` a list — the code that exists -/
  | always
  /-- the reset loop only has an effect in the first call a worker serves -/
  | firstCallOnly
  /-- the queues are cleared after a successful evaluation only -/
  | onSuccessOnly
  deriving DecidableEq, Repr

/-- What a worker's `Expression` keeps between two calls: the shared deque of the fork's replicas and the number of
calls served so far. -/
structure Carry where
  queue : List Entry := []
  calls : Nat := 0
  deriving DecidableEq, Repr

/-- everything before the fan-out (`Replica._term`): feature extraction and the head actor -/
def headCall (e : Entry) : Except Err Entry :=
  match e.kind with
  | .missingColumn => .error .missingFeatures
  | .fatal => .error .fatal
  | _ => .ok e

/-- `Replica.__call__` over the shared deque (`replicas` = `maxlen`; the deque is only ever appended to when empty):
a queued replica is handed out WITHOUT evaluating the head; otherwise the head is evaluated on the argument (it may
raise: nothing is queued then) and `replicas` references to its value are queued. -/
def replicaCall (replicas : Nat) (arg : Entry) : List Entry → Except Err Entry × List Entry
  | v :: q => (.ok v, q)
  | [] =>
    match headCall arg with
    | .error e => (.error e, [])
    | .ok v => (.ok v, List.replicate replicas v)

/-- the mapper actor of branch `k` applied to the value `v` it was handed -/
def branchCall (k : Nat) (v : Entry) : Except Err Nat :=
  if v.kind = .refused k then .error (.invalid v.payload k) else .ok v.payload

/-- `Zip.__call__`: branches `k, k+1, …, k+todo-1` evaluated in this order, each through its `Replica`; `seen` collects
the payloads they worked on (newest first).  A raising head / branch ends the evaluation and leaves the deque as it is. -/
def evalBranches (replicas : Nat) (arg : Entry) : (k todo : Nat) → List Entry → List Nat → Except Err (List Nat) × List Entry
  | _, 0, q, seen => (.ok seen.reverse, q)
  | k, todo + 1, q, seen =>
    match (replicaCall replicas arg q).1 with
    | .error e => (.error e, (replicaCall replicas arg q).2)
    | .ok v =>
      match branchCall k v with
      | .error e => (.error e, (replicaCall replicas arg q).2)
      | .ok p => evalBranches replicas arg (k + 1) todo (replicaCall replicas arg q).2 (p :: seen)

/-- the reducer: one response out of what the branches computed -/
def combine (inst : Nat) : List Nat → Outcome
  | [] => .mixed inst []
  | p :: ps => if ps.all (· == p) then .value inst p else .mixed inst (p :: ps)

/-- the tail of a fan-out pipeline: the reducer turns what the branches computed into one response; an exception of the
head or of a branch passes through -/
def reduce (inst : Nat) : Except Err (List Nat) × List Entry → Outcome × List Entry
  | (.error err, q) => (.error err, q)
  | (.ok seen, q) => (combine inst seen, q)

/-- a linear pipeline `Chain(mapper, head)`: no `Replica`, the deque does not exist (it stays as it is) -/
def linearEval (inst : Nat) (e : Entry) (q : List Entry) : Outcome × List Entry :=
  match headCall e with
  | .error err => (.error err, q)
  | .ok v =>
    match branchCall 0 v with
    | .error err => (.error err, q)
    | .ok p => (.value inst p, q)

/-- `Expression._term(arg)` of instance `inst` whose pipeline fans out into `n` branches, on deque `q`. -/
def evalTerm (inst n : Nat) (e : Entry) (q : List Entry) : Outcome × List Entry :=
  if n ≤ 1 then linearEval inst e q else reduce inst (evalBranches (n - 1) e 0 n q [])

/-- does the `reset` after this call clear the deque?  (`calls` = calls served before this one, `ok` = it returned) -/
def resetWorks : ResetPolicy → Nat → Bool → Bool
  | .always, _, _ => true
  | .firstCallOnly, calls, _ => calls == 0
  | .onSuccessOnly, _, ok => ok

/-- `Expression.__call__` as `Pool.Worker.run` sees it: the result (value or exception) and what the worker carries on -/
def workerCall (pol : ResetPolicy) (inst n : Nat) (cr : Carry) (e : Entry) : Outcome × Carry :=
  let r := evalTerm inst n e cr.queue
  (r.1, ⟨if resetWorks pol cr.calls r.1.err?.isNone then [] else r.2, cr.calls + 1⟩)

/-- **The property's `f inst payload`**: what instance `inst` (fan-out `n`) answers to entry `e` — a function of the
instance and the entry alone. -/
def runModel (n inst : Nat) (e : Entry) : Outcome :=
  match e.kind with
  | .ok => .value inst e.payload
  | .missingColumn => .error .missingFeatures
  | .fatal => .error .fatal
  | .refused k => if k < max n 1 then .error (.invalid e.payload k) else .value inst e.payload

/-- a worker serving the entries `hist` one after the other: the outcomes (in order) and the final carry -/
def serveAll (pol : ResetPolicy) (inst n : Nat) : Carry → List Entry → List Outcome × Carry
  | cr, [] => ([], cr)
  | cr, e :: es =>
    let r := workerCall pol inst n cr e
    let rest := serveAll pol inst n r.2 es
    (r.1 :: rest.1, rest.2)

end ForML.Serving
