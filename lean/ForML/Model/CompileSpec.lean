/-
C01 — the symbol table a segment *denotes*, written declaratively (no linkage maps, no visit order),
and the executable validator `describes` comparing a compiled table with it up to symbol order.

This is the hinge of the C01 proof:
  * `ForML/Lemmas/C01Spec.lean`   any table with the symbols of `specTable g A` evaluates, under the reference
                                   interpreter, to direct graph evaluation (`GraphEval`);
  * `ForML/Lemmas/C01Fold*.lean`  the mechanism-level model `compile g A order` of forml's compiler produces, for
                                   every visit order, exactly the symbols of `specTable g A`.
The driver also evaluates `describes` on every explored case (translation validation of the real
compiler's output shape through the model).

Core Lean only.
-/
import ForML.Model.Segment

namespace ForML.Flow
namespace Segment

/-- `persistent = self._assets and state in self._assets` (for a stateful node) -/
def persistentW (A : Option Assets) (w : Worker) : Bool :=
  w.stateful && (match A with | some A => A.contains w.gid | none => false)

/-- the trained member of a (stateful) group -/
def isTrainer (g : Segment) (w : Worker) : Bool := w.stateful && g.trained w.uid

/-- the node's functor gets a state preset (`functor.preset_state()`) -/
def hasPreset (g : Segment) (A : Option Assets) (w : Worker) : Bool :=
  w.stateful && (persistentW A w || g.derived w)

/-- instruction whose result is preset as the state of `w`: the loader of the group for the trainer (previous
generation) and for a fork without trainer in the segment, the train functor of the sibling otherwise -/
def stateSrc (g : Segment) (w : Worker) : Key :=
  if g.isTrainer w then .loader w.gid
  else match g.trainerOf w.gid with
    | some t => .uid t.uid
    | none => .loader w.gid

/-- instruction delivering what is published on the output port edge `e` starts from -/
def portKey (g : Segment) (e : Edge) : Key :=
  match g.worker? e.pub with
  | some p => if p.szout = 1 then .uid e.pub else .getter e.pub e.pubPort
  | none => .uid e.pub

/-- positional data arguments: train, label for a trained node, else the apply ports in port order -/
def dataArgs (g : Segment) (w : Worker) : List Key :=
  if g.trained w.uid then
    ((g.publisher w.uid .train).toList ++ (g.publisher w.uid .label).toList).map g.portKey
  else (List.range w.szin).filterMap (fun i => (g.publisher w.uid (.apply i)).map g.portKey)

def functorSym (g : Segment) (A : Option Assets) (w : Worker) : Symbol :=
  ⟨.uid w.uid,
   .functor w.actor (if g.isTrainer w then .train else .apply) (if g.hasPreset A w then [.setState] else []),
   (if g.hasPreset A w then [g.stateSrc w] else []) ++ g.dataArgs w⟩

/-- one getter per *used* output port of a multi-output (or zero-output) mapper -/
def getterSyms (g : Segment) (w : Worker) : List Symbol :=
  if g.trained w.uid || w.szout = 1 then []
  else ((List.range w.szout).filter (fun i => !(g.subscribers w.uid i).isEmpty)).map
    (fun i => ⟨.getter w.uid i, .getter i, [.uid w.uid]⟩)

/-- one loader per persistent group having a stateful member in the segment -/
def loaderSyms (g : Segment) (A : Option Assets) : List Symbol :=
  match A with
  | none => []
  | some As =>
    (As.persistent.filter (fun γ => g.workers.any (fun w => w.stateful && w.gid = γ))).map
      (fun γ => ⟨.loader γ, .loader γ, []⟩)

/-- one dumper per persistent trainer -/
def dumperSyms (g : Segment) (A : Option Assets) : List Symbol :=
  (g.workers.filter (fun w => g.isTrainer w && persistentW A w)).map
    (fun w => ⟨.dumper w.uid, .dumper, [.uid w.uid]⟩)

/-- the committer takes the dumpers in persistent-list order -/
def committerSyms (g : Segment) (A : Option Assets) : List Symbol :=
  match A with
  | none => []
  | some As =>
    if g.workers.any (fun w => g.isTrainer w && persistentW A w) then
      [⟨.committer, .committer, As.persistent.filterMap (fun γ => (g.trainerOf γ).map (fun t => Key.dumper t.uid))⟩]
    else []

/-- the table denoted by the segment -/
def specTable (g : Segment) (A : Option Assets) : Table :=
  g.workers.map (g.functorSym A) ++ g.workers.flatMap g.getterSyms ++ g.loaderSyms A ++ g.dumperSyms A
    ++ g.committerSyms A

/-- `t` has exactly the symbols of `specTable g A` (any order), each instruction once -/
def describes (g : Segment) (A : Option Assets) (t : Table) : Bool :=
  t.all (fun s => (g.specTable A).contains s) && (g.specTable A).all (fun s => t.contains s)
    && allDistinct (t.map (·.id))

/-- there is at least one link: the region where the *unrepaired* `Linkage.leaves` (`assert children`) is guaranteed
not to fire (fix C01-F1 removed the need for it; reported by the driver as data only) -/
def linked (g : Segment) (A : Option Assets) : Bool :=
  !g.edges.isEmpty || g.workers.any (fun w => g.hasPreset A w)

end Segment
end ForML.Flow
