/-
C06 — model of the DSL parser: `forml/io/dsl/parser.py` (`Container`, `Visitor.visit_*`, `bypass`) specialised by
`forml/provider/feed/reader/alchemy.py` (`Parser.generate_*`), as a stack machine that turns a DSL statement into an
abstract SQL tree, plus the meaning of that tree (`evalSql`).

  Python                                         here
  ---------------------------------------------  ---------------------------------------------------------
  sql.table(name) / selectable.alias(name)       `SqlSel.table` / `SqlSel.alias`
  left.join(right, onclause, full, isouter)      `SqlSel.join l r on full isouter`
  sql.select(*f).select_from(s).where(..)...     `SqlSel.select items frm whr grp hav ord lim off`
  Select.union / intersect / except_             `SqlSel.compound op l r`
  sql.column(name, _selectable=origin)           `SqlExpr.col qualifier name`   (rendered "qualifier"."name")
  feature.label(alias)                           `SqlExpr.label e alias`
  sql.bindparam(None, value, KIND[kind])         `SqlExpr.lit v`
  EXPRESSION[cls](*arguments)                    `SqlExpr.un op a` / `SqlExpr.bin op a b`, `op` from the *generated*
                                                 table `ForML.Generated.C06.expression`
  Container.Context (symbols, origins)           `Ctx`
  Container._context / _stack, __enter__/__exit__, fetch   `PState`, `enter`, `exit`, `parse`
  Visitor.generate_feature (visit + pop)         `genFeature`
  bypass(resolve_source)                         `bypass`

`compile` is the same translation written as a plain recursive function (no stack, no contexts); `C06_parse_spec`
proves the stack machine computes it on well-formed statements.

Not modelled (named in design.d/C06.md): the per-table `Tables.Segment` (fields / predicate factors handed to
`generate_table`, which `alchemy.Parser` ignores), the `lru_cache` on `generate_feature`, explicit feature mappings
(`features` is empty for every SQL feed in the repository), `Cast`, window functions (refused by the parser).
Core Lean only.
-/
import ForML.Model.Dsl
import ForML.Model.SqlRel
import ForML.Generated.C06Tables

namespace ForML.Parser
open ForML.Dsl ForML.Rel

/-! ### abstract SQL -/

inductive SqlExpr where
  | lit (v : Lit)
  | col (qual : String) (name : String)
  | label (e : SqlExpr) (name : String)
  | un (op : SqlOp) (a : SqlExpr)
  | bin (op : SqlOp) (a b : SqlExpr)
  deriving DecidableEq, Repr, Inhabited

inductive SqlSel where
  | table (name : String)
  | alias (inner : SqlSel) (name : String)
  | join (l r : SqlSel) (on : SqlExpr) (full isouter : Bool)
  | select (items : List SqlExpr) (frm : SqlSel) (whr : Option SqlExpr) (grp : List SqlExpr)
      (hav : Option SqlExpr) (ord : List (SqlExpr × SortDir)) (lim : Option Int) (off : Option Int)
  | compound (op : SetOp) (l r : SqlSel)
  deriving DecidableEq, Repr, Inhabited

/-! ### the tables of the code (generated from the live objects) -/

def exprOp (op : Op) : Option SqlOp := Generated.C06.expression.lookup op.className
def joinOpt (k : JoinKind) : Option (Bool × Bool × Bool) := Generated.C06.joinOpts.lookup k.wire
def setOpOf (k : SetKind) : Option SetOp := (Generated.C06.setOps.lookup k.wire).join
def orderOf (d : Dir) : Option SortDir := (Generated.C06.orders.lookup d.wire).join

/-- `Feed.sources`: DSL source ↦ physical table name (SQL feeds provision tables only, see `OnlyTables`) -/
abbrev Sources := List (Source × String)

/-! ### `Source.features` of origins, output names -/

/-- `Feature.name` of a selected feature (`Aliased.name` / `Element.name`, `None` otherwise) -/
def selName : Feature → Option String
  | .alias _ n => some n
  | .elem _ n => some n
  | _ => none

def selNames : Features → List (Option String)
  | .nil => []
  | .cons f fs => selName f :: selNames fs

/-- names of `source.features` (`frame.py`: Table/Reference/Join/Set/Query `.features`) -/
def outNames : Source → List (Option String)
  | .table _ fields => fields.map (fun f => some f.1)
  | .ref inst _ => outNames inst
  | .join l r _ _ => outNames l ++ outNames r
  | .set l r _ => outNames l ++ outNames r
  | .query src sel _ _ _ _ _ => if sel.isEmpty then outNames src else selNames sel

/-- `source.features` of an origin as (origin, name) pairs: `Table.features`, `Reference.features`, `Join.features` -/
def originElems : Source → Option (List (Source × String))
  | .table n fields => some (fields.map (fun f => (Source.table n fields, f.1)))
  | .ref inst name => (outNames inst).mapM (fun n => n.map (fun n => (Source.ref inst name, n)))
  | .join l r _ _ => do
    let a ← originElems l
    let b ← originElems r
    pure (a ++ b)
  | _ => none

/-- how an origin is addressed in the emitted SQL: the provisioned table name, or the reference name -/
def qual (srcs : Sources) : Source → Option String
  | .table n fields => srcs.lookup (.table n fields)
  | .ref _ name => some name
  | _ => none

/-! ### the translation as a plain recursive function -/

mutual
def compileF (srcs : Sources) : Feature → Option SqlExpr
  | .lit v => some (.lit v)
  | .elem o n => (qual srcs o).map (fun q => .col q n)
  | .alias f n => (compileF srcs f).map (fun e => .label e n)
  | .expr op args =>
    match exprOp op, compileFs srcs args with
    | some sop, some [a] => if sop = .raises then none else some (.un sop a)
    | some sop, some [a, b] => if sop = .raises then none else some (.bin sop a b)
    | _, _ => none
  | .cast _ _ => none
  | .window _ _ _ => none
def compileFs (srcs : Sources) : Features → Option (List SqlExpr)
  | .nil => some []
  | .cons f fs =>
    match compileF srcs f, compileFs srcs fs with
    | some e, some es => some (e :: es)
    | _, _ => none
end

def compileFO (srcs : Sources) : FeatureOpt → Option (Option SqlExpr)
  | .none => some none
  | .some f => (compileF srcs f).map some

def compileOrd (srcs : Sources) : Orderings → Option (List (SqlExpr × SortDir))
  | .nil => some []
  | .cons (.mk f d) os =>
    match compileF srcs f, orderOf d, compileOrd srcs os with
    | some e, some sd, some rest => some ((e, sd) :: rest)
    | _, _, _ => none

/-- default projection: every feature of the origin (`Query.features` with an empty selection) -/
def compileElems (srcs : Sources) (src : Source) : Option (List SqlExpr) := do
  let es ← originElems src
  es.mapM (fun e => (qual srcs e.1).map (fun q => SqlExpr.col q e.2))

/-- `generate_query`: LIMIT for every `Rows`, OFFSET only when non-zero -/
def rowsOpts : Option Rows → Option Int × Option Int
  | none => (none, none)
  | some (c, o) => (some c, if o = 0 then none else some o)

def compile (srcs : Sources) : Source → Option SqlSel
  | .table n fields => (srcs.lookup (.table n fields)).map .table
  | .ref inst name => (compile srcs inst).map (fun i => .alias i name)
  | .join l r k c => do
    let L ← compile srcs l
    let R ← compile srcs r
    let on ← match c with
      | .none => some (SqlExpr.lit (.bool true))
      | .some f => compileF srcs f
    let o ← joinOpt k
    pure (if o.2.2 then .join R L on o.1 o.2.1 else .join L R on o.1 o.2.1)
  | .set l r k => do
    let L ← compile srcs l
    let R ← compile srcs r
    let op ← setOpOf k
    pure (.compound op L R)
  | .query src sel pre grp post ord rows => do
    let frm ← compile srcs src
    let items ← if sel.isEmpty then compileElems srcs src else compileFs srcs sel
    if items.isEmpty then none else
    let whr ← compileFO srcs pre
    let g ← compileFs srcs grp
    let hav ← compileFO srcs post
    let o ← compileOrd srcs ord
    pure (.select items frm whr g hav o (rowsOpts rows).1 (rowsOpts rows).2)

/-! ### the parser as a stack machine -/

/-- what lies on `Context.symbols` -/
inductive Sym where
  | src (s : SqlSel)
  | feat (e : SqlExpr)
  deriving DecidableEq, Repr, Inhabited

/-- `Container.Context`: parsed symbols (top first) and the origins visited in this context with their handle -/
structure Ctx where
  symbols : List Sym := []
  origins : List (Source × String) := []
  deriving Repr, Inhabited

/-- `Container`: the current context (`None` outside `with`) and the stack of suspended ones -/
structure PState where
  ctx : Option Ctx := none
  stack : List (Option Ctx) := []
  deriving Repr, Inhabited

/-- what the Python raises -/
inductive PErr where
  | invalidContext      -- RuntimeError('Invalid context')
  | emptyContext        -- RuntimeError('Empty context')
  | contextNotFetched   -- RuntimeError('Context not fetched')
  | prematureFetch      -- RuntimeError('Premature fetch')
  | unprovisioned       -- dsl.UnprovisionedError
  | unsupported         -- dsl.UnsupportedError (no EXPRESSION entry) / RuntimeError (window)
  | keyError            -- KeyError: origin not visited in this context
  | raises              -- the EXPRESSION entry itself raises on SQL operands (TypeError)
  | typeError           -- wrong number of operands / a symbol of the wrong sort on the stack
  | noFeatures          -- AssertionError('Expecting features')
  | notModelled         -- Cast, default projection of a non-origin
  deriving DecidableEq, Repr, Inhabited

def PErr.wire : PErr → String
  | .invalidContext => "invalid-context" | .emptyContext => "empty-context"
  | .contextNotFetched => "context-not-fetched" | .prematureFetch => "premature-fetch"
  | .unprovisioned => "unprovisioned" | .unsupported => "unsupported" | .keyError => "key-error"
  | .raises => "raises" | .typeError => "type-error" | .noFeatures => "no-features" | .notModelled => "not-modelled"

/-- `Symbols.push` on `self.context` -/
def push (sym : Sym) (st : PState) : Except PErr PState :=
  match st.ctx with
  | none => .error .invalidContext
  | some c => .ok { st with ctx := some { c with symbols := sym :: c.symbols } }

/-- `Symbols.pop` on `self.context` -/
def pop (st : PState) : Except PErr (Sym × PState) :=
  match st.ctx with
  | none => .error .invalidContext
  | some c =>
    match c.symbols with
    | [] => .error .emptyContext
    | x :: xs => .ok (x, { st with ctx := some { c with symbols := xs } })

def popFeat (st : PState) : Except PErr (SqlExpr × PState) := do
  let (x, st) ← pop st
  match x with
  | .feat e => pure (e, st)
  | .src _ => .error .typeError

def popSrc (st : PState) : Except PErr (SqlSel × PState) := do
  let (x, st) ← pop st
  match x with
  | .src s => pure (s, st)
  | .feat _ => .error .typeError

/-- `[pop() for c in reversed(feature)]` reversed again: `n` operands in their original order -/
def popFeats : Nat → PState → Except PErr (List SqlExpr × PState)
  | 0, st => pure ([], st)
  | n + 1, st => do
    let (e, st) ← popFeat st
    let (es, st) ← popFeats n st
    pure (es ++ [e], st)

/-- `self.context.origins[source] = handle` -/
def setOrigin (o : Source) (h : String) (st : PState) : Except PErr PState :=
  match st.ctx with
  | none => .error .invalidContext
  | some c => .ok { st with ctx := some { c with origins := (o, h) :: c.origins } }

/-- `self.context.origins[feature.origin]` -/
def getOrigin (o : Source) (st : PState) : Except PErr String :=
  match st.ctx with
  | none => .error .invalidContext
  | some c =>
    match c.origins.lookup o with
    | none => .error .keyError
    | some h => .ok h

/-- `Container.__enter__` -/
def enter (st : PState) : PState := { ctx := some {}, stack := st.ctx :: st.stack }

/-- `Container.__exit__` (no exception in flight) -/
def exit (st : PState) : Except PErr PState :=
  match st.ctx with
  | some c =>
    if c.symbols.isEmpty then
      match st.stack with
      | [] => .error .emptyContext
      | top :: rest => .ok { ctx := top, stack := rest }
    else .error .contextNotFetched
  | none =>
    match st.stack with
    | [] => .error .emptyContext
    | top :: rest => .ok { ctx := top, stack := rest }

/-- `generate_expression` + the arity of the `EXPRESSION` entry -/
def genExpression (op : Op) (args : List SqlExpr) : Except PErr SqlExpr :=
  match exprOp op with
  | none => .error .unsupported
  | some sop =>
    if sop = .raises then .error .raises else
    match args with
    | [a] => .ok (.un sop a)
    | [a, b] => .ok (.bin sop a b)
    | _ => .error .typeError

def featuresLength : Features → Nat
  | .nil => 0
  | .cons _ fs => featuresLength fs + 1

mutual
/-- `feature.accept(visitor)`: `visit_literal / visit_element / visit_aliased / visit_expression / visit_window` -/
def visitF : Feature → PState → Except PErr PState
  | .lit v, st => push (.feat (.lit v)) st
  | .elem o n, st => do
    let h ← getOrigin o st
    push (.feat (.col h n)) st
  | .alias f n, st => do
    let st ← visitF f st
    let (e, st) ← popFeat st
    push (.feat (.label e n)) st
  | .expr op args, st => do
    let st ← visitFs args st
    let (es, st) ← popFeats (featuresLength args) st
    let e ← genExpression op es
    push (.feat e) st
  | .cast _ _, _ => .error .notModelled
  | .window _ _ _, _ => .error .unsupported
/-- `for term in feature: term.accept(self)` -/
def visitFs : Features → PState → Except PErr PState
  | .nil, st => .ok st
  | .cons f fs, st => do
    let st ← visitF f st
    visitFs fs st
end

/-- `Visitor.generate_feature`: `feature.accept(self); return self.context.symbols.pop()` -/
def genFeature (f : Feature) (st : PState) : Except PErr (SqlExpr × PState) := do
  let st ← visitF f st
  popFeat st

def genFeatures : Features → PState → Except PErr (List SqlExpr × PState)
  | .nil, st => pure ([], st)
  | .cons f fs, st => do
    let (e, st) ← genFeature f st
    let (es, st) ← genFeatures fs st
    pure (e :: es, st)

def genFeatureOpt : FeatureOpt → PState → Except PErr (Option SqlExpr × PState)
  | .none, st => pure (none, st)
  | .some f, st => do
    let (e, st) ← genFeature f st
    pure (some e, st)

def genOrderings : Orderings → PState → Except PErr (List (SqlExpr × SortDir) × PState)
  | .nil, st => pure ([], st)
  | .cons (.mk f d) os, st => do
    let (e, st) ← genFeature f st
    match orderOf d with
    | none => .error .keyError
    | some sd =>
      let (rest, st) ← genOrderings os st
      pure ((e, sd) :: rest, st)

/-- `generate_feature` over the default projection (elements of the origin's features) -/
def genElems : List (Source × String) → PState → Except PErr (List SqlExpr × PState)
  | [], st => pure ([], st)
  | (o, n) :: rest, st => do
    let h ← getOrigin o st
    let (es, st) ← genElems rest st
    pure (.col h n :: es, st)

/-- `bypass(resolve_source)`: after the visit, an explicitly mapped subject replaces the generated symbol -/
def bypass (srcs : Sources) (subject : Source) (st : PState) : Except PErr PState :=
  match srcs.lookup subject with
  | none => .ok st
  | some pn => do
    let (_, st) ← pop st
    push (.src (.table pn)) st

/-- `source.accept(visitor)`: `visit_table / visit_reference / visit_join / visit_set / visit_query` -/
def visitSource (srcs : Sources) : Source → PState → Except PErr PState
  | .table n fields, st =>
    match srcs.lookup (.table n fields) with
    | none => .error .unprovisioned
    | some pn => do
      let st ← setOrigin (.table n fields) pn st
      push (.src (.table pn)) st
  | .ref inst name, st => do
    let st ← visitSource srcs inst st
    let (i, st) ← popSrc st
    let st ← setOrigin (.ref inst name) name st
    push (.src (.alias i name)) st
  | .join l r k c, st => do
    let st ← visitSource srcs l st
    let st ← visitSource srcs r st
    let (R, st) ← popSrc st
    let (L, st) ← popSrc st
    let (on, st) ← match c with
      | .none => pure (SqlExpr.lit (.bool true), st)
      | .some f => genFeature f st
    match joinOpt k with
    | none => .error .keyError
    | some o =>
      let st ← push (.src (if o.2.2 then .join R L on o.1 o.2.1 else .join L R on o.1 o.2.1)) st
      bypass srcs (.join l r k c) st
  | .set l r k, st => do
    let st ← visitSource srcs l st
    let st ← visitSource srcs r st
    let (R, st) ← popSrc st
    let (L, st) ← popSrc st
    match setOpOf k with
    | none => .error .keyError
    | some op =>
      let st ← push (.src (.compound op L R)) st
      bypass srcs (.set l r k) st
  | .query src sel pre grp post ord rows, st => do
    let st := enter st
    let st ← visitSource srcs src st
    let (items, st) ←
      if sel.isEmpty then
        match originElems src with
        | none => .error .notModelled
        | some es => genElems es st
      else genFeatures sel st
    if items.isEmpty then .error .noFeatures else
    let (whr, st) ← genFeatureOpt pre st
    let (g, st) ← genFeatures grp st
    let (hav, st) ← genFeatureOpt post st
    let (o, st) ← genOrderings ord st
    let (frm, st) ← popSrc st
    let st ← exit st
    let st ← push (.src (.select items frm whr g hav o (rowsOpts rows).1 (rowsOpts rows).2)) st
    bypass srcs (.query src sel pre grp post ord rows) st

/-- `Reader._parse_statement`: `with parser as visitor: statement.accept(visitor); return visitor.fetch()` -/
def parse (srcs : Sources) (s : Source) : Except PErr SqlSel := do
  let st := enter {}
  let st ← visitSource srcs s st
  -- fetch: pop, refuse a dirty context, kill the context
  let (sym, st) ← pop st
  match st.ctx with
  | none => .error .invalidContext
  | some c =>
    if !c.symbols.isEmpty then .error .prematureFetch else
    let st := { st with ctx := none }
    let st ← exit st
    match sym, st.ctx, st.stack with
    | .src q, none, [] => .ok q
    | _, _, _ => .error .typeError

/-! ### meaning of the abstract SQL -/

def litVal : Lit → Option Val
  | .int n => some (.int n)
  | .bool b => some (.bool b)
  | .str s => some (.str s)
  | .float _ => none

/-- qualified column labels of a FROM item (`none`: an output column without a name) -/
abbrev Cols := List (Option (String × String))

def evalS (cols : Cols) : SqlExpr → Ev
  | .lit v, _, _ => litVal v
  | .col q n, _, row => (idxOf? (some (q, n)) cols).bind (fun i => row[i]?)
  | .label e _, g, row => evalS cols e g row
  | .un op a, g, row =>
    if op.isAgg then (g.mapM (fun r => evalS cols a [r] r)).bind (sqlAgg op)
    else (evalS cols a g row).bind (fun v => sqlScalar op [v])
  | .bin op a b, g, row =>
    (evalS cols a g row).bind (fun x => (evalS cols b g row).bind (fun y => sqlScalar op [x, y]))

def SqlExpr.hasAgg : SqlExpr → Bool
  | .lit _ => false
  | .col _ _ => false
  | .label e _ => e.hasAgg
  | .un op a => op.isAgg || a.hasAgg
  | .bin _ a b => a.hasAgg || b.hasAgg

/-- name of an output column: the label, or the column name -/
def SqlExpr.outName : SqlExpr → Option String
  | .label _ n => some n
  | .col _ n => some n
  | _ => none

/-- relation produced by a FROM item -/
structure SRel where
  cols : Cols
  rows : List Row
  deriving Repr

/-- relation produced by a SELECT / compound: output column names and rows -/
structure ORel where
  names : List (Option String)
  rows : List Row
  deriving Repr, DecidableEq

def sqlClauses (cols : Cols) (items : List SqlExpr) (whr : Option SqlExpr) (grp : List SqlExpr) (hav : Option SqlExpr)
    (ord : List (SqlExpr × SortDir)) (lim off : Option Int) : Clauses :=
  { agg := !grp.isEmpty || items.any (·.hasAgg) || (hav.map (·.hasAgg)).getD false || ord.any (·.1.hasAgg)
    sel := items.map (evalS cols)
    whr := whr.map (evalS cols)
    grp := grp.map (evalS cols)
    hav := hav.map (evalS cols)
    ord := ord.map (fun e => (evalS cols e.1, e.2))
    off := off
    lim := lim }

mutual
/-- FROM item -/
def evalFrom : SqlSel → Db → Option SRel
  | .table n, db => (db.lookup n).map (fun t => ⟨t.cols.map (fun c => some (n, c)), t.rows⟩)
  | .alias inner name, db =>
    match inner with
    | .table n => (db.lookup n).map (fun t => ⟨t.cols.map (fun c => some (name, c)), t.rows⟩)
    | _ => (evalOut inner db).map (fun o => ⟨o.names.map (fun n => n.map (fun n => (name, n))), o.rows⟩)
  | .join l r on full isouter, db =>
    match evalFrom l db, evalFrom r db with
    | some L, some R =>
      (joinRows L.rows R.rows L.cols.length R.cols.length (evalS (L.cols ++ R.cols) on []) (full || isouter) full).map
        (fun rows => ⟨L.cols ++ R.cols, rows⟩)
    | _, _ => none
  | _, _ => none
/-- SELECT / compound -/
def evalOut : SqlSel → Db → Option ORel
  | .select items frm whr grp hav ord lim off, db =>
    match evalFrom frm db with
    | some F =>
      (runQuery (sqlClauses F.cols items whr grp hav ord lim off) F.cols.length F.rows).map
        (fun rows => ⟨items.map (·.outName), rows⟩)
    | none => none
  | .compound op l r, db =>
    match evalOut l db, evalOut r db with
    | some L, some R => if L.names.length = R.names.length then some ⟨L.names, setRows op L.rows R.rows⟩ else none
    | _, _ => none
  | _, _ => none
end

/-- rows the database returns for the parser's output -/
def evalSql (q : SqlSel) (db : Db) : Option ORel := evalOut q db

end ForML.Parser
