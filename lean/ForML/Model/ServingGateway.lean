/-
C16 — the REST gateway in front of the engine.  Core Lean only.

Anchor: `forml/provider/gateway/rest.py` `Apply.__endpoint` — `POST /<application>`: the path parameter is the
application, `content-type` the request encoding (`layout.Encoding.parse(...)[0]`), `accept` the list of acceptable
response encodings, the body the payload: `layout.Request(payload, encoding, params, accept)` is handed to
`Engine.apply` unchanged.  The answer of the engine is mapped one to one onto an HTTP response: a `layout.Response` gives
200 with the payload, its encoding as media type and the serving instance in `x-forml-instance`;
`layout.Encoding.Unsupported` → 415, `forml.MissingError` → 404, `forml.InvalidError` → 400, `forml.FailedError` → 500
(anything else propagates to the server's 500).  Nothing is kept between two requests.
-/
import ForML.Model.Serving
namespace ForML.Serving

/-- the HTTP status of an `Engine.apply` outcome -/
def httpStatus : Outcome → Nat
  | .value _ _ | .mixed _ _ => 200
  | .error .unsupported => 415
  | .error .missingApp | .error .missingFeatures => 404
  | .error (.invalid _ _) => 400
  | .error .fatal | .error .notRunning | .error .brokenPool => 500

structure HttpResponse where
  status : Nat
  /-- `x-forml-instance` (successful responses only) -/
  served : Option Nat
  /-- payload of a 200, detail of an error -/
  body : Outcome
  deriving DecidableEq, Repr

/-- `Apply.__endpoint` around `Engine.apply` -/
def gateway (o : Outcome) : HttpResponse :=
  ⟨httpStatus o, match o with | .value i _ => some i | .mixed i _ => some i | .error _ => none, o⟩

end ForML.Serving
