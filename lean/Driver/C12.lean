/- Line-protocol driver for the C12 model (ForML.Model.CrossVal).

  (denote <pipe>)                 ⟦pipe⟧ on (input 0) (input 1) (input 2): (ok <apply> <train> <label>)
  (perftrack <pipe> metric reducer)   ⟦pipe >> PerfTrackScore⟧ on the tracked data (input 0) (input 3) (input 4), the
                                  states being those trained on (input 1) (input 2): (ok <apply> <train> <label>)
  (rows <env> <val>)              provenance value of a term: (ok ((col rid ((col rid) ...)) ...)), deps sorted
  (init crossval <cv> <builder> <nsplits>) | (init holdout <sized> <cv> <builder>)
  | (init ensembler <nbases> <cv> <builder> <nsplits>)         constructor argument checks
  (cvfold <indices|none> (<rid> ...))                          CVFoldable.apply on rows with these record ids

  actor ::= (tag stateful)        slot ::= none | actor
  pipe  ::= (wrap slot slot slot) | (mapreduce (actor ...) tag) | (stack (pipe ...) n splitter appender stacker reducer)
          | (score n splitter metric reducer) | (seq pipe pipe)
  val   ::= none | (input n) | (apply tag val (val ...)) | (state tag val val val) | (part tag val k val)
          | (concat tag (val ...))
  env   ::= (ntrain napply ((tag nsplits decision volatile) ...) [ntracked])     (input 3/4: ntracked records); the graph-level terms: every splitter trained once = call 0
  decision ::= (kfold r) | (table (((p ...) (p ...)) ...))       indices ::= (((p ...) (p ...)) ...)
  (actor <pickled|raw> ((nsplits decision volatile) ...) (op ...))     operation sequence on splitter actors; cross-validator
                                                                       i = the i-th spec; answers (ok (out ...))
  (mean d (k ...))                evaluation._metric.mean on the values k/d: (ok num den) | (error StatisticsError)
  (reduce d ((k ...) ...))        ensemble.pandas_mean on one-column fold predictions of values k/d:
                                  (ok ((num den) ...)) | (error ValueError)
  op  ::= (new a cv) | (train a (rid ...)) | (getstate s a) | (setstate a s) | (preset a s) | (setparams a cv)
        | (getparams a) | (apply a col (rid ...))
  out ::= unit | (params cv) | (parts ((rid ...) ...)) | (error e) | badref
-/
import ForML.Model.Sexp
import ForML.Model.CrossVal
import ForML.Model.CrossValActor
import ForML.Model.CrossValReduce
open ForML ForML.CrossVal

def bool? : Sexp → Option Bool
  | .atom "true" => some true
  | .atom "false" => some false
  | _ => none

def optNat? : Sexp → Option (Option Nat)
  | .atom "none" => some none
  | x => x.nat?.map some

def actor? : Sexp → Option Actor
  | .list [t, s] => do pure ⟨← t.nat?, ← bool? s⟩
  | _ => none

def slot? : Sexp → Option (Option Actor)
  | .atom "none" => some none
  | x => (actor? x).map some

partial def pipe? : Sexp → Option Pipe
  | .list [.atom "wrap", l, a, t] => do pure (.wrap (← slot? l) (← slot? a) (← slot? t))
  | .list [.atom "mapreduce", .list ms, r] => do pure (.mapreduce (← ms.mapM actor?) (← r.nat?))
  | .list [.atom "stack", .list bs, n, s, a, k, r] => do
    pure (.stack (← bs.mapM pipe?) (← n.nat?) (← s.nat?) (← a.nat?) (← k.nat?) (← r.nat?))
  | .list [.atom "score", n, s, m, r] => do pure (.score (← n.nat?) (← s.nat?) (← m.nat?) (← r.nat?))
  | .list [.atom "seq", l, r] => do pure (.seq (← pipe? l) (← pipe? r))
  | _ => none

partial def val? : Sexp → Option Val
  | .atom "none" => some .none
  | .list [.atom "input", n] => do pure (.input (← n.nat?))
  | .list [.atom "apply", t, st, .list args] => do pure (.apply (← t.nat?) (← val? st) (← args.mapM val?))
  | .list [.atom "state", t, p, x, y] => do pure (.state (← t.nat?) (← val? p) (← val? x) (← val? y))
  | .list [.atom "part", t, st, k, x] => do pure (.part (← t.nat?) (← val? st) (← k.nat?) (← val? x))
  | .list [.atom "concat", t, .list args] => do pure (.concat (← t.nat?) (← args.mapM val?))
  | _ => none

partial def valSexp : Val → Sexp
  | .none => .atom "none"
  | .input n => .list [.atom "input", Sexp.ofNat n]
  | .apply t st args => .list [.atom "apply", Sexp.ofNat t, valSexp st, .list (args.map valSexp)]
  | .state t p x y => .list [.atom "state", Sexp.ofNat t, valSexp p, valSexp x, valSexp y]
  | .part t st k x => .list [.atom "part", Sexp.ofNat t, valSexp st, Sexp.ofNat k, valSexp x]
  | .concat t args => .list [.atom "concat", Sexp.ofNat t, .list (args.map valSexp)]

def pair? : Sexp → Option (List Nat × List Nat)
  | .list [a, b] => do pure (← a.natList?, ← b.natList?)
  | _ => none

def indices? : Sexp → Option Indices
  | .list xs => xs.mapM pair?
  | _ => none

def decision? : Sexp → Option Decision
  | .list [.atom "kfold", r] => do pure (.kfold (← r.nat?))
  | .list [.atom "table", sel] => do pure (.table (← indices? sel))
  | _ => none

def splitterSpec? : Sexp → Option (Nat × CvSpec)
  | .list [t, c, d, v] => do pure (← t.nat?, ⟨← c.nat?, ← decision? d, ← bool? v⟩)
  | _ => none

def cvSpec? : Sexp → Option CvSpec
  | .list [c, d, v] => do pure ⟨← c.nat?, ← decision? d, ← bool? v⟩
  | _ => none

def transfer? : Sexp → Option Transfer
  | .atom "pickled" => some .pickled
  | .atom "raw" => some .raw
  | _ => none

def op? : Sexp → Option Op
  | .list [.atom "new", a, cv] => do pure (.new (← a.nat?) (← cv.nat?))
  | .list [.atom "train", a, rids] => do pure (.train (← a.nat?) (← rids.natList?))
  | .list [.atom "getstate", s, a] => do pure (.getState (← s.nat?) (← a.nat?))
  | .list [.atom "setstate", a, s] => do pure (.setState (← a.nat?) (← s.nat?))
  | .list [.atom "preset", a, s] => do pure (.preset (← a.nat?) (← s.nat?))
  | .list [.atom "setparams", a, cv] => do pure (.setParams (← a.nat?) (← cv.nat?))
  | .list [.atom "getparams", a] => do pure (.getParams (← a.nat?))
  | .list [.atom "apply", a, col, rids] => do pure (.apply (← a.nat?) (← col.nat?) (← rids.natList?))
  | _ => none

def sourceRows (col n : Nat) : Data := (List.range n).map fun r => ⟨⟨col, r⟩, []⟩

def mkEnv (n m k : Nat) (specs : List (Nat × CvSpec)) : Env :=
  { inp := fun c => if c = 0 then sourceRows 0 m else if c = 1 then sourceRows 1 n else if c = 2 then sourceRows 2 n
             else if c = 3 then sourceRows 3 k else if c = 4 then sourceRows 4 k else []
    dec := fun tag x _ => match specs.find? (fun s => s.1 == tag) with
      | some (_, spec) => spec.split 0 x.length
      | none => [] }

def env? : Sexp → Option Env
  | .list [n, m, .list specs] => do pure (mkEnv (← n.nat?) (← m.nat?) 0 (← specs.mapM splitterSpec?))
  | .list [n, m, .list specs, k] => do pure (mkEnv (← n.nat?) (← m.nat?) (← k.nat?) (← specs.mapM splitterSpec?))
  | _ => none

def atomLt (a b : Atom) : Bool := a.col < b.col || (a.col == b.col && a.rid < b.rid)

/-- insertion sort (lists are short and duplicate-free) -/
def sortAtoms (xs : List Atom) : List Atom :=
  xs.foldl (fun acc x => (acc.takeWhile (fun y => atomLt y x)) ++ [x] ++ (acc.dropWhile (fun y => atomLt y x))) []

def atomSexp (a : Atom) : Sexp := Sexp.ofNats [a.col, a.rid]

def rowSexp (r : Row) : Sexp :=
  .list [Sexp.ofNat r.key.col, Sexp.ofNat r.key.rid, .list ((sortAtoms r.deps.eraseDups).map atomSexp)]

def errSexp : Err → Sexp
  | .notTrained => .atom "notTrained"
  | .typeError => .atom "TypeError"
  | .valueError => .atom "ValueError"

def outSexp : Out → Sexp
  | .unit => .atom "unit"
  | .params cv => .list [.atom "params", Sexp.ofNat cv]
  | .parts ps => .list [.atom "parts", .list (ps.map Sexp.ofNats)]
  | .error e => .list [.atom "error", errSexp e]
  | .badRef => .atom "badref"

def fracSexp (q : Frac) : Sexp := .list [Sexp.ofInt q.num, Sexp.ofNat q.den]

def stepC12 : Sexp → Sexp
  | .list [.atom "mean", d, ks] =>
    match d.nat?, ks.intList? with
    | some d, some ks =>
      match meanReducer d ks with
      | some q => .list [.atom "ok", Sexp.ofInt q.num, Sexp.ofNat q.den]
      | none => .list [.atom "error", .atom "StatisticsError"]
    | _, _ => .atom "bad-op"
  | .list [.atom "reduce", d, .list folds] =>
    match d.nat?, folds.mapM Sexp.intList? with
    | some d, some folds =>
      match stackReduce d folds with
      | .ok out => .list [.atom "ok", .list (out.map fracSexp)]
      | .error e => .list [.atom "error", errSexp e]
    | _, _ => .atom "bad-op"
  | .list [.atom "actor", t, .list specs, .list ops] =>
    match transfer? t, specs.mapM cvSpec?, ops.mapM op? with
    | some t, some specs, some ops => .list [.atom "ok", .list ((Machine.init.run (specSplits specs) t ops).map outSexp)]
    | _, _, _ => .atom "bad-op"
  | .list [.atom "denote", p] =>
    match pipe? p with
    | some p =>
      let s := denote p (.input 0) (.input 1) (.input 2)
      .list [.atom "ok", valSexp s.apply, valSexp s.train, valSexp s.label]
    | none => .atom "bad-op"
  | .list [.atom "perftrack", p, metric, reducer] =>
    match pipe? p, metric.nat?, reducer.nat? with
    | some p, some metric, some reducer =>
      let s := perfTrackScore metric reducer (.input 1, .input 2) (denote p) (.input 0) (.input 3) (.input 4)
      .list [.atom "ok", valSexp s.apply, valSexp s.train, valSexp s.label]
    | _, _, _ => .atom "bad-op"
  | .list [.atom "rows", e, v] =>
    match env? e, val? v with
    | some E, some v => .list [.atom "ok", .list ((rows E v).map rowSexp)]
    | _, _ => .atom "bad-op"
  | .list [.atom "init", .atom "crossval", cv, b, ns] =>
    match optNat? cv, bool? b, optNat? ns with
    | some cv, some b, some ns =>
      match crossValInit cv b ns with
      | .ok n => .list [.atom "ok", Sexp.ofNat n]
      | .error e => .list [.atom "error", errSexp e]
    | _, _, _ => .atom "bad-op"
  | .list [.atom "init", .atom "holdout", sized, cv, b] =>
    match bool? sized, optNat? cv, bool? b with
    | some sized, some cv, some b =>
      match holdOutInit sized cv b with
      | .ok (w, c) => .list [.atom "ok", Sexp.ofNat w, Sexp.ofNat c]
      | .error e => .list [.atom "error", errSexp e]
    | _, _, _ => .atom "bad-op"
  | .list [.atom "init", .atom "ensembler", m, cv, b, ns] =>
    match m.nat?, optNat? cv, bool? b, optNat? ns with
    | some m, some cv, some b, some ns =>
      match ensemblerInit m cv b ns with
      | .ok n => .list [.atom "ok", Sexp.ofNat n]
      | .error e => .list [.atom "error", errSexp e]
    | _, _, _, _ => .atom "bad-op"
  | .list [.atom "cvfold", idx, ids] =>
    let idx? : Option (Option Indices) := match idx with
      | .atom "none" => some none
      | x => (indices? x).map some
    match idx?, ids.natList? with
    | some idx, some ids =>
      match cvApply idx (ids.map fun r => ⟨⟨1, r⟩, []⟩) with
      | .ok parts => .list [.atom "ok", .list (parts.map fun d => Sexp.ofNats d.rids)]
      | .error e => .list [.atom "error", errSexp e]
    | _, _ => .atom "bad-op"
  | _ => .atom "bad-op"

def main : IO Unit := driverLoop stepC12
