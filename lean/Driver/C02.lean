/-
Line-protocol driver for the C02 models (dask job linking + evaluation, pyfunc expression, reference
interpreter).

  table, assets, key, val: see ForML/Model/SymbolsSexp.lean
  ops:
    (all assets table x head ((key rank)*))
        -> (all <run> <dask> <pyfunc> <pyfunc2> <valuein> <wf> <applymode>)
    run      ::= ((key val)*)                       values of the sinks by the reference interpreter `run`
    dask     ::= (ok ((key val)*) once) | (error duplicated|notAcyclic|recursion)
                                                    values of the outputs of the linked job; once = every task of
                                                    the graph ran exactly once and the graph has one task per symbol
    pyfunc   ::= (ok val) | (error <PfErr>)         Expression(table)(x)
    pyfunc2  ::= (ok val val) | (error <PfErr>)     two consecutive calls of one Expression object: x, then (input 1)
    valuein  ::= ((key val)*) | none                sinks of the table whose head `head` receives `x` (head = none: skipped)
    wf       ::= true | false                       Table.ranked
    applymode::= true | false                       Table.applyMode (domain of the single-function runner)
-/
import ForML.Model.Sexp
import ForML.Model.SymbolsSexp
import ForML.Model.TableWF
import ForML.Model.Dask
import ForML.Model.PyFunc
open ForML ForML.Flow ForML.Flow.PyFunc

def rankOf? : Sexp → Option (Key → Nat)
  | .list ps => do
    let tbl ← ps.mapM (fun p => match p with
      | .list [k, r] => do pure ((← Key.ofSexp? k), (← r.nat?))
      | _ => none)
    pure (fun k => ((tbl.find? (fun p => p.1 = k)).map (·.2)).getD 0)
  | _ => none

def pfErrName : PfErr → String
  | .assertion => "assertion" | .keyError => "keyError" | .indexError => "indexError" | .typeError => "typeError"
  | .valueError => "valueError" | .unexpected => "unexpected" | .noAssets => "noAssets" | .recursion => "recursion"
  | .unsupported => "unsupported"

def daskErrName : DaskErr → String
  | .duplicated => "duplicated" | .notAcyclic => "notAcyclic" | .recursion => "recursion"

def kvs (m : Memo) (ks : List Key) : Sexp :=
  .list (ks.map fun k => .list [k.toSexp, match m.get k with | some v => v.toSexp | none => .atom "missing"])

def runOut (A : Option Assets) (t : Table) : Sexp := kvs (run A t) t.sinks

def daskOut (A : Option Assets) (t : Table) : Sexp :=
  match mkjob t with
  | .error e => .list [.atom "error", .atom (daskErrName e)]
  | .ok job =>
    let m := evalDask A job
    let once := m.trace.length == job.graph.length && !hasDup m.trace && job.graph.length == t.length
    .list [.atom "ok", kvs m job.outputs, Sexp.ofBool once]

def pyfuncOut (A : Option Assets) (t : Table) (x : Val) : Sexp :=
  match evalExpr A t x with
  | .ok v => .list [.atom "ok", v.toSexp]
  | .error e => .list [.atom "error", .atom (pfErrName e)]

def pyfunc2Out (A : Option Assets) (t : Table) (x : Val) : Sexp :=
  match evalExprTwice A t x (.input 1) with
  | .ok (v, w) => .list [.atom "ok", v.toSexp, w.toSexp]
  | .error e => .list [.atom "error", .atom (pfErrName e)]

def valueInOut (A : Option Assets) (t : Table) (h : Key) (x : Val) : Sexp :=
  .list (t.sinks.map fun k => .list [k.toSexp, (valueIn A t h x t.fuel k).toSexp])

def stepC02 : Sexp → Sexp
  | .list [.atom "all", assets, tbl, x, h, rk] =>
    match Assets.ofSexp? assets, Table.ofSexp? tbl, Val.ofSexp? x, rankOf? rk with
    | some A, some t, some x, some r =>
      let vin := match h with
        | .atom "none" => some (.atom "none")
        | hk => (Key.ofSexp? hk).map fun h => valueInOut A t h x
      match vin with
      | none => .atom "bad-op"
      | some vin =>
        .list [.atom "all", runOut A t, daskOut A t, pyfuncOut A t x, pyfunc2Out A t x, vin, Sexp.ofBool (t.ranked r),
               Sexp.ofBool (t.applyMode A)]
    | _, _, _, _ => .atom "bad-op"
  | _ => .atom "bad-op"

def main : IO Unit := driverLoop stepC02
