/-
Line-protocol driver for the C02 models (dask job linking + evaluation, pyfunc expression, reference
interpreter, actor builders and the pickling of instructions).

  assets, key, val: see ForML/Model/SymbolsSexp.lean; ptable (functors carry their builder), class, hyper: see
  ForML/Model/BuilderSexp.lean
  ops:
    (all assets ptable x head ((key rank)*))
        -> (all <run> <dask> <pyfunc> <pyfunc2> <valuein> <wf> <applymode> <processes> <actors>)
         | (uninstantiable)                         some builder of the table cannot be instantiated (TypeError)
    run      ::= ((key val)*)                       values of the sinks by the reference interpreter `run`
    dask     ::= (ok ((key val)*) once) | (error duplicated|notAcyclic|recursion)
                                                    values of the outputs of the linked job; once = every task of
                                                    the graph ran exactly once and the graph has one task per symbol
    pyfunc   ::= (ok val) | (error <PfErr>)         Expression(table)(x)
    pyfunc2  ::= (ok val val) | (error <PfErr>)     two consecutive calls of one Expression object: x, then (input 1)
    valuein  ::= ((key val)*) | none                sinks of the table whose head `head` receives `x` (head = none: skipped)
    wf       ::= true | false                       Table.ranked
    applymode::= true | false                       Table.applyMode (domain of the single-function runner)
    processes::= (ok ((key val)*)) | (error pickling|instantiate|duplicated|notAcyclic|recursion)
                                                    `runDaskProcesses`: every instruction shipped through its pickle
    actors   ::= ((a sym ((name hyper)*))*)         the actor symbols standing for configured instances (with parameters)
    (spec class (hyper*) ((name hyper)*))
        -> (spec <new> <call> <roundtrip> <call after roundtrip>)
    new      ::= ok | typeError                     Spec.__new__ (bind_partial)
    call     ::= (ok ((name hyper)*)) | typeError   Builder.__call__(): the parameter assignment of the actor
    roundtrip::= same | (changed (hyper*) ((name hyper)*)) | typeError        pickle.loads(pickle.dumps(spec))
    (truthy val*) -> (true|false ...)               Python truthiness of payloads as the shared model has it
-/
import ForML.Model.Sexp
import ForML.Model.SymbolsSexp
import ForML.Model.TableWF
import ForML.Model.Dask
import ForML.Model.PyFunc
import ForML.Lemmas.C02PyOnce
import ForML.Model.Builder
import ForML.Model.BuilderSexp
open ForML ForML.Flow ForML.Flow.PyFunc

def rankOf? : Sexp → Option (Key → Nat)
  | .list ps => do
    let tbl ← ps.mapM (fun p => match p with
      | .list [k, r] => do pure ((← Key.ofSexp? k), (← r.nat?))
      | _ => none)
    pure (fun k => ((tbl.find? (fun p => p.1 = k)).map (·.2)).getD 0)
  | _ => none

def pfErrName : PfErr → String
  | .assertion => "assertion" | .keyError => "keyError" | .indexError => "indexError" | .typeError => "typeError"
  | .valueError => "valueError" | .unexpected => "unexpected" | .noAssets => "noAssets" | .recursion => "recursion"
  | .unsupported => "unsupported"

def daskErrName : DaskErr → String
  | .duplicated => "duplicated" | .notAcyclic => "notAcyclic" | .recursion => "recursion"

def kvs (m : Memo) (ks : List Key) : Sexp :=
  .list (ks.map fun k => .list [k.toSexp, match m.get k with | some v => v.toSexp | none => .atom "missing"])

def runOut (A : Option Assets) (t : Table) : Sexp := kvs (run A t) t.sinks

def daskOut (A : Option Assets) (t : Table) : Sexp :=
  match mkjob t with
  | .error e => .list [.atom "error", .atom (daskErrName e)]
  | .ok job =>
    let m := evalDask A job
    let once := m.trace.length == job.graph.length && !hasDup m.trace && job.graph.length == t.length
    .list [.atom "ok", kvs m job.outputs, Sexp.ofBool once]

def pyfuncOut (A : Option Assets) (t : Table) (x : Val) : Sexp :=
  match evalExpr A t x with
  | .ok v => .list [.atom "ok", v.toSexp]
  | .error e => .list [.atom "error", .atom (pfErrName e)]

def pyfunc2Out (A : Option Assets) (t : Table) (x : Val) : Sexp :=
  match evalExprTwice A t x (.input 1) with
  | .ok (v, w) => .list [.atom "ok", v.toSexp, w.toSexp]
  | .error e => .list [.atom "error", .atom (pfErrName e)]

/-- the instructions the single-function runner executes on the first request (`x`) and on the second (`input 1`),
in execution order (`Term.executed`, the instrumented evaluator of `Lemmas/C02PyOnce.lean`) -/
def pyExecOut (A : Option Assets) (t : Table) (x : Val) : Sexp :=
  match expression A t with
  | .ok term => .list [.atom "ok", .list ((term.executed x).map Key.toSexp),
                       .list ((term.executed (.input 1)).map Key.toSexp), Sexp.ofBool term.uniform]
  | .error _ => .atom "none"

def valueInOut (A : Option Assets) (t : Table) (h : Key) (x : Val) : Sexp :=
  .list (t.sinks.map fun k => .list [k.toSexp, (valueIn A t h x t.fuel k).toSexp])

/-- the configured instances of the table's builders (first occurrence order, no repetition) -/
def instancesOf (T : PTable) : List Instance :=
  T.filterMap fun s => match s.instr with | .functor b _ _ => b.call | _ => none

def knownInstances (T : PTable) : List Instance :=
  let all := instancesOf T ++ (match T.ship with | some T' => instancesOf T' | none => [])
  (all.foldl (fun acc i => if acc.contains i then acc else acc ++ [i]) []).filter (fun i => !i.params.isEmpty)

def procErrName : ProcErr → String
  | .pickling => "pickling" | .instantiate => "instantiate" | .dask e => daskErrName e

def processesOut (code : Instance → Actor) (A : Option Assets) (T : PTable) (sinks : List Key) : Sexp :=
  match runDaskProcesses code A T with
  | .ok m => .list [.atom "ok", kvs m sinks]
  | .error e => .list [.atom "error", .atom (procErrName e)]

def callOut (s : Spec) : Sexp :=
  match s.call with
  | some i => .list [.atom "ok", kwargsSexp i.params]
  | none => .atom "typeError"

def specOut (s : Spec) : Sexp :=
  match Spec.new s.cls s.args s.kwargs with
  | none => .list [.atom "spec", .atom "typeError", .atom "typeError", .atom "typeError", .atom "typeError"]
  | some s =>
    let (rt, after) := match s.roundtrip with
      | none => (Sexp.atom "typeError", Sexp.atom "typeError")
      | some s' =>
        (if s' = s then Sexp.atom "same"
         else .list [.atom "changed", .list (s'.args.map Hyper.toSexp), kwargsSexp s'.kwargs], callOut s')
    .list [.atom "spec", .atom "ok", callOut s, rt, after]

def stepC02 : Sexp → Sexp
  | .list [.atom "all", assets, tbl, x, h, rk] =>
    match Assets.ofSexp? assets, PTable.ofSexp? tbl, Val.ofSexp? x, rankOf? rk with
    | some A, some T, some x, some r =>
      let known := knownInstances T
      let code := internCode known
      match T.lower code with
      | none => .list [.atom "uninstantiable"]
      | some t =>
        let vin := match h with
          | .atom "none" => some (.atom "none")
          | hk => (Key.ofSexp? hk).map fun h => valueInOut A t h x
        match vin with
        | none => .atom "bad-op"
        | some vin =>
          .list [.atom "all", runOut A t, daskOut A t, pyfuncOut A t x, pyfunc2Out A t x, vin, Sexp.ofBool (t.ranked r),
                 Sexp.ofBool (t.applyMode A), processesOut code A T t.sinks,
                 .list (known.map fun i => .list [.ofNat (code i), .ofNat i.sym, kwargsSexp i.params]),
                 pyExecOut A t x]
    | _, _, _, _ => .atom "bad-op"
  | .list [.atom "spec", c, .list args, kw] =>
    match ActorClass.ofSexp? c, args.mapM Hyper.ofSexp?, kwargsOf? kw with
    | some c, some args, some kw => specOut ⟨c, args, kw⟩
    | _, _, _ => .atom "bad-op"
  | .list (.atom "truthy" :: vs) =>
    match vs.mapM Val.ofSexp? with
    | some vs => .list (vs.map fun v => Sexp.ofBool v.truthy)
    | none => .atom "bad-op"
  | _ => .atom "bad-op"

def main : IO Unit := driverLoop stepC02
