/- Line-protocol driver for the C05 model (ForML.Model.Fs, ForML.Model.Registry).

  request   (run <impl> (<step> ...) <crash>)
    impl    (impl <staged: true|false> <keyFirst: true|false>)
    step    (publish <dirProj> <name> <version> (file (<byte> ...)))
            (publish <dirProj> <name> <version> (dir ((<i> (<byte> ...)) ...)))
            (train <proj> <version> <ordinal> ((<sid> (<byte> ...)) ...))
    crash   none | (<step index> <completed atomic micro-ops of that step> none|<bytes of the next append>)
  answer    (ok (<outcome> ...) (<fact> ...) <wf>)  outcomes of the fully executed steps, view of the final tree,
            whether the final model tree is well formed (Fs.WF, the hypothesis of the publish theorem)
    outcome (ok (<call> ...)) | (err invalid|mismatch|os (<call> ...))      call = (<op> ...)
    fact    (rel p v <node>) (member p v i <node>) (gen p v g (ok ord (sid ...))|corrupt) (state p v g sid <node>|missing)
-/
import ForML.Model.Sexp
import ForML.Model.Fs
import ForML.Model.Registry
open ForML ForML.Fs ForML.Registry

def bytes? (x : Sexp) : Option Bytes := x.natList?

def member? : Sexp → Option (Nat × Bytes)
  | .list [i, b] => do pure (← i.nat?, ← bytes? b)
  | _ => none

def pkg? : Sexp → Option Pkg
  | .list [.atom "file", b] => (bytes? b).map Pkg.file
  | .list [.atom "dir", .list ms] => (ms.mapM member?).map Pkg.dir
  | _ => none

def step? : Sexp → Option Step
  | .list [.atom "publish", dp, n, v, pk] => do
    pure (.publish (← dp.nat?) (← n.nat?) (← v.nat?) (← pkg? pk))
  | .list [.atom "train", p, v, o, .list sts] => do
    pure (.train (← p.nat?) (← v.nat?) (← o.nat?) (← sts.mapM member?))
  | _ => none

def bool? : Sexp → Option Bool
  | .atom "true" => some true
  | .atom "false" => some false
  | _ => none

def impl? : Sexp → Option Impl
  | .list [.atom "impl", s, k] => do pure ⟨← bool? s, ← bool? k⟩
  | _ => none

def crash? : Sexp → Option (Option (Nat × Nat × Option Nat))
  | .atom "none" => some none
  | .list [i, k, .atom "none"] => do pure (some (← i.nat?, ← k.nat?, none))
  | .list [i, k, c] => do pure (some (← i.nat?, ← k.nat?, some (← c.nat?)))
  | _ => none

def segS : Seg → Sexp
  | .proj n => .list [.atom "proj", Sexp.ofNat n]
  | .rel v => .list [.atom "rel", Sexp.ofNat v]
  | .gen g => .list [.atom "gen", Sexp.ofNat g]
  | .stage => .atom "stage"
  | .pkg => .atom "pkg"
  | .pkgTmp => .atom "pkgtmp"
  | .tag => .atom "tag"
  | .tagTmp => .atom "tagtmp"
  | .state s => .list [.atom "state", Sexp.ofNat s]
  | .member i => .list [.atom "member", Sexp.ofNat i]

def pathS (p : Path) : Sexp := .list (p.map segS)

def opS : Op → Sexp
  | .mkdir p => .list [.atom "mkdir", pathS p]
  | .createEmpty p => .list [.atom "create", pathS p]
  | .append p b => .list [.atom "append", pathS p, Sexp.ofNats b]
  | .rename p q => .list [.atom "rename", pathS p, pathS q]
  | .copyFile p b => .list [.atom "copy", pathS p, Sexp.ofNats b]

def errS : Err → Sexp
  | .invalid => .atom "invalid"
  | .mismatch => .atom "mismatch"
  | .os => .atom "os"

def outcomeS (o : Outcome) : Sexp :=
  let calls := Sexp.list (o.calls.map (fun c => .list (c.map opS)))
  match o.err with
  | none => .list [.atom "ok", calls]
  | some e => .list [.atom "err", errS e, calls]

def nodeS : Option Node → Sexp
  | none => .atom "missing"
  | some .dir => .atom "dir"
  | some (.file b) => .list [.atom "file", Sexp.ofNats b]

def factsOf (fs : Fs) : List Sexp :=
  (reader fs).flatMap (fun e => match e.1 with
    | [.proj p, .rel v, .pkg] => [.list [.atom "rel", Sexp.ofNat p, Sexp.ofNat v, nodeS (some e.2)]]
    | [.proj p, .rel v, .pkg, .member i] =>
      [.list [.atom "member", Sexp.ofNat p, Sexp.ofNat v, Sexp.ofNat i, nodeS (some e.2)]]
    | [.proj p, .rel v, .gen g, .tag] =>
      match tagOf fs p v g with
      | none => [.list [.atom "gen", Sexp.ofNat p, Sexp.ofNat v, Sexp.ofNat g, .atom "corrupt"]]
      | some t =>
        .list [.atom "gen", Sexp.ofNat p, Sexp.ofNat v, Sexp.ofNat g,
               .list [.atom "ok", Sexp.ofNat t.ordinal, Sexp.ofNats t.sids]]
        :: t.sids.map (fun s => .list [.atom "state", Sexp.ofNat p, Sexp.ofNat v, Sexp.ofNat g, Sexp.ofNat s,
                                       nodeS (vis fs (stateP p v g s))])
    | _ => [])

def stepC05 : Sexp → Sexp
  | .list [.atom "run", im, .list steps, cr] =>
    match impl? im, steps.mapM step?, crash? cr with
    | some impl, some steps, some none =>
      let r := execAll impl Fs.empty steps
      .list [.atom "ok", .list (r.2.map outcomeS), .list (factsOf r.1), Sexp.ofBool (decide (WF r.1))]
    | some impl, some steps, some (some (i, k, cut)) =>
      match steps[i]? with
      | none => .atom "bad-op"
      | some s =>
        let r := execAll impl Fs.empty (steps.take i)
        let fs := crashIn impl r.1 s k cut
        .list [.atom "ok", .list (r.2.map outcomeS), .list (factsOf fs), Sexp.ofBool (decide (WF fs))]
    | _, _, _ => .atom "bad-op"
  | _ => .atom "bad-op"

def main : IO Unit := driverLoop stepC05
