/- Line-protocol driver for the C05 model (ForML.Model.Fs, ForML.Model.Registry).

  request   (run <impl> (<event> ...) <crash>)
    impl    (impl <staged: true|false> <keyFirst: true|false>)
    event   <step> | (crash <step> <k> none|<cut>) | (fault <step> <j>)
            a step run to its end / a step during which the process dies / a step hit by a transient I/O fault at its
            j-th atomic micro-operation (it raises, the process lives on)
    step    (publish <dirProj> <name> <version> (file (<byte> ...)))
            (publish <dirProj> <name> <version> (dir ((<i> (<byte> ...)) ...)))
            (train <proj> <version> <ordinal> ((<sid> (<byte> ...)) ...))
    crash   none | (<event index> <completed atomic micro-ops of that step> none|<bytes of the next append>)
            (the event at that index must be a plain step; the events before it are played, then the step is killed)
  answer    (ok (<outcome> ...) (<fact> ...) <wf> (<entry> ...))  outcomes of the played events, view of the final
            tree, whether the final model tree is well formed (Fs.WF), the raw final tree
  request   (frun <impl> (<event> ...) (<event index> <j>))   the events before the index are played, then the plain step at
            the index is hit by a fault at its j-th atomic micro-operation; same answer
    outcome (ok (<call> ...)) | (err invalid|mismatch|os (<call> ...)) | crashed | faulted     call = (<op> ...)
    fact    (rel p v <node>) (member p v i <node>) (gen p v g (ok ord (sid ...))|corrupt) (state p v g sid <node>|missing)
    entry   (<path> <node>)

  request   (hrun <impl> (<hevent> ...) <crash>)     several handles in several processes (ForML.Model.RegistryHandles)
    hevent  <hop> | (die <hop> <k> none|<cut>) | (fault <hop> <j>)
    hop     (open <h> <proc> <proj> none|<version> none|<generation>) | (publish <h> <name> <version> <pkg>)
            | (begin <h> <ordinal> <n>) | (dump <h> <sid> (<byte> ...)) | (commit <h>) | (look <h>)
    crash   none | (<event index> <k> none|<cut>)   the event at that index must be a plain <hop>
  answer    (ok (<houtcome> ...) (<fact> ...) <wf> (<entry> ...))
    houtcome (ok (<call> ...) none|notag|(tag ord (sid ...) ((<byte> ...) ...))) | (err <kind> (<call> ...)) | died | faulted
             (look: the tag and, in its order, the bytes of the states loaded after it)

  request   (vrun <impl> (<step> ...))               the volatile registry (ForML.Model.RegistryVolatile)
  answer    (ok (<outcome> ...) (<fact> ...) <wf> (<entry> ...))    facts: (rel p v memory) (gen ...) (state ...)
-/
import ForML.Model.Sexp
import ForML.Model.Fs
import ForML.Model.Registry
import ForML.Model.RegistryHandles
import ForML.Model.RegistryVolatile
open ForML ForML.Fs ForML.Registry

def bytes? (x : Sexp) : Option Bytes := x.natList?

def member? : Sexp → Option (Nat × Bytes)
  | .list [i, b] => do pure (← i.nat?, ← bytes? b)
  | _ => none

def pkg? : Sexp → Option Pkg
  | .list [.atom "file", b] => (bytes? b).map Pkg.file
  | .list [.atom "dir", .list ms] => (ms.mapM member?).map Pkg.dir
  | _ => none

def step? : Sexp → Option Step
  | .list [.atom "publish", dp, n, v, pk] => do
    pure (.publish (← dp.nat?) (← n.nat?) (← v.nat?) (← pkg? pk))
  | .list [.atom "train", p, v, o, .list sts] => do
    pure (.train (← p.nat?) (← v.nat?) (← o.nat?) (← sts.mapM member?))
  | _ => none

def ev? : Sexp → Option Ev
  | .list [.atom "crash", st, k, .atom "none"] => do pure (.crash (← step? st) (← k.nat?) none)
  | .list [.atom "crash", st, k, c] => do pure (.crash (← step? st) (← k.nat?) (some (← c.nat?)))
  | .list [.atom "fault", st, j] => do pure (.fault (← step? st) (← j.nat?))
  | x => (step? x).map Ev.step

def bool? : Sexp → Option Bool
  | .atom "true" => some true
  | .atom "false" => some false
  | _ => none

def impl? : Sexp → Option Impl
  | .list [.atom "impl", s, k] => do pure ⟨← bool? s, ← bool? k⟩
  | _ => none

def crash? : Sexp → Option (Option (Nat × Nat × Option Nat))
  | .atom "none" => some none
  | .list [i, k, .atom "none"] => do pure (some (← i.nat?, ← k.nat?, none))
  | .list [i, k, c] => do pure (some (← i.nat?, ← k.nat?, some (← c.nat?)))
  | _ => none

def segS : Seg → Sexp
  | .proj n => .list [.atom "proj", Sexp.ofNat n]
  | .rel v => .list [.atom "rel", Sexp.ofNat v]
  | .gen g => .list [.atom "gen", Sexp.ofNat g]
  | .stage => .atom "stage"
  | .pkg => .atom "pkg"
  | .pkgTmp => .atom "pkgtmp"
  | .tag => .atom "tag"
  | .tagTmp => .atom "tagtmp"
  | .state s => .list [.atom "state", Sexp.ofNat s]
  | .member i => .list [.atom "member", Sexp.ofNat i]

def pathS (p : Path) : Sexp := .list (p.map segS)

def opS : Op → Sexp
  | .mkdir p => .list [.atom "mkdir", pathS p]
  | .createEmpty p => .list [.atom "create", pathS p]
  | .append p b => .list [.atom "append", pathS p, Sexp.ofNats b]
  | .rename p q => .list [.atom "rename", pathS p, pathS q]
  | .copyFile p b => .list [.atom "copy", pathS p, Sexp.ofNats b]
  | .rmtree p => .list [.atom "rmtree", pathS p]

def errS : Err → Sexp
  | .invalid => .atom "invalid"
  | .mismatch => .atom "mismatch"
  | .os => .atom "os"

def outcomeS (o : Outcome) : Sexp :=
  let calls := Sexp.list (o.calls.map (fun c => .list (c.map opS)))
  match o.err with
  | none => .list [.atom "ok", calls]
  | some e => .list [.atom "err", errS e, calls]

def nodeS : Option Node → Sexp
  | none => .atom "missing"
  | some .dir => .atom "dir"
  | some (.file b) => .list [.atom "file", Sexp.ofNats b]

def factsOf (fs : Fs) : List Sexp :=
  (reader fs).flatMap (fun e => match e.1 with
    | [.proj p, .rel v, .pkg] => [.list [.atom "rel", Sexp.ofNat p, Sexp.ofNat v, nodeS (some e.2)]]
    | [.proj p, .rel v, .pkg, .member i] =>
      [.list [.atom "member", Sexp.ofNat p, Sexp.ofNat v, Sexp.ofNat i, nodeS (some e.2)]]
    | [.proj p, .rel v, .gen g, .tag] =>
      match tagOf fs p v g with
      | none => [.list [.atom "gen", Sexp.ofNat p, Sexp.ofNat v, Sexp.ofNat g, .atom "corrupt"]]
      | some t =>
        .list [.atom "gen", Sexp.ofNat p, Sexp.ofNat v, Sexp.ofNat g,
               .list [.atom "ok", Sexp.ofNat t.ordinal, Sexp.ofNats t.sids]]
        :: t.sids.map (fun s => .list [.atom "state", Sexp.ofNat p, Sexp.ofNat v, Sexp.ofNat g, Sexp.ofNat s,
                                       nodeS (vis fs (stateP p v g s))])
    | _ => [])

/-- every entry of the raw tree (the root excluded) -/
def treeOf (fs : Fs) : List Sexp :=
  (keys fs).filterMap (fun k => if k = [] then none else some (.list [pathS k, nodeS (get fs k)]))

/-- play the events; outcome per event -/
def playAll (impl : Impl) : Fs → List Ev → Fs × List Sexp
  | fs, [] => (fs, [])
  | fs, .step s :: rest =>
    let o := exec impl fs s
    let r := playAll impl o.fs rest
    (r.1, outcomeS o :: r.2)
  | fs, .crash s k cut :: rest =>
    let r := playAll impl (crashIn impl fs s k cut) rest
    (r.1, .atom "crashed" :: r.2)
  | fs, .fault s j :: rest =>
    let r := playAll impl (faultIn impl fs s j) rest
    (r.1, .atom "faulted" :: r.2)

def answer (outs : List Sexp) (fs : Fs) : Sexp :=
  .list [.atom "ok", .list outs, .list (factsOf fs), Sexp.ofBool (decide (WF fs)), .list (treeOf fs)]

def stepC05 : Sexp → Sexp
  | .list [.atom "run", im, .list evs, cr] =>
    match impl? im, evs.mapM ev?, crash? cr with
    | some impl, some evs, some none =>
      let r := playAll impl Fs.empty evs
      answer r.2 r.1
    | some impl, some evs, some (some (i, k, cut)) =>
      match evs[i]? with
      | some (.step s) =>
        let r := playAll impl Fs.empty (evs.take i)
        answer r.2 (crashIn impl r.1 s k cut)
      | _ => .atom "bad-op"
    | _, _, _ => .atom "bad-op"
  | _ => .atom "bad-op"

def optNat? : Sexp → Option (Option Nat)
  | .atom "none" => some none
  | x => x.nat?.map some

def hop? : Sexp → Option (Nat × HOp)
  | .list [.atom "open", h, pr, p, v, g] => do
    pure (← h.nat?, .open (← pr.nat?) (← p.nat?) (← optNat? v) (← optNat? g))
  | .list [.atom "publish", h, n, v, pk] => do pure (← h.nat?, .publish (← n.nat?) (← v.nat?) (← pkg? pk))
  | .list [.atom "begin", h, o, n] => do pure (← h.nat?, .begin (← o.nat?) (← n.nat?))
  | .list [.atom "dump", h, sid, b] => do pure (← h.nat?, .dump (← sid.nat?) (← bytes? b))
  | .list [.atom "commit", h] => do pure (← h.nat?, .commit)
  | .list [.atom "look", h] => do pure (← h.nat?, .look)
  | _ => none

def hev? : Sexp → Option HEv
  | .list [.atom "die", o, k, c] => do
    let (h, op) ← hop? o
    pure (.die h op (← k.nat?) (← optNat? c))
  | .list [.atom "fault", o, j] => do
    let (h, op) ← hop? o
    pure (.fault h op (← j.nat?))
  | x => (hop? x).map (fun (h, op) => HEv.run h op)

def herrS : HErr → Sexp
  | .invalid => .atom "invalid"
  | .mismatch => .atom "mismatch"
  | .os => .atom "os"
  | .empty => .atom "Empty"
  | .assertion => .atom "AssertionError"
  | .corrupt => .atom "corrupt"
  | .noacc => .atom "noacc"
  | .dead => .atom "dead"

def houtS (o : HOut) (states : List Bytes) : Sexp :=
  let calls := Sexp.list (o.calls.map (fun c => .list (c.map opS)))
  match o.err with
  | some e => .list [.atom "err", herrS e, calls]
  | none =>
    .list [.atom "ok", calls,
      match o.look with
      | none => .atom "none"
      | some none => .atom "notag"
      | some (some t) =>
        .list [.atom "tag", Sexp.ofNat t.ordinal, Sexp.ofNats t.sids, .list (states.map Sexp.ofNats)]]

def playAllH (impl : Impl) : World → List HEv → World × List Sexp
  | w, [] => (w, [])
  | w, .run h op :: rest =>
    let o := perform impl w h op
    let r := playAllH impl o.w rest
    (r.1, houtS o (lookStates w h) :: r.2)
  | w, .die h op k cut :: rest =>
    let r := playAllH impl (applyH impl w (.die h op k cut)) rest
    (r.1, .atom "died" :: r.2)
  | w, .fault h op j :: rest =>
    let r := playAllH impl (applyH impl w (.fault h op j)) rest
    (r.1, .atom "faulted" :: r.2)

def vFactsOf (st : VReg) : List Sexp :=
  st.arts.flatMap (fun e =>
    let p := e.1
    let v := e.2
    .list [.atom "rel", Sexp.ofNat p, Sexp.ofNat v, .atom "memory"]
    :: (generationsOf st.fs p v).flatMap (fun g =>
      match tagOf st.fs p v g with
      | none => [.list [.atom "gen", Sexp.ofNat p, Sexp.ofNat v, Sexp.ofNat g, .atom "corrupt"]]
      | some t =>
        .list [.atom "gen", Sexp.ofNat p, Sexp.ofNat v, Sexp.ofNat g,
               .list [.atom "ok", Sexp.ofNat t.ordinal, Sexp.ofNats t.sids]]
        :: t.sids.map (fun s => .list [.atom "state", Sexp.ofNat p, Sexp.ofNat v, Sexp.ofNat g, Sexp.ofNat s,
                                       nodeS (vVis st (stateP p v g s))])))

def vPlayAll (impl : Impl) : VReg → List Step → VReg × List Sexp
  | st, [] => (st, [])
  | st, s :: rest =>
    let o := vExec impl st s
    let r := vPlayAll impl o.st rest
    (r.1, outcomeS ⟨o.st.fs, o.calls, o.err⟩ :: r.2)

def stepFault : Sexp → Sexp
  | .list [.atom "frun", im, .list evs, .list [i, j]] =>
    match impl? im, evs.mapM ev?, i.nat?, j.nat? with
    | some impl, some evs, some i, some j =>
      match evs[i]? with
      | some (.step s) =>
        let r := playAll impl Fs.empty (evs.take i)
        answer r.2 (faultIn impl r.1 s j)
      | _ => .atom "bad-op"
    | _, _, _, _ => .atom "bad-op"
  | _ => .atom "bad-op"

def stepC05All : Sexp → Sexp
  | .list (.atom "frun" :: rest) => stepFault (.list (.atom "frun" :: rest))
  | .list [.atom "vrun", im, .list steps] =>
    match impl? im, steps.mapM step? with
    | some impl, some steps =>
      let r := vPlayAll impl VReg.empty steps
      .list [.atom "ok", .list r.2, .list (vFactsOf r.1), Sexp.ofBool (decide (WF r.1.fs)), .list (treeOf r.1.fs)]
    | _, _ => .atom "bad-op"
  | .list [.atom "hrun", im, .list evs, cr] =>
    match impl? im, evs.mapM hev?, crash? cr with
    | some impl, some evs, some none =>
      let r := playAllH impl World.empty evs
      answer r.2 r.1.fs
    | some impl, some evs, some (some (i, k, cut)) =>
      match evs[i]? with
      | some (.run h op) =>
        let r := playAllH impl World.empty (evs.take i)
        answer r.2 (applyH impl r.1 (.die h op k cut)).fs
      | _ => .atom "bad-op"
    | _, _, _ => .atom "bad-op"
  | x => stepC05 x

def main : IO Unit := driverLoop stepC05All
