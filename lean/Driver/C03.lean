/- Line-protocol driver for the C03 model (ForML.Model.Compose / ForML.Model.Denote).

  (run <expr>)     expand from the empty graph, evaluate the three tails and the trained states
  (denote <expr>)  ⟦expr⟧ on the inputs (input 0) (input 1) (input 2)
  (bridge (a t l) <expr>)   `flow.Composition(source, expr)` with the source actors a (apply reader), t (train reader),
                   l (label extractor): the train and apply segments in the S-expression format of the C01 driver
                   (`toSegment`), `Composition.persistent`, C01's decidable `wf` / `connected` / `assetsOK` on them, the
                   C01 compiler model + reference interpreter on both (train: fresh store with the persistent list; apply:
                   the generation the train run committed) and `⟦expr⟧` on the source's outputs:
                   (checks: wf/connected/assetsOK(fresh store)/assetsOK(none) of the train segment, wf/connected/assetsOK of
                   the apply segment, `bridgeOK` = the hypothesis of theorem C03_end_to_end_partial)
                   (ok (train seg) (apply seg) (persistent (gid*)) (checks b*) (agree b))
                   agree: train tail, trained states (training order) and apply tail of the compiled tables = conv of `⟦expr⟧`

  actor ::= (tag stateful)        slot ::= none | actor
  expr  ::= (wrap slot slot slot) | (mapreduce (actor ...) tag) | (debug actor actor)
          | (stack (expr ...) nsplits splitter appender stacker reducer) | (seq expr expr)
          | (api extend none|tag none|tag none|tag true|false) | (api labelmix tag) | (api monitor actor) | (api tee tag)
-/
import ForML.Model.Sexp
import ForML.Model.Compose
import ForML.Model.Denote
import ForML.Model.ComposeSegment
import ForML.Model.SymbolsSexp
import ForML.Model.Compile
open ForML ForML.Compose

def bool? : Sexp → Option Bool
  | .atom "true" => some true
  | .atom "false" => some false
  | _ => none

def actor? : Sexp → Option Actor
  | .list [t, s] => do pure ⟨← t.nat?, ← bool? s⟩
  | _ => none

def slot? : Sexp → Option (Option Actor)
  | .atom "none" => some none
  | x => (actor? x).map some

def optNat? : Sexp → Option (Option Nat)
  | .atom "none" => some none
  | x => x.nat?.map some

partial def expr? : Sexp → Option Expr
  | .list [.atom "wrap", l, a, t] => do pure (.wrap (← slot? l) (← slot? a) (← slot? t))
  | .list [.atom "mapreduce", .list ms, r] => do pure (.mapreduce (← ms.mapM actor?) (← r.nat?))
  | .list [.atom "debug", a, t] => do pure (.debug (← actor? a) (← actor? t))
  | .list [.atom "stack", .list bs, n, s, a, k, r] => do
    pure (.stack (← bs.mapM expr?) (← n.nat?) (← s.nat?) (← a.nat?) (← k.nat?) (← r.nat?))
  | .list [.atom "seq", l, r] => do pure (.seq (← expr? l) (← expr? r))
  | .list [.atom "api", .atom "extend", a, t, l, via] => do
    pure (.api (.extend (← optNat? a) (← optNat? t) (← optNat? l) (← bool? via)))
  | .list [.atom "api", .atom "labelmix", t] => do pure (.api (.labelMix (← t.nat?)))
  | .list [.atom "api", .atom "monitor", a] => do pure (.api (.monitor (← actor? a)))
  | .list [.atom "api", .atom "tee", t] => do pure (.api (.tee (← t.nat?)))
  | _ => none

partial def valSexp : Val → Sexp
  | .none => .atom "none"
  | .input n => .list [.atom "input", Sexp.ofNat n]
  | .hole u => .list [.atom "hole", Sexp.ofNat u]
  | .apply t st args => .list [.atom "apply", Sexp.ofNat t, valSexp st, .list (args.map valSexp)]
  | .state t p x y => .list [.atom "state", Sexp.ofNat t, valSexp p, valSexp x, valSexp y]
  | .proj i v => .list [.atom "proj", Sexp.ofNat i, valSexp v]

def optVal : Option Val → Sexp
  | some v => valSexp v
  | none => .atom "stuck"

def statesSexp (ss : List (Nat × Val)) : Sexp :=
  .list (ss.map (fun (t, v) => .list [Sexp.ofNat t, valSexp v]))

def errSexp : Err → Sexp
  | .doubleSubscription => .atom "doubleSubscription"
  | .statelessTrain => .atom "statelessTrain"
  | .forkTrainCollision => .atom "forkTrainCollision"
  | .noNode => .atom "noNode"

/-- group structure of the expanded graph: for every group the number of member workers and whether one is trained -/
def groupStats (g : Graph) : Sexp :=
  let gids := (g.nodes.filterMap (fun n => match n.kind with | .worker gid .. => some gid | .future => none)).eraseDups
  let workers := g.nodes.filter (fun n => match n.kind with | .worker .. => true | .future => false)
  .list [.list [.atom "nodes", Sexp.ofNat g.nodes.length], .list [.atom "workers", Sexp.ofNat workers.length],
    .list [.atom "groups", Sexp.ofNat gids.length], .list [.atom "trained", Sexp.ofNat g.trains.length]]

/-- (tag, members, trained members) of every group with at least one connected member (the unconnected prototype a
`setdefault` default leaves behind is a member of its group, as in `Worker.group`) -/
def groupSig (g : Graph) : Sexp :=
  let connected (u : Nat) : Bool :=
    g.edges.any (fun e => e.sub == u || e.pub.node == u) || g.trains.any (fun t => t.node == u)
  let workers := g.nodes.filterMap (fun n =>
    match n.kind with
    | .worker gid a _ _ => some (n.uid, gid, a.tag)
    | .future => none)
  let gids := ((workers.filter (fun w => connected w.1)).map (·.2.1)).eraseDups
  .list (gids.map (fun gid =>
    let ms := workers.filter (fun w => w.2.1 == gid)
    let tag := match ms with
      | w :: _ => w.2.2
      | [] => 0
    .list [Sexp.ofNat tag, Sexp.ofNat ms.length, Sexp.ofNat (g.trains.filter (fun t => t.gid == gid)).length]))

/-! ### the bridge to the compiler model (C01) -/

def segWorkerSexp (w : Flow.Worker) : Sexp :=
  .list [Sexp.ofNat w.uid, Sexp.ofNat w.gid, Sexp.ofNat w.actor, Sexp.ofBool w.stateful, Sexp.ofNat w.szin, Sexp.ofNat w.szout]

def segEdgeSexp (e : Flow.Edge) : Sexp :=
  let (k, i) := match e.subPort with
    | .apply i => ("a", i)
    | .train => ("t", 0)
    | .label => ("l", 1)
  .list [Sexp.ofNat e.pub, Sexp.ofNat e.pubPort, Sexp.ofNat e.sub, .atom k, Sexp.ofNat i]

def segSexp (s : Flow.Segment) : Sexp :=
  .list [.list (s.workers.map segWorkerSexp), .list (s.edges.map segEdgeSexp), Sexp.ofNat s.head, Sexp.ofNat s.tail,
    Sexp.ofNats s.trainedElsewhere]

def undump : Flow.Val → Flow.Val
  | .dumped v => v
  | v => v

/-- value at the functor of worker `n` after compiling `s` (in the order of `Traversal.each`) and running the table -/
def compiledValue (s : Flow.Segment) (A : Option Flow.Assets) (n : Nat) : Option Flow.Val × Option Flow.Val :=
  match Flow.compile s A s.visitOrder with
  | .ok t =>
    let m := Flow.run A t
    (m.get (.uid n), m.get .committer)
  | .error _ => (none, none)

def bridgeOut (src : Source) (e : Expr) : Sexp :=
  match segments src e with
  | .error err => .list [.atom "error", errSexp err]
  | .ok sg =>
    let tr := sg.train
    let ap := sg.apply
    let pers := persistentOf ap
    let fresh : Option Flow.Assets := some ⟨pers, []⟩
    let (trainVal, committed) := compiledValue tr fresh tr.tail
    let prev : List Flow.Val := match committed with
      | some (.committed vs) => vs.map undump
      | _ => []
    let stored : Option Flow.Assets := some ⟨pers, prev⟩
    let (applyVal, _) := compiledValue ap stored ap.tail
    let d := denoteOn src e
    -- the states of the trained forks, in training order, by direct evaluation (what the compiled table yields: C01)
    let trainStates : List Sexp := sg.graph.trains.map fun T => (tr.nodeVal fresh tr.evalFuel T.node).toSexp
    let checks := [tr.wf (segRank tr), tr.connected, tr.assetsOK fresh, tr.assetsOK none, ap.wf (segRank ap), ap.connected,
      ap.assetsOK stored, bridgeOKof sg]
    let agree := trainVal.map Flow.Val.toSexp == some (conv d.train).toSexp &&
      applyVal.map Flow.Val.toSexp == some (conv d.apply).toSexp &&
      trainStates == d.states.map (fun s => (conv s.2).toSexp)
    .list [.atom "ok", .list [.atom "train", segSexp tr], .list [.atom "apply", segSexp ap],
      .list [.atom "persistent", Sexp.ofNats pers], .list (.atom "checks" :: checks.map Sexp.ofBool),
      .list [.atom "agree", Sexp.ofBool agree]]

def stepC03 : Sexp → Sexp
  | .list [.atom "run", x] =>
    match expr? x with
    | none => .atom "bad-op"
    | some e =>
      match run e with
      | .error err => .list [.atom "error", errSexp err]
      | .ok o =>
        .list [.atom "ok", .list [.atom "train", optVal o.train], .list [.atom "apply", optVal o.apply],
          .list [.atom "label", optVal o.label],
          .list [.atom "states", match o.states with | some ss => statesSexp ss | none => .atom "stuck"],
          .list [.atom "stats", groupStats o.graph], .list [.atom "groupsig", groupSig o.graph]]
  | .list [.atom "denote", x] =>
    match expr? x with
    | none => .atom "bad-op"
    | some e =>
      let d := denote e (.input 0) (.input 1) (.input 2)
      .list [.atom "ok", .list [.atom "train", valSexp d.train], .list [.atom "apply", valSexp d.apply],
        .list [.atom "label", valSexp d.label], .list [.atom "states", statesSexp d.states]]
  | .list [.atom "bridge", .list [a, t, l], x] =>
    match a.nat?, t.nat?, l.nat?, expr? x with
    | some a, some t, some l, some e => bridgeOut ⟨a, t, l⟩ e
    | _, _, _, _ => .atom "bad-op"
  | _ => .atom "bad-op"

def main : IO Unit := driverLoop stepC03
