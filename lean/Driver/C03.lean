/- Line-protocol driver for the C03 model (ForML.Model.Compose / ForML.Model.Denote).

  (run <expr>)     expand from the empty graph, evaluate the three tails and the trained states
  (denote <expr>)  ⟦expr⟧ on the inputs (input 0) (input 1) (input 2)

  actor ::= (tag stateful)        slot ::= none | actor
  expr  ::= (wrap slot slot slot) | (mapreduce (actor ...) tag) | (debug actor actor)
          | (stack (expr ...) nsplits splitter appender stacker reducer) | (seq expr expr)
-/
import ForML.Model.Sexp
import ForML.Model.Compose
import ForML.Model.Denote
open ForML ForML.Compose

def bool? : Sexp → Option Bool
  | .atom "true" => some true
  | .atom "false" => some false
  | _ => none

def actor? : Sexp → Option Actor
  | .list [t, s] => do pure ⟨← t.nat?, ← bool? s⟩
  | _ => none

def slot? : Sexp → Option (Option Actor)
  | .atom "none" => some none
  | x => (actor? x).map some

partial def expr? : Sexp → Option Expr
  | .list [.atom "wrap", l, a, t] => do pure (.wrap (← slot? l) (← slot? a) (← slot? t))
  | .list [.atom "mapreduce", .list ms, r] => do pure (.mapreduce (← ms.mapM actor?) (← r.nat?))
  | .list [.atom "debug", a, t] => do pure (.debug (← actor? a) (← actor? t))
  | .list [.atom "stack", .list bs, n, s, a, k, r] => do
    pure (.stack (← bs.mapM expr?) (← n.nat?) (← s.nat?) (← a.nat?) (← k.nat?) (← r.nat?))
  | .list [.atom "seq", l, r] => do pure (.seq (← expr? l) (← expr? r))
  | _ => none

partial def valSexp : Val → Sexp
  | .none => .atom "none"
  | .input n => .list [.atom "input", Sexp.ofNat n]
  | .hole u => .list [.atom "hole", Sexp.ofNat u]
  | .apply t st args => .list [.atom "apply", Sexp.ofNat t, valSexp st, .list (args.map valSexp)]
  | .state t p x y => .list [.atom "state", Sexp.ofNat t, valSexp p, valSexp x, valSexp y]
  | .proj i v => .list [.atom "proj", Sexp.ofNat i, valSexp v]

def optVal : Option Val → Sexp
  | some v => valSexp v
  | none => .atom "stuck"

def statesSexp (ss : List (Nat × Val)) : Sexp :=
  .list (ss.map (fun (t, v) => .list [Sexp.ofNat t, valSexp v]))

def errSexp : Err → Sexp
  | .doubleSubscription => .atom "doubleSubscription"
  | .statelessTrain => .atom "statelessTrain"
  | .forkTrainCollision => .atom "forkTrainCollision"
  | .noNode => .atom "noNode"

/-- group structure of the expanded graph: for every group the number of member workers and whether one is trained -/
def groupStats (g : Graph) : Sexp :=
  let gids := (g.nodes.filterMap (fun n => match n.kind with | .worker gid .. => some gid | .future => none)).eraseDups
  let workers := g.nodes.filter (fun n => match n.kind with | .worker .. => true | .future => false)
  .list [.list [.atom "nodes", Sexp.ofNat g.nodes.length], .list [.atom "workers", Sexp.ofNat workers.length],
    .list [.atom "groups", Sexp.ofNat gids.length], .list [.atom "trained", Sexp.ofNat g.trains.length]]

/-- (tag, members, trained members) of every group with at least one connected member (the unconnected prototype a
`setdefault` default leaves behind is a member of its group, as in `Worker.group`) -/
def groupSig (g : Graph) : Sexp :=
  let connected (u : Nat) : Bool :=
    g.edges.any (fun e => e.sub == u || e.pub.node == u) || g.trains.any (fun t => t.node == u)
  let workers := g.nodes.filterMap (fun n =>
    match n.kind with
    | .worker gid a _ _ => some (n.uid, gid, a.tag)
    | .future => none)
  let gids := ((workers.filter (fun w => connected w.1)).map (·.2.1)).eraseDups
  .list (gids.map (fun gid =>
    let ms := workers.filter (fun w => w.2.1 == gid)
    let tag := match ms with
      | w :: _ => w.2.2
      | [] => 0
    .list [Sexp.ofNat tag, Sexp.ofNat ms.length, Sexp.ofNat (g.trains.filter (fun t => t.gid == gid)).length]))

def stepC03 : Sexp → Sexp
  | .list [.atom "run", x] =>
    match expr? x with
    | none => .atom "bad-op"
    | some e =>
      match run e with
      | .error err => .list [.atom "error", errSexp err]
      | .ok o =>
        .list [.atom "ok", .list [.atom "train", optVal o.train], .list [.atom "apply", optVal o.apply],
          .list [.atom "label", optVal o.label],
          .list [.atom "states", match o.states with | some ss => statesSexp ss | none => .atom "stuck"],
          .list [.atom "stats", groupStats o.graph], .list [.atom "groupsig", groupSig o.graph]]
  | .list [.atom "denote", x] =>
    match expr? x with
    | none => .atom "bad-op"
    | some e =>
      let d := denote e (.input 0) (.input 1) (.input 2)
      .list [.atom "ok", .list [.atom "train", valSexp d.train], .list [.atom "apply", valSexp d.apply],
        .list [.atom "label", valSexp d.label], .list [.atom "states", statesSexp d.states]]
  | _ => .atom "bad-op"

def main : IO Unit := driverLoop stepC03
