/- Line-protocol driver for the C18 model (stub until the model exists). -/
import ForML.Model.Sexp
open ForML

def main : IO Unit := driverLoop (fun _ => .atom "no-model")
