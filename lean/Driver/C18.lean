/- Line-protocol driver for the C18 models (ForML.Model.Tag / Keys / Manifest).
Strings travel as lists of code points. Anything that does not parse is answered `bad-op`. -/
import ForML.Model.Sexp
import ForML.Model.Tag
import ForML.Model.Keys
import ForML.Model.Manifest
import ForML.Model.ManifestStore
import ForML.Model.ManifestLoad
import ForML.Model.KeysValue
open ForML

namespace C18Drv

def cps? (x : Sexp) : Option (List Nat) := x.natList?
def ofCps (s : List Nat) : Sexp := Sexp.ofNats s

def optOf (f : Sexp → Option α) : Sexp → Option (Option α)
  | .atom "none" => some none
  | x => (f x).map some

def bool? : Sexp → Option Bool
  | .atom "true" => some true
  | .atom "false" => some false
  | _ => none

/-! tags -/
open ForML.Tag in
def ts? : Sexp → Option Ts
  | .list [y, mo, d, h, mi, s, us, tz] => do
    pure { y := ← y.nat?, mo := ← mo.nat?, d := ← d.nat?, h := ← h.nat?, mi := ← mi.nat?, s := ← s.nat?,
           us := ← us.nat?, tz := ← optOf Sexp.int? tz }
  | _ => none

open ForML.Tag in
def ordinal? : Sexp → Option Ordinal
  | .list [.atom "int", i] => i.int?.map .int
  | .list [.atom "float", b] => b.nat?.map .float
  | .list [.atom "bool", b] => (bool? b).map .bool
  | .list [.atom "str", s] => (cps? s).map .str
  | .list [.atom "date", y, m, d] => do pure (.date (← y.nat?) (← m.nat?) (← d.nat?))
  | .list [.atom "datetime", t] => (ts? t).map .datetime
  | .list [.atom "decimal", s, i, b] => do pure (.decimal (← cps? s) (← i.int?) (← b.nat?))
  | _ => none

open ForML.Tag in
def num? : Sexp → Option Num
  | .list [.atom "int", i] => i.int?.map .int
  | .list [.atom "float", b] => b.nat?.map .float
  | _ => none

open ForML.Tag in
def ofTs (t : Ts) : Sexp :=
  .list [Sexp.ofNat t.y, Sexp.ofNat t.mo, Sexp.ofNat t.d, Sexp.ofNat t.h, Sexp.ofNat t.mi, Sexp.ofNat t.s,
         Sexp.ofNat t.us, match t.tz with | none => .atom "none" | some z => Sexp.ofInt z]

open ForML.Tag in
def ofOrdinal : Ordinal → Sexp
  | .int i => .list [.atom "int", Sexp.ofInt i]
  | .float b => .list [.atom "float", Sexp.ofNat b]
  | .bool b => .list [.atom "bool", Sexp.ofBool b]
  | .str s => .list [.atom "str", ofCps s]
  | .date y m d => .list [.atom "date", Sexp.ofNat y, Sexp.ofNat m, Sexp.ofNat d]
  | .datetime t => .list [.atom "datetime", ofTs t]
  | .decimal s i b => .list [.atom "decimal", ofCps s, Sexp.ofInt i, Sexp.ofNat b]

open ForML.Tag in
def ofNum : Num → Sexp
  | .int i => .list [.atom "int", Sexp.ofInt i]
  | .float b => .list [.atom "float", Sexp.ofNat b]

def ofOpt (f : α → Sexp) : Option α → Sexp
  | none => .atom "none"
  | some a => f a

open ForML.Tag in
def ofTag (t : Tag) : Sexp :=
  .list [ofOpt ofTs t.trainTs, ofOpt ofOrdinal t.ordinal, ofOpt ofTs t.tuneTs, ofOpt ofNum t.score,
         Sexp.ofNats t.states]

open ForML.Tag in
def ofStrErr : StrErr → Sexp
  | .indexError => .atom "IndexError"
  | .reserved => .atom "TomlDecodeError"
  | .outOfModel => .atom "out-of-model"
  | .notAString => .atom "not-a-string"

open ForML.Tag in
def ofLoadErr : LoadErr → Sexp
  | .keyError _ => .atom "KeyError"
  | .str e => ofStrErr e
  | .badType _ => .atom "bad-type"

open ForML.Tag in
def ofLoad : Except LoadErr Tag → Sexp
  | .ok t => .list [.atom "ok", ofTag t]
  | .error e => .list [.atom "error", ofLoadErr e]

open ForML.Tag in
def stepTag (a b c d e : Sexp) : Sexp :=
  match optOf ts? a, optOf ordinal? b, optOf ts? c, optOf num? d, e.natList? with
  | some trainTs, some ordinal, some tuneTs, some score, some states =>
    let t : Tag := { trainTs, ordinal, tuneTs, score, states }
    match dumps t with
    | .error err => .list [.atom "error", ofStrErr err]
    | .ok doc =>
      let lit := match lookup .ordinal doc.training with
        | some (.strLit v) => ofCps v
        | _ => .atom "none"
      .list [.atom "ok", .list (doc.training.map (fun kv => .atom kv.1.name)), .list (doc.tuning.map (fun kv => .atom kv.1.name)),
             lit, ofLoad (loads doc), ofLoad (loadsStrict doc)]
  | _, _, _, _, _ => .atom "bad-op"

/-! keys -/
open ForML.Keys in
def seg? : Sexp → Option Seg
  | .list [.atom "num", n] => n.nat?.map .num
  | .list [.atom "str", s] => (cps? s).map .str
  | _ => none

open ForML.Keys in
def version? : Sexp → Option Version
  | .list [ep, rel, pre, post, dev, loc] => do
    let pre ← optOf (fun | .list [k, n] => do pure ((← k.nat?), (← n.nat?)) | _ => none) pre
    let loc ← optOf (fun | .list segs => segs.mapM seg? | _ => none) loc
    pure { epoch := ← ep.nat?, release := ← rel.natList?, pre, post := ← optOf Sexp.nat? post,
           dev := ← optOf Sexp.nat? dev, loc }
  | _ => none

def ofOrdering : Ordering → Sexp
  | .lt => .atom "lt"
  | .eq => .atom "eq"
  | .gt => .atom "gt"

open ForML.Keys in
def stepKeys : Sexp → Option Sexp
  | .list [.atom "genkey", s] => do
    let s ← cps? s
    pure (match genKey s with
      | .ok k => .list [.atom "ok", Sexp.ofNat k, Sexp.ofNat (genNext k)]
      | .error .notInteger => .list [.atom "error", .atom "not-integer"]
      | .error .notNatural => .list [.atom "error", .atom "not-natural"])
  | .list [.atom "natstr", n] => do pure (ofCps (natStr (← n.nat?)))
  | .list [.atom "listing", xs] => do
    let xs ← xs.natList?
    let l := listing natCmp xs
    pure (.list [Sexp.ofNats l, match last l with | .ok m => Sexp.ofNat m | .error _ => .atom "Empty"])
  | .list [.atom "vlisting", .list vs] => do
    let vs ← vs.mapM version?
    let keyed := (vs.map cmpkey).zip (List.range vs.length)
    let l := listing (fun a b => cmpKey a.1 b.1) keyed
    pure (.list [Sexp.ofNats (l.map (·.2)), match last l with | .ok m => Sexp.ofNat m.2 | .error _ => .atom "Empty"])
  | .list [.atom "vcmp", a, b] => do pure (ofOrdering (vcmp (← version? a) (← version? b)))
  | .list [.atom "vstr", a] => do pure (ofCps (vstr (← version? a)))
  | _ => none

/-! manifests and packages -/
def pair? : Sexp → Option (List Nat × List Nat)
  | .list [k, v] => do pure ((← cps? k), (← cps? v))
  | _ => none

open ForML.Load in
partial def node? : Sexp → Option Node
  | .list [.atom "f", n] => (cps? n).map .file
  | .list [.atom "d", n, .list cs] => do pure (.dir (← cps? n) (← cs.mapM node?))
  | _ => none

open ForML.Manifest in
def stepManifest : Sexp → Option Sexp
  | .list [.atom "manifest", n, v, p, .list ms] => do
    let m : Manifest := { name := ← cps? n, version := ← cps? v, package := ← cps? p, modules := ← ms.mapM pair? }
    let text := render m
    let res := match read text with
      | .ok r => Sexp.list [.atom "ok", ofCps r.name, ofCps r.version, ofCps r.package,
                            .list (r.modules.map (fun kv => .list [ofCps kv.1, ofCps kv.2]))]
      | .error .syntax => .list [.atom "error", .atom "syntax"]
      | .error .outOfModel => .list [.atom "error", .atom "out-of-model"]
    pure (.list [ofCps text, res])
  | _ => none

/-! package content and component resolution -/
def ofFound : ForML.Load.Found → Sexp
  | .package => .atom "package"
  | .module => .atom "module"
  | .nothing => .atom "nothing"

open ForML.Load in
def stepLoad : Sexp → Option Sexp
  | .list [.atom "package", .list nodes] => do
    let nodes ← nodes.mapM node?
    let names := archive nodes
    pure (.list [.list (names.map ofCps), Sexp.ofBool (zipSafe names)])
  | .list [.atom "components", pkg, .list ms, .list nodes] => do
    let pkg ← cps? pkg
    let ms ← ms.mapM pair?
    let nodes ← nodes.mapM node?
    match load pkg ms with
    | .error .unexpected => pure (.list [.atom "error", .atom "UnexpectedError"])
    | .ok names =>
      pure (.list [.atom "ok", .list (names.map (fun n =>
        let segs := splitDots n
        .list [ofCps n, ofFound (locate nodes segs), ofFound (locate (installed nodes) segs), Sexp.ofBool (segsOk true segs)]))])
  | _ => none

/-! histories over locations -/
def ofVersion (v : ForML.Keys.Version) : Sexp :=
  .list [Sexp.ofNat v.epoch, Sexp.ofNats v.release,
         match v.pre with | none => .atom "none" | some (k, n) => .list [Sexp.ofNat k, Sexp.ofNat n],
         ofOpt Sexp.ofNat v.post, ofOpt Sexp.ofNat v.dev,
         match v.loc with
         | none => .atom "none"
         | some segs => .list (segs.map (fun | .num n => .list [.atom "num", Sexp.ofNat n] | .str t => .list [.atom "str", ofCps t]))]

open ForML.Store in
def sm? : Sexp → Option SM
  | .list [n, v, p, .list ms] => do
    pure { name := ← cps? n, version := ← version? v, package := ← cps? p, modules := ← ms.mapM pair? }
  | _ => none

open ForML.Store in
def ofSM (m : SM) : Sexp :=
  .list [ofCps m.name, ofVersion m.version, ofCps m.package, .list (m.modules.map (fun kv => .list [ofCps kv.1, ofCps kv.2]))]

open ForML.Store in
def tree? : Sexp → Option Tree
  | .list [i, b] => do pure { id := ← i.nat?, safe := ← bool? b }
  | _ => none

open ForML.Store in
def ofTree (t : Tree) : Sexp := .list [Sexp.ofNat t.id, Sexp.ofBool t.safe]

open ForML.Store in
def op? : Sexp → Option Op
  | .list [.atom "write", p, m, t] => do pure (.write (← p.nat?) (← sm? m) (← t.nat?))
  | .list [.atom "create", p, m, tr] => do pure (.create (← p.nat?) (← sm? m) (← tree? tr))
  | .list [.atom "install", a, b, t] => do pure (.install (← a.nat?) (← b.nat?) (← t.nat?))
  | .list [.atom "read", p] => do pure (.read (← p.nat?))
  | .list [.atom "remove", p] => do pure (.remove (← p.nat?))
  | _ => none

open ForML.Store in
def ofObs : Obs → Sexp
  | .done => .atom "done"
  | .manifest m => .list [.atom "manifest", ofSM m]
  | .installed m tr => .list [.atom "installed", ofSM m, ofOpt ofTree tr]
  | .error .missing => .list [.atom "error", .atom "missing"]
  | .error .fileExists => .list [.atom "error", .atom "file-exists"]
  | .error .isDir => .list [.atom "error", .atom "is-dir"]

open ForML.Store in
/-- per operation: does it leave its target servable by the finder cache (`okKind`) on the state it meets -/
def okFlags (bc : Bool) : Store → Memo → List Op → List Bool
  | _, _, [] => []
  | s, k, op :: h => okKind bc s k op :: okFlags bc (pstep bc s k op).1 (pstep bc s k op).2.1 h

open ForML.Store in
def stepStore : Sexp → Option Sexp
  | .list [.atom "store", bc, .list ops] => do
    let bc ← bool? bc
    let ops ← ops.mapM op?
    pure (.list [.list ((prun bc Store.empty Memo.empty ops).2.2.map ofObs),
                 .list ((okFlags bc Store.empty Memo.empty ops).map Sexp.ofBool),
                 .list ((lrun (abs Store.empty) ops).2.map ofObs)])
  | _ => none

/-! keys from Python values, PEP 440 text -/
open ForML.Keys in
def pyval? : Sexp → Option PyVal
  | .list [.atom "int", i] => i.int?.map .int
  | .list [.atom "bool", b] => (bool? b).map .bool
  | .list [.atom "float", r] => (cps? r).map .float
  | .list [.atom "str", r] => (cps? r).map .str
  | .list [.atom "bytes", r] => (cps? r).map .bytes
  | .atom "none" => some .none
  | .list [.atom "tuple", r] => (cps? r).map .tuple
  | .list [.atom "version", v] => (version? v).map .version
  | _ => none

open ForML.Keys in
def ofGenKey : Except KeyErr Nat → Sexp
  | .ok k => .list [.atom "ok", Sexp.ofNat k, Sexp.ofNat (genNext k)]
  | .error .notInteger => .list [.atom "error", .atom "not-integer"]
  | .error .notNatural => .list [.atom "error", .atom "not-natural"]

open ForML.Keys in
def stepValues : Sexp → Option Sexp
  | .list [.atom "genkeyv", v] => do
    let v ← pyval? v
    pure (.list [ofCps (pyStr v), ofGenKey (genKeyV v)])
  | .list [.atom "relkeyv", v] => do
    let v ← pyval? v
    pure (.list [ofCps (pyStr v), match relKeyV v with | some r => .list [.atom "ok", ofVersion r, ofCps (vstr r)] | none => .atom "invalid"])
  | .list [.atom "vparse", t] => do
    let t ← cps? t
    pure (match vparse t with | some r => .list [.atom "ok", ofVersion r] | none => .atom "invalid")
  | .list [.atom "vrank", .list vs] => do
    let vs ← vs.mapM version?
    let keys := vs.map cmpkey
    let sorted := listing cmpKey keys
    pure (Sexp.ofNats (keys.map (fun k => sorted.findIdx (fun x => cmpKey k x == .eq))))
  | _ => none

def step (x : Sexp) : Sexp :=
  match x with
  | .list [.atom "tag", a, b, c, d, e] => stepTag a b c d e
  | _ =>
    match stepKeys x with
    | some r => r
    | none =>
      match stepManifest x with
      | some r => r
      | none =>
        match stepLoad x with
        | some r => r
        | none =>
          match stepStore x with
          | some r => r
          | none =>
            match stepValues x with
            | some r => r
            | none => .atom "bad-op"

end C18Drv

def main : IO Unit := driverLoop C18Drv.step
