/-
Line-protocol driver for the C01 model (segment → symbol table, reference interpreter, direct
graph evaluation).

  seg  ::= ((worker*) (edge*) head tail (gid*))
  worker ::= (uid gid actor stateful szin szout)          stateful ::= true | false
  edge ::= (pub pubPort sub a|t|l idx)
  ops:
    (compile seg assets (uid*))        -> (ok (symbol*)) | (error assembly|keyError|assertion|unexpected)
    (run assets (symbol*))             -> (ok ((key val)*) (key*) (key*) agree) | cyclic    vals, trace, sinks, memo==value
    (eval seg assets)                  -> (ok ((uid val)*) none|(some val)) | cyclic
    (dfs seg)                          -> (ok (uid*) <each> connected closed <construct>)   <each> ::= (ok (uid*)) | cyclic
    (construct seg)                    -> <construct> ::= ok | simpleHead | simpleTail | disconnected | cyclic
       `Segment.construct`: what `flow.Segment(head, tail)` does with the graph
       `Segment.visitOrder`; `Segment.each` (the traversal with the recursion path and the `Cyclic` test); the member
       list is the reachable set (`connected`); subscriptions stay inside the member list (`closed`)
    (wf seg assets ((uid rank)*))      -> (ok wf assetsOK)
    (all seg assets (uid*) ((uid rank)*)) -> (all <compile> <run|skip> <eval> <dfs> <wf> <spec>)
       <spec> ::= (describes linked)  compiled table == specTable up to order (false when compile fails); linked
    (all seg assets (uid*) ((uid rank)*) (val*)) -> (all ... <spec> (reruns ((key val)*) ((key val)*)))
       the compiled table executed again on the store its first execution left (`storeSeq 1`), and once more after an
       external commit replaced the previous generation by the given states; `(reruns)` without accessor / on failure
    (all seg assets (uid*) ((uid rank)*) (val*) (val*)) -> … (reruns r2 r3 r4): a fourth execution after a commit from
       outside with the second list of states (`commitExternal`: refused unless one state per persistent group)
-/
import ForML.Model.Sexp
import ForML.Model.SymbolsSexp
import ForML.Model.Compile
import ForML.Model.GraphEval
import ForML.Model.CompileSpec
import ForML.Model.Rerun
import ForML.Model.Traversal
open ForML ForML.Flow

def bool? : Sexp → Option Bool
  | .atom "true" => some true
  | .atom "false" => some false
  | _ => none

def worker? : Sexp → Option Worker
  | .list [u, g, a, st, i, o] => do
    pure ⟨← u.nat?, ← g.nat?, ← a.nat?, ← bool? st, ← i.nat?, ← o.nat?⟩
  | _ => none

def edge? : Sexp → Option Edge
  | .list [p, pp, s, .atom k, i] => do
    let port ← match k with
      | "a" => i.nat?.map InPort.apply
      | "t" => some InPort.train
      | "l" => some InPort.label
      | _ => none
    pure ⟨← p.nat?, ← pp.nat?, ← s.nat?, port⟩
  | _ => none

def segment? : Sexp → Option Segment
  | .list [.list ws, .list es, h, t, x] => do
    pure ⟨← ws.mapM worker?, ← es.mapM edge?, ← h.nat?, ← t.nat?, ← x.natList?⟩
  | _ => none

def rank? : Sexp → Option (Uid → Nat)
  | .list ps => do
    let tbl ← ps.mapM (fun p => match p with | .list [u, r] => do pure ((← u.nat?), (← r.nat?)) | _ => none)
    pure (fun u => ((tbl.find? (fun p => p.1 = u)).map (·.2)).getD 0)
  | _ => none

def cerrName : CErr → String
  | .assembly => "assembly" | .keyError => "keyError" | .assertion => "assertion" | .unexpected => "unexpected"

def compileOut (g : Segment) (A : Option Assets) (order : List Uid) : Sexp :=
  match compile g A order with
  | .ok t => .list [.atom "ok", Table.toSexp t]
  | .error e => .list [.atom "error", .atom (cerrName e)]

/-- keys resolvable in one more round: all arguments already resolved (or not in the table at all) -/
def resolveStep (t : Table) (done : List Key) : List Key :=
  t.foldl (fun d s =>
    if d.contains s.id then d
    else if s.args.all (fun a => d.contains a || !(t.any (fun s' => s'.id == a))) then d ++ [s.id] else d) done

/-- the table has no dependency cycle (driver-side guard only: the interpreter is exponential on cyclic tables) -/
def acyclicTable (t : Table) : Bool :=
  let done := (List.range (t.length + 1)).foldl (fun d _ => resolveStep t d) []
  t.all (fun s => done.contains s.id)

/-- same guard for direct graph evaluation: data edges and the state edges trainer -> other members of its group -/
def acyclicGraph (g : Segment) : Bool :=
  let deps (w : Worker) : List Uid :=
    (g.edges.filter (fun e => e.sub == w.uid)).map (·.pub) ++
      (if g.trained w.uid then [] else
        (g.workers.filter (fun o => o.gid == w.gid && o.uid != w.uid && g.trained o.uid)).map (·.uid))
  let step (done : List Uid) : List Uid :=
    g.workers.foldl (fun d w =>
      if d.contains w.uid then d
      else if (deps w).all (fun p => d.contains p || !(g.uids.contains p)) then d ++ [w.uid] else d) done
  let done := (List.range (g.workers.length + 1)).foldl (fun d _ => step d) []
  g.workers.all (fun w => done.contains w.uid)

def runOut (A : Option Assets) (t : Table) : Sexp :=
  if !acyclicTable t then .atom "cyclic" else
  let m := run A t
  let agree := t.all (fun s =>
    match m.get s.id with
    | some v => toString v.toSexp == toString (Table.value A t t.fuel s.id).toSexp
    | none => false)
  let once := m.trace.length == t.length
  let ms := Memo.toSexp m
  match ms with
  | .list [vals, trace] =>
    .list [.atom "ok", vals, trace, .list (t.sinks.map Key.toSexp), Sexp.ofBool (agree && once)]
  | _ => .atom "internal"

def evalOut (g : Segment) (A : Option Assets) : Sexp :=
  if !acyclicGraph g then .atom "cyclic" else
  let r := g.evalGraph A
  .list [.atom "ok", .list (r.values.map fun (u, v) => .list [.ofNat u, v.toSexp]),
         Sexp.ofOption Val.toSexp r.commit]

def constructOut (g : Segment) : Sexp :=
  match g.construct with
  | .ok () => .atom "ok"
  | .error .simpleHead => .atom "simpleHead"
  | .error .simpleTail => .atom "simpleTail"
  | .error .disconnected => .atom "disconnected"
  | .error .cyclic => .atom "cyclic"

def dfsOut (g : Segment) : Sexp :=
  let each := match g.each with
    | .ok o => Sexp.list [.atom "ok", Sexp.ofNats o]
    | .error .cyclic => .atom "cyclic"
  .list [.atom "ok", Sexp.ofNats g.visitOrder, each, Sexp.ofBool g.connected, Sexp.ofBool g.closed, constructOut g]

def wfOut (g : Segment) (A : Option Assets) (rank : Uid → Nat) : Sexp :=
  .list [.atom "ok", Sexp.ofBool (g.wf rank), Sexp.ofBool (g.assetsOK A)]

def valsOut (m : Memo) : Sexp :=
  match Memo.toSexp m with
  | .list [vals, _] => vals
  | _ => .list []

def rerunOut (g : Segment) (A : Option Assets) (o : List Uid) (ext : List Val) (wrong : Option (List Val)) : Sexp :=
  match compile g A o, A with
  | .ok t, some As =>
    if !acyclicTable t then .list [.atom "reruns"] else
    let A2 := storeSeq A t 1
    let A3 : Option Assets := some { As with prev := ext }
    let r4 := match wrong, storeAfter A3 (run A3 t) with
      | some w, some As4 => [valsOut (run (some (commitExternal As4 w)) t)]
      | _, _ => []
    .list ([.atom "reruns", valsOut (run A2 t), valsOut (run A3 t)] ++ r4)
  | _, _ => .list [.atom "reruns"]

def stepC01 : Sexp → Sexp
  | .list [.atom "compile", seg, assets, order] =>
    match segment? seg, Assets.ofSexp? assets, order.natList? with
    | some g, some A, some o => compileOut g A o
    | _, _, _ => .atom "bad-op"
  | .list [.atom "run", assets, tbl] =>
    match Assets.ofSexp? assets, Table.ofSexp? tbl with
    | some A, some t => runOut A t
    | _, _ => .atom "bad-op"
  | .list [.atom "eval", seg, assets] =>
    match segment? seg, Assets.ofSexp? assets with
    | some g, some A => evalOut g A
    | _, _ => .atom "bad-op"
  | .list [.atom "dfs", seg] =>
    match segment? seg with
    | some g => dfsOut g
    | none => .atom "bad-op"
  | .list [.atom "construct", seg] =>
    match segment? seg with
    | some g => constructOut g
    | none => .atom "bad-op"
  | .list [.atom "wf", seg, assets, rk] =>
    match segment? seg, Assets.ofSexp? assets, rank? rk with
    | some g, some A, some r => wfOut g A r
    | _, _, _ => .atom "bad-op"
  | .list [.atom "all", seg, assets, order, rk, .list ext, .list wrong] =>
    match segment? seg, Assets.ofSexp? assets, order.natList?, rank? rk, ext.mapM Val.ofSexp?, wrong.mapM Val.ofSexp? with
    | some g, some A, some o, some r, some ext, some wrong =>
      match stepC01 (.list [.atom "all", seg, assets, order, rk]) with
      | .list items => .list (items ++ [rerunOut g A o ext (some wrong)])
      | x => x
    | _, _, _, _, _, _ => .atom "bad-op"
  | .list [.atom "all", seg, assets, order, rk, .list ext] =>
    match segment? seg, Assets.ofSexp? assets, order.natList?, rank? rk, ext.mapM Val.ofSexp? with
    | some g, some A, some o, some r, some ext =>
      match stepC01 (.list [.atom "all", seg, assets, order, rk]) with
      | .list items => .list (items ++ [rerunOut g A o ext none])
      | x => x
    | _, _, _, _, _ => .atom "bad-op"
  | .list [.atom "all", seg, assets, order, rk] =>
    match segment? seg, Assets.ofSexp? assets, order.natList?, rank? rk with
    | some g, some A, some o, some r =>
      let c := compileOut g A o
      let rn := match compile g A o with
        | .ok t => runOut A t
        | .error _ => .atom "skip"
      let desc := match compile g A o with
        | .ok t => g.describes A t
        | .error _ => false
      .list [.atom "all", c, rn, evalOut g A, dfsOut g, wfOut g A r,
             .list [Sexp.ofBool desc, Sexp.ofBool (g.linked A)]]
    | _, _, _, _ => .atom "bad-op"
  | _ => .atom "bad-op"

def main : IO Unit := driverLoop stepC01
