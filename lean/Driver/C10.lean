/- Line-protocol driver for the C10 model (ForML.Model.Ordinal).

  optstr ::= none | (s <atom>)
  raw    ::= none | (<pyt> <int> <true|false>)          -- value class, denoted point, bool(value)
  ord    ::= none | (<kind> <once member name>)

  (once optstr)                          → (ok <member>) | (error <Exc>)       Ordinal.__new__
  (extract <bool> optstr)                → (ok none|<member>) | (error <Exc>)  Extract.__new__
  (cast <kind> <pyt>)                    → same | conv | CastError             kind.cast
  (where <member> <kind> raw raw)        → (ok (<cmp> <int>)*) | (error <Exc>) Ordinal.where
  (windows ord ((raw raw)*) (<int>*))    → ((ok <idx>*) | (error <Exc>))*      one launch per window
  (train raw raw)                        → raw                                 Runner.train lower bound
  (chain ord raw (raw*) (<int>*))        → (ok (raw*) ((<idx>*)*)) | (error <Exc>)
        incremental trainings without explicit lower bound: first tag ordinal, the upper bound of each training
        (recorded as the next tag's ordinal), data → lower bounds handed to Feed.load, rows per training

  oncearg ::= none | (s <atom>) | (m <member name>)
  (xwindows <kind>|none oncearg <ships:nat> <cached:bool> ((raw raw)*) (<int>*))
        → (error <Exc>)                              the source constructor (or a round trip) refused
        | (ok ((ok <idx>*) | (error <Exc>))*)        one launch per window
        the whole path: Source.query(ordinal, once) → [cloudpickle/copy round trip]^ships → one launch per window,
        independent readers (cached = false) or ONE feed whose result cache (literal key) starts empty (cached = true)
  (ordinal oncearg)                      → (ok <member> <member after one reconstruction>) | (error <Exc>)
  (xchain <kind>|none oncearg <ships:nat> <cached:bool> <committed:bool> raw (raw*) (<int>*))
        → (ok (raw*) ((<idx>*)*)) | (error <Exc>)
        `chain` over the whole path: source built from `oncearg`, components shipped, read through the result cache
        or not, and — committed = true — every tag (the first one too) written to the registry and read back
        (`Tag.dumps`/`Tag.loads`) before the training that starts from it

  (icast (int <int>) | (str <atom>) | (ratio <int> <nat>) | other)
        → (ok <int>) | CastError                      Integer.cast of a value, exact on unbounded integers

  The model is polymorphic in the ordinal axis; the driver runs it at `Int` (ranks of the kind's domain points).
-/
import ForML.Model.Sexp
import ForML.Model.Ordinal
import ForML.Model.OrdinalShip
import ForML.Model.OrdinalCache
import ForML.Model.OrdinalChain
import ForML.Model.OrdinalInt
open ForML ForML.Ordinal

def optStr? : Sexp → Option (Option String)
  | .atom "none" => some none
  | .list [.atom "s", .atom s] => some (some s)
  | _ => none

def bool? : Sexp → Option Bool
  | .atom "true" => some true
  | .atom "false" => some false
  | _ => none

def kind? : Sexp → Option Kind
  | .atom "integer" => some .integer
  | .atom "float" => some .float
  | .atom "string" => some .string
  | .atom "date" => some .date
  | .atom "timestamp" => some .timestamp
  | _ => none

def pyt? : Sexp → Option PyT
  | .atom "bool" => some .bool
  | .atom "int" => some .int
  | .atom "float" => some .float
  | .atom "decimal" => some .decimal
  | .atom "strGood" => some .strGood
  | .atom "strBad" => some .strBad
  | .atom "date" => some .date
  | .atom "datetime" => some .datetime
  | _ => none

def pytName : PyT → String
  | .bool => "bool" | .int => "int" | .float => "float" | .decimal => "decimal" | .strGood => "strGood"
  | .strBad => "strBad" | .date => "date" | .datetime => "datetime"

/-- member by its exact (lower-case) name, not by alias -/
def member? : Sexp → Option Once
  | .atom s => Once.all.find? (fun m => m.name == s)
  | _ => none

def raw? : Sexp → Option (Option (Raw Int))
  | .atom "none" => some none
  | .list [t, p, b] => do pure (some ⟨← pyt? t, ← p.int?, ← bool? b⟩)
  | _ => none

def ord? : Sexp → Option (Option (Kind × Once))
  | .atom "none" => some none
  | .list [k, m] => do pure (some (← kind? k, ← member? m))
  | _ => none

def win? : Sexp → Option (Option (Raw Int) × Option (Raw Int))
  | .list [a, b] => do pure (← raw? a, ← raw? b)
  | _ => none

def onceArg? : Sexp → Option OnceArg
  | .atom "none" => some .none
  | .list [.atom "s", .atom s] => some (.str s)
  | .list [.atom "m", m] => (member? m).map .member
  | _ => none

def optKind? : Sexp → Option (Option Kind)
  | .atom "none" => some none
  | k => (kind? k).map some

def ofErr (e : Err) : Sexp := .list [.atom "error", .atom e.name]

def ofRaw : Option (Raw Int) → Sexp
  | none => .atom "none"
  | some r => .list [.atom (pytName r.ty), Sexp.ofInt r.pt, Sexp.ofBool r.truthy]

def stepC10 : Sexp → Sexp
  | .list [.atom "once", s] =>
    match optStr? s with
    | some s => match ordinalOnce s with
      | .ok m => .list [.atom "ok", .atom m.name]
      | .error e => ofErr e
    | none => .atom "bad-op"
  | .list [.atom "extract", b, s] =>
    match bool? b, optStr? s with
    | some b, some s => match extractOrdinal b s with
      | .ok none => .list [.atom "ok", .atom "none"]
      | .ok (some m) => .list [.atom "ok", .atom m.name]
      | .error e => ofErr e
    | _, _ => .atom "bad-op"
  | .list [.atom "cast", k, t] =>
    match kind? k, pyt? t with
    | some k, some t => match castRule k t with
      | .same => .atom "same"
      | .conv => .atom "conv"
      | .err => .atom "CastError"
    | _, _ => .atom "bad-op"
  | .list [.atom "where", m, k, lo, hi] =>
    match member? m, kind? k, raw? lo, raw? hi with
    | some m, some k, some lo, some hi => match whereTerms m k lo hi with
      | .ok ts => .list (.atom "ok" :: ts.map (fun t => .list [.atom t.1.name, Sexp.ofInt t.2]))
      | .error e => ofErr e
    | _, _, _, _ => .atom "bad-op"
  | .list [.atom "windows", o, .list ws, d] =>
    match ord? o, ws.mapM win?, d.intList? with
    | some o, some ws, some d =>
      .list (ws.map (fun w => match launch o w.1 w.2 d with
        | .ok idx => .list (.atom "ok" :: idx.map Sexp.ofNat)
        | .error e => ofErr e))
    | _, _, _ => .atom "bad-op"
  | .list [.atom "train", lo, tag] =>
    match raw? lo, raw? tag with
    | some lo, some tag => ofRaw (trainLower lo tag)
    | _, _ => .atom "bad-op"
  | .list [.atom "chain", o, tag, .list us, d] =>
    match ord? o, raw? tag, us.mapM raw?, d.intList? with
    | some o, some tag, some us, some d =>
      match us.mapM id with
      | some us =>
        let wins := trainChain tag us
        match launches o wins d with
        | .ok ls => .list [.atom "ok", .list (wins.map (fun w => ofRaw w.1)),
                           .list (ls.map (fun l => .list (l.map Sexp.ofNat)))]
        | .error e => ofErr e
      | none => .atom "bad-op"
    | _, _, _, _ => .atom "bad-op"
  | .list [.atom "xwindows", k, a, n, c, .list ws, d] =>
    match optKind? k, onceArg? a, n.nat?, bool? c, ws.mapM win?, d.intList? with
    | some k, some a, some n, some c, some ws, some d =>
      let kindOf : Nat → Kind := fun _ => k.getD .integer
      let ordinal : Option Nat := k.map (fun _ => 0)
      let res := if c then sourceWindowsCached kindOf ordinal a n ws d else sourceWindows kindOf ordinal a n ws d
      match res with
      | .error e => ofErr e
      | .ok rs => .list [.atom "ok", .list (rs.map (fun r => match r with
          | .ok idx => .list (.atom "ok" :: idx.map Sexp.ofNat)
          | .error e => ofErr e))]
    | _, _, _, _, _, _ => .atom "bad-op"
  | .list [.atom "xchain", k, a, n, c, p, tag, .list us, d] =>
    match optKind? k, onceArg? a, n.nat?, bool? c, bool? p, raw? tag, us.mapM raw?, d.intList? with
    | some k, some a, some n, some c, some p, some tag, some us, some d =>
      match us.mapM id with
      | some us =>
        let kindOf : Nat → Kind := fun _ => k.getD .integer
        let ordinal : Option Nat := k.map (fun _ => 0)
        let commit : Raw Int → Raw Int := if p then persistRaw else id
        match sourceTrainings kindOf ordinal a n c commit (tag.map commit) (us.map (fun u => (none, u))) d with
        | .error e => ofErr e
        | .ok (lowers, rs) =>
          match rs.findSome? (fun r => match r with | .error e => some e | .ok _ => none) with
          | some e => ofErr e
          | none => .list [.atom "ok", .list (lowers.map ofRaw),
              .list (rs.map (fun r => match r with
                | .ok l => .list (l.map Sexp.ofNat)
                | .error e => ofErr e))]
      | none => .atom "bad-op"
    | _, _, _, _, _, _, _, _ => .atom "bad-op"
  | .list [.atom "icast", b] =>
    let bound : Option IntBound := match b with
      | .list [.atom "int", n] => n.int?.map .int
      | .list [.atom "str", .atom s] => some (.str s.toList)
      | .list [.atom "ratio", n, d] => do pure (.ratio (← n.int?) (← d.nat?))
      | .atom "other" => some .other
      | _ => none
    match bound with
    | some b => match castInteger b with
      | .ok n => .list [.atom "ok", Sexp.ofInt n]
      | .error _ => .atom "CastError"
    | none => .atom "bad-op"
  | .list [.atom "ordinal", a] =>
    match onceArg? a with
    | some a =>
      match OrdinalSpec.new 0 a with
      | .error e => ofErr e
      | .ok o =>
        match o.reconstruct with
        | .error e => ofErr e
        | .ok o' => .list [.atom "ok", .atom o.once.name, .atom o'.once.name]
    | none => .atom "bad-op"
  | _ => .atom "bad-op"

def main : IO Unit := driverLoop stepC10
