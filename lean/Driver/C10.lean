/- Line-protocol driver for the C10 model (ForML.Model.Ordinal).

  optstr ::= none | (s <atom>)
  raw    ::= none | (<pyt> <int> <true|false>)          -- value class, denoted point, bool(value)
  ord    ::= none | (<kind> <once member name>)

  (once optstr)                          → (ok <member>) | (error <Exc>)       Ordinal.__new__
  (extract <bool> optstr)                → (ok none|<member>) | (error <Exc>)  Extract.__new__
  (cast <kind> <pyt>)                    → same | conv | CastError             kind.cast
  (where <member> <kind> raw raw)        → (ok (<cmp> <int>)*) | (error <Exc>) Ordinal.where
  (windows ord ((raw raw)*) (<int>*))    → ((ok <idx>*) | (error <Exc>))*      one launch per window
  (train raw raw)                        → raw                                 Runner.train lower bound
  (chain ord raw (raw*) (<int>*))        → (ok (raw*) ((<idx>*)*)) | (error <Exc>)
        incremental trainings without explicit lower bound: first tag ordinal, the upper bound of each training
        (recorded as the next tag's ordinal), data → lower bounds handed to Feed.load, rows per training

  The model is polymorphic in the ordinal axis; the driver runs it at `Int` (ranks of the kind's domain points).
-/
import ForML.Model.Sexp
import ForML.Model.Ordinal
open ForML ForML.Ordinal

def optStr? : Sexp → Option (Option String)
  | .atom "none" => some none
  | .list [.atom "s", .atom s] => some (some s)
  | _ => none

def bool? : Sexp → Option Bool
  | .atom "true" => some true
  | .atom "false" => some false
  | _ => none

def kind? : Sexp → Option Kind
  | .atom "integer" => some .integer
  | .atom "float" => some .float
  | .atom "string" => some .string
  | .atom "date" => some .date
  | .atom "timestamp" => some .timestamp
  | _ => none

def pyt? : Sexp → Option PyT
  | .atom "bool" => some .bool
  | .atom "int" => some .int
  | .atom "float" => some .float
  | .atom "decimal" => some .decimal
  | .atom "strGood" => some .strGood
  | .atom "strBad" => some .strBad
  | .atom "date" => some .date
  | .atom "datetime" => some .datetime
  | _ => none

def pytName : PyT → String
  | .bool => "bool" | .int => "int" | .float => "float" | .decimal => "decimal" | .strGood => "strGood"
  | .strBad => "strBad" | .date => "date" | .datetime => "datetime"

/-- member by its exact (lower-case) name, not by alias -/
def member? : Sexp → Option Once
  | .atom s => Once.all.find? (fun m => m.name == s)
  | _ => none

def raw? : Sexp → Option (Option (Raw Int))
  | .atom "none" => some none
  | .list [t, p, b] => do pure (some ⟨← pyt? t, ← p.int?, ← bool? b⟩)
  | _ => none

def ord? : Sexp → Option (Option (Kind × Once))
  | .atom "none" => some none
  | .list [k, m] => do pure (some (← kind? k, ← member? m))
  | _ => none

def win? : Sexp → Option (Option (Raw Int) × Option (Raw Int))
  | .list [a, b] => do pure (← raw? a, ← raw? b)
  | _ => none

def ofErr (e : Err) : Sexp := .list [.atom "error", .atom e.name]

def ofRaw : Option (Raw Int) → Sexp
  | none => .atom "none"
  | some r => .list [.atom (pytName r.ty), Sexp.ofInt r.pt, Sexp.ofBool r.truthy]

def stepC10 : Sexp → Sexp
  | .list [.atom "once", s] =>
    match optStr? s with
    | some s => match ordinalOnce s with
      | .ok m => .list [.atom "ok", .atom m.name]
      | .error e => ofErr e
    | none => .atom "bad-op"
  | .list [.atom "extract", b, s] =>
    match bool? b, optStr? s with
    | some b, some s => match extractOrdinal b s with
      | .ok none => .list [.atom "ok", .atom "none"]
      | .ok (some m) => .list [.atom "ok", .atom m.name]
      | .error e => ofErr e
    | _, _ => .atom "bad-op"
  | .list [.atom "cast", k, t] =>
    match kind? k, pyt? t with
    | some k, some t => match castRule k t with
      | .same => .atom "same"
      | .conv => .atom "conv"
      | .err => .atom "CastError"
    | _, _ => .atom "bad-op"
  | .list [.atom "where", m, k, lo, hi] =>
    match member? m, kind? k, raw? lo, raw? hi with
    | some m, some k, some lo, some hi => match whereTerms m k lo hi with
      | .ok ts => .list (.atom "ok" :: ts.map (fun t => .list [.atom t.1.name, Sexp.ofInt t.2]))
      | .error e => ofErr e
    | _, _, _, _ => .atom "bad-op"
  | .list [.atom "windows", o, .list ws, d] =>
    match ord? o, ws.mapM win?, d.intList? with
    | some o, some ws, some d =>
      .list (ws.map (fun w => match launch o w.1 w.2 d with
        | .ok idx => .list (.atom "ok" :: idx.map Sexp.ofNat)
        | .error e => ofErr e))
    | _, _, _ => .atom "bad-op"
  | .list [.atom "train", lo, tag] =>
    match raw? lo, raw? tag with
    | some lo, some tag => ofRaw (trainLower lo tag)
    | _, _ => .atom "bad-op"
  | .list [.atom "chain", o, tag, .list us, d] =>
    match ord? o, raw? tag, us.mapM raw?, d.intList? with
    | some o, some tag, some us, some d =>
      match us.mapM id with
      | some us =>
        let wins := trainChain tag us
        match launches o wins d with
        | .ok ls => .list [.atom "ok", .list (wins.map (fun w => ofRaw w.1)),
                           .list (ls.map (fun l => .list (l.map Sexp.ofNat)))]
        | .error e => ofErr e
      | none => .atom "bad-op"
    | _, _, _, _ => .atom "bad-op"
  | _ => .atom "bad-op"

def main : IO Unit := driverLoop stepC10
