/- Line-protocol driver for the C19 model (ForML.Model.Codec + the generated ENCODERS/DECODERS tables).

  (parse <header>)                 -> (ok (<enc> ...)) | (error badQ)
  (ranges <header>)                -> (ok ((<kind> <q/1000>) ...)) | (error badQ)     [header order]
  (glob <pattern> <name>)          -> true | false
  (match <enc> <enc>)              -> true | false          pattern first
  (encoder (<enc> ...))            -> (some <index into ENCODERS>) | none
  (decoder <enc>)                  -> (some <index into DECODERS>) | none
  (accept <header>)                -> (error badQ) | (some i) | none      parse, then encoder
  (content <header>)               -> (error badQ) | (some i) | none      parse, [0], then decoder
  (csv ((<cell> ...) ...))         -> (<text> (<row> ...))  csvDumps and csvLoads of it
  (jsonfloat <n> <scale>)          -> (<n'> <scale'>)       what the JSON encoders write for n/10^scale
  <enc> ::= (<kind> ((<key> <value>) ...))
-/
import ForML.Model.Sexp
import ForML.Model.Codec
import ForML.Generated.C19Tables
open ForML ForML.Codec

def str? (x : Sexp) : Option Str := x.str?.map String.toList

def ofStr (s : Str) : Sexp := .atom (String.ofList s)

def kv? : Sexp → Option (Str × Str)
  | .list [k, v] => do pure (← str? k, ← str? v)
  | _ => none

def enc? : Sexp → Option Encoding
  | .list [k, .list opts] => do pure ⟨← str? k, ← opts.mapM kv?⟩
  | _ => none

def ofEnc (e : Encoding) : Sexp :=
  .list [ofStr e.kind, .list (e.options.map fun (k, v) => .list [ofStr k, ofStr v])]

def ofIdx : Option Nat → Sexp
  | none => .atom "none"
  | some i => .list [.atom "some", Sexp.ofNat i]

def badQ : Sexp := .list [.atom "error", .atom "badQ"]

def stepC19 : Sexp → Sexp
  | .list [.atom "parse", h] =>
    match str? h with
    | some h => match parse h with
      | .ok es => .list [.atom "ok", .list (es.map ofEnc)]
      | .error .badQ => badQ
    | none => .atom "bad-op"
  | .list [.atom "ranges", h] =>
    match str? h with
    | some h => match ranges h with
      | .ok rs => .list [.atom "ok", .list (rs.map fun r => .list [ofStr r.kind, Sexp.ofInt r.q])]
      | .error .badQ => badQ
    | none => .atom "bad-op"
  | .list [.atom "glob", p, n] =>
    match str? p, str? n with
    | some p, some n => Sexp.ofBool (glob p n)
    | _, _ => .atom "bad-op"
  | .list [.atom "match", p, c] =>
    match enc? p, enc? c with
    | some p, some c => Sexp.ofBool (p.matches c)
    | _, _ => .atom "bad-op"
  | .list [.atom "encoder", .list ts] =>
    match ts.mapM enc? with
    | some ts => ofIdx (getEncoder Tables.encoders ts)
    | none => .atom "bad-op"
  | .list [.atom "decoder", s] =>
    match enc? s with
    | some s => ofIdx (getDecoder Tables.decoders s)
    | none => .atom "bad-op"
  | .list [.atom "accept", h] =>
    match str? h with
    | some h => match parse h with
      | .ok es => ofIdx (getEncoder Tables.encoders es)
      | .error .badQ => badQ
    | none => .atom "bad-op"
  | .list [.atom "content", h] =>
    match str? h with
    | some h => match parse h with
      | .ok (e :: _) => ofIdx (getDecoder Tables.decoders e)
      | .ok [] => .atom "empty"   -- unreachable: a header always has at least one item
      | .error .badQ => badQ
    | none => .atom "bad-op"
  | .list [.atom "csv", .list rows] =>
    match rows.mapM (fun r => match r with | .list cs => cs.mapM str? | _ => none) with
    | some rows =>
      let text := csvDumps rows
      .list [ofStr text, .list ((csvLoads text).map fun r => .list (r.map ofStr))]
    | none => .atom "bad-op"
  | .list [.atom "jsonfloat", n, k] =>
    match n.nat?, k.nat? with
    | some n, some k => let r := (Dec.mk n k).jsonRender; .list [Sexp.ofNat r.n, Sexp.ofNat r.scale]
    | _, _ => .atom "bad-op"
  | _ => .atom "bad-op"

def main : IO Unit := driverLoop stepC19
