/- Line-protocol driver for the C19 model (ForML.Model.Codec + the generated ENCODERS/DECODERS tables).

  (parse <header>)                 -> (ok (<enc> ...)) | (error badQ)
  (ranges <header>)                -> (ok ((<kind> <q/1000>) ...)) | (error badQ)     [header order]
  (glob <pattern> <name>)          -> true | false
  (match <enc> <enc>)              -> true | false          pattern first
  (encoder (<enc> ...))            -> (some <index into ENCODERS>) | none
  (decoder <enc>)                  -> (some <index into DECODERS>) | none
  (accept <header>)                -> (error badQ) | (some i) | none      parse, then encoder
  (content <header>)               -> (error badQ) | (some i) | none      parse, [0], then decoder
  (csv ((<cell> ...) ...))         -> (<text> (<row> ...))  csvDumps and csvLoads of it
  (jsonfloat <n> <scale>)          -> (<n'> <scale'>)       what the JSON encoders write for n/10^scale
  (render (<range> ...))           -> (<wf> <wfRfc> (<code point> ...) <ranges>)   renderHeader of the concrete syntax, its meaning
                                      <ranges> ::= (ok ((<kind> ((<key> <value>) ...) <q/1000>) ...)) | (error badQ)
  (qspell <w1> <sign> <int> <frac> <w2>) -> (<wf> (<code point> ...) <value/1000>)   sign: none|plus|minus, frac: none|(some <digits>)
  (parseq <text>)                  -> (some <q/1000>) | none
  (header <enc>)                   -> (<code point> ...)    Encoding.header
  (gateway <ct> <accept>)          -> (ok <encoder> <decoder>) | unsupported | error     header: none | (some <text>)
  (table <pair> (<column> ...))    -> (<wf> <verdict> <text> <decoded>)    pair: csv | records | columns
                                      <text>: (<code point> ...) of the csv text, `none` for the JSON pairs
                                      <decoded>: same | differs | refused     model decode of the model encoding vs the table
  (columnsdoc ((<name> ((<label> <cell>) ...)) ...)) -> (ok ((<name> (<cell> ...)) ...)) | refused     a client's columns-layout
                                      document through the plain application/json decoder (rows in document order)
  (csvread <text>)                 -> ((<field> ...) ...)                  the record / field tokeniser of read_csv
  (infer (<field> ...))            -> (<numbers|bools|texts> (<cell> ...)) type inference of one column
  (schemas <keyed> (<frame> ...))  -> (<result> ...)      Pandas.Schema.from_frame over the frames of one process
                                      keyed: items | dtypes; <frame> ::= ((<name> ...) (<dtype> ...) <empty: true|false> [<untypable: true|false>])
                                      <result> ::= (schema (<name> ...)) | empty-frame | untypable
  <column> ::= (<name> <int|float|str|bool> (<cell> ...))
  <cell> ::= (i <int>) | (f <neg: true|false> <n> <scale>) | (t <text>) | (b <true|false>) | null | (inf <neg>)
  <enc> ::= (<kind> ((<key> <value>) ...))      in answers a text with control characters is (%%codes%% <code point> ...)
  <range> ::= (<w0> <kind> (<param> ...) <wEnd>)
  <param> ::= (kv <pre> <w1> <name> <w2> <w3> <value> <quoted: true|false>) | (flag <pre> <w1> <text>)
-/
import ForML.Model.Sexp
import ForML.Model.Codec
import ForML.Model.CodecHeader
import ForML.Model.CodecTable
import ForML.Generated.C19Tables
open ForML ForML.Codec

def str? (x : Sexp) : Option Str := x.str?.map String.toList

/-- a text as an atom; with control characters (the harness reads the answers in text mode, which would turn a CR into a
line break) as `(%%codes%% <code point> ...)` -/
def ofStr (s : Str) : Sexp :=
  if s.any (fun c => c.toNat < 32 || c.toNat == 127) then .list (.atom "%%codes%%" :: s.map fun c => Sexp.ofNat c.toNat)
  else .atom (String.ofList s)

def kv? : Sexp → Option (Str × Str)
  | .list [k, v] => do pure (← str? k, ← str? v)
  | _ => none

def enc? : Sexp → Option Encoding
  | .list [k, .list opts] => do pure ⟨← str? k, ← opts.mapM kv?⟩
  | _ => none

def ofEnc (e : Encoding) : Sexp :=
  .list [ofStr e.kind, .list (e.options.map fun (k, v) => .list [ofStr k, ofStr v])]

def ofIdx : Option Nat → Sexp
  | none => .atom "none"
  | some i => .list [.atom "some", Sexp.ofNat i]

def badQ : Sexp := .list [.atom "error", .atom "badQ"]

def bool? : Sexp → Option Bool
  | .atom "true" => some true
  | .atom "false" => some false
  | _ => none

def param? : Sexp → Option ParamSpec
  | .list [.atom "kv", pre, w1, name, w2, w3, value, quoted] => do
    pure (.kv (← str? pre) (← str? w1) (← str? name) (← str? w2) (← str? w3) (← str? value) (← bool? quoted))
  | .list [.atom "flag", pre, w1, text] => do pure (.flag (← str? pre) (← str? w1) (← str? text))
  | _ => none

def rangeSpec? : Sexp → Option RangeSpec
  | .list [w0, kind, .list ps, wEnd] => do pure ⟨← str? w0, ← str? kind, ← ps.mapM param?, ← str? wEnd⟩
  | _ => none

def ofCodes (s : Str) : Sexp := .list (s.map fun c => Sexp.ofNat c.toNat)

def ofOpts (o : Options) : Sexp := .list (o.map fun (k, v) => .list [ofStr k, ofStr v])

def optStr? : Sexp → Option (Option Str)
  | .atom "none" => some none
  | .list [.atom "some", t] => (str? t).map some
  | _ => none

def val? : Sexp → Option Val
  | .atom "null" => some .null
  | .list [.atom "i", i] => i.int?.map .int
  | .list [.atom "f", neg, n, k] => do pure (.float (← bool? neg) ⟨← n.nat?, ← k.nat?⟩)
  | .list [.atom "t", t] => (str? t).map .text
  | .list [.atom "b", b] => (bool? b).map .bool
  | .list [.atom "inf", neg] => (bool? neg).map .inf
  | _ => none

def ofVal : Val → Sexp
  | .null => .atom "null"
  | .int i => .list [.atom "i", Sexp.ofInt i]
  | .float neg d => .list [.atom "f", Sexp.ofBool neg, Sexp.ofNat d.n, Sexp.ofNat d.scale]
  | .text t => .list [.atom "t", ofStr t]
  | .bool b => .list [.atom "b", Sexp.ofBool b]
  | .inf neg => .list [.atom "inf", Sexp.ofBool neg]

def kind? : Sexp → Option Kind
  | .atom "int" => some .int
  | .atom "float" => some .float
  | .atom "str" => some .str
  | .atom "bool" => some .bool
  | _ => none

def column? : Sexp → Option Column
  | .list [n, k, .list cells] => do pure ⟨← str? n, ← kind? k, ← cells.mapM val?⟩
  | _ => none

def ofVerdict : Verdict → Sexp
  | .same => .atom "same"
  | .empty => .atom "empty"
  | .csvRetyped => .atom "csv-retyped"
  | .csvCR => .atom "csv-cr"
  | .csvBlankLine => .atom "csv-blank-line"
  | .jsonRounded => .atom "json-rounded"
  | .jsonSniffed => .atom "json-sniffed"
  | .jsonNullObject => .atom "json-null-object"

def decoded (t : Table) (f : Option Frame) : Sexp :=
  match f with
  | none => .atom "refused"
  | some f => if f.isEmpty || f.any (fun c => c.2.isEmpty) then .atom "refused"   -- `Schema.from_frame`: Empty frame
    else .atom (if (Frame.table f (t.cols.map (·.kind))).same t then "same" else "differs")

def frameSig? : Sexp → Option FrameSig
  | .list [.list ns, .list ds, e] => do pure ⟨← ns.mapM str?, ← ds.mapM str?, ← bool? e, false⟩
  | .list [.list ns, .list ds, e, u] => do pure ⟨← ns.mapM str?, ← ds.mapM str?, ← bool? e, ← bool? u⟩
  | _ => none

def ofSchemaResult : SchemaResult → Sexp
  | .schema ns => .list [.atom "schema", .list (ns.map ofStr)]
  | .emptyFrame => .atom "empty-frame"
  | .untypable => .atom "untypable"

def stepC19 : Sexp → Sexp
  | .list [.atom "parse", h] =>
    match str? h with
    | some h => match parse h with
      | .ok es => .list [.atom "ok", .list (es.map ofEnc)]
      | .error .badQ => badQ
    | none => .atom "bad-op"
  | .list [.atom "ranges", h] =>
    match str? h with
    | some h => match ranges h with
      | .ok rs => .list [.atom "ok", .list (rs.map fun r => .list [ofStr r.kind, Sexp.ofInt r.q])]
      | .error .badQ => badQ
    | none => .atom "bad-op"
  | .list [.atom "glob", p, n] =>
    match str? p, str? n with
    | some p, some n => Sexp.ofBool (glob p n)
    | _, _ => .atom "bad-op"
  | .list [.atom "match", p, c] =>
    match enc? p, enc? c with
    | some p, some c => Sexp.ofBool (p.matches c)
    | _, _ => .atom "bad-op"
  | .list [.atom "encoder", .list ts] =>
    match ts.mapM enc? with
    | some ts => ofIdx (getEncoder Tables.encoders ts)
    | none => .atom "bad-op"
  | .list [.atom "decoder", s] =>
    match enc? s with
    | some s => ofIdx (getDecoder Tables.decoders s)
    | none => .atom "bad-op"
  | .list [.atom "accept", h] =>
    match str? h with
    | some h => match parse h with
      | .ok es => ofIdx (getEncoder Tables.encoders es)
      | .error .badQ => badQ
    | none => .atom "bad-op"
  | .list [.atom "content", h] =>
    match str? h with
    | some h => match parse h with
      | .ok (e :: _) => ofIdx (getDecoder Tables.decoders e)
      | .ok [] => .atom "empty"   -- unreachable: a header always has at least one item
      | .error .badQ => badQ
    | none => .atom "bad-op"
  | .list [.atom "csv", .list rows] =>
    match rows.mapM (fun r => match r with | .list cs => cs.mapM str? | _ => none) with
    | some rows =>
      let text := csvDumps rows
      .list [ofStr text, .list ((csvLoads text).map fun r => .list (r.map ofStr))]
    | none => .atom "bad-op"
  | .list [.atom "jsonfloat", n, k] =>
    match n.nat?, k.nat? with
    | some n, some k => let r := (Dec.mk n k).jsonRender; .list [Sexp.ofNat r.n, Sexp.ofNat r.scale]
    | _, _ => .atom "bad-op"
  | .list [.atom "render", .list rs] =>
    match rs.mapM rangeSpec? with
    | some rs =>
      let sem : Sexp := match specRanges rs with
        | .ok xs => .list [.atom "ok", .list (xs.map fun r => .list [ofStr r.kind, ofOpts r.params, Sexp.ofInt r.q])]
        | .error .badQ => badQ
      .list [Sexp.ofBool (rs.all RangeSpec.wf), Sexp.ofBool (rs.all RangeSpec.wfRfc), ofCodes (renderHeader rs), sem]
    | none => .atom "bad-op"
  | .list [.atom "qspell", w1, sign, int, frac, w2] =>
    let sign? : Option (Option Bool) := match sign with
      | .atom "none" => some none
      | .atom "plus" => some (some false)
      | .atom "minus" => some (some true)
      | _ => none
    match str? w1, sign?, str? int, optStr? frac, str? w2 with
    | some w1, some sg, some i, some fr, some w2 =>
      let q : QSpec := ⟨w1, sg, i, fr, w2⟩
      .list [Sexp.ofBool q.wf, ofCodes q.render, Sexp.ofInt q.value]
    | _, _, _, _, _ => .atom "bad-op"
  | .list [.atom "parseq", t] =>
    match str? t with
    | some t => Sexp.ofOption Sexp.ofInt (parseQ t)
    | none => .atom "bad-op"
  | .list [.atom "header", e] =>
    match enc? e with
    | some e => ofCodes e.header
    | none => .atom "bad-op"
  | .list [.atom "gateway", ct, acc] =>
    match optStr? ct, optStr? acc with
    | some ct, some acc =>
      match gateway Tables.encoders Tables.decoders ct acc with
      | .ok e d => .list [.atom "ok", Sexp.ofNat e, Sexp.ofNat d]
      | .unsupported => .atom "unsupported"
      | .serverError => .atom "error"
    | _, _ => .atom "bad-op"
  | .list [.atom "table", .atom pair, .list cols] =>
    match cols.mapM column? with
    | some cols =>
      let t : Table := ⟨cols⟩
      match pair with
      | "csv" => .list [Sexp.ofBool t.wf, ofVerdict t.csvVerdict, ofCodes t.csv, decoded t (csvDecode t.csv)]
      | "records" => .list [Sexp.ofBool t.wf, ofVerdict (t.jsonVerdict false), .atom "none", decoded t (jsonDecode t.jsonRecords)]
      | "columns" => .list [Sexp.ofBool t.wf, ofVerdict (t.jsonVerdict true), .atom "none", decoded t (jsonDecode t.jsonColumns)]
      | _ => .atom "bad-op"
    | none => .atom "bad-op"
  | .list [.atom "columnsdoc", .list ms] =>
    let member? : Sexp → Option (Str × JVal) := fun m => match m with
      | .list [n, .list cells] => do
        let cs ← cells.mapM fun c => match c with
          | .list [l, v] => do pure ((← str? l), jsonCell false (← val? v))
          | _ => none
        pure ((← str? n), JVal.obj cs)
      | _ => none
    match ms.mapM member? with
    | some ms =>
      match jsonDecode (.obj ms) with
      | some f => .list [.atom "ok", .list (f.map fun c => .list [ofStr c.1, .list (c.2.map ofVal)])]
      | none => .atom "refused"
    | none => .atom "bad-op"
  | .list [.atom "csvread", t] =>
    match str? t with
    | some t => .list ((csvRead t).map fun r => .list (r.map ofStr))
    | none => .atom "bad-op"
  | .list [.atom "infer", .list fs] =>
    match fs.mapM str? with
    | some fs =>
      let k := match inferKind fs with | .numbers => "numbers" | .bools => "bools" | .texts => "texts"
      .list [.atom k, .list ((readColumn fs).map ofVal)]
    | none => .atom "bad-op"
  | .list [.atom "schemas", .atom keyed, .list fs] =>
    match fs.mapM frameSig? with
    | some fs =>
      match keyed with
      | "items" => .list ((runFrames keyItems [] fs).map ofSchemaResult)
      | "dtypes" => .list ((runFrames keyDtypes [] fs).map ofSchemaResult)
      | _ => .atom "bad-op"
    | none => .atom "bad-op"
  | _ => .atom "bad-op"

def main : IO Unit := driverLoop stepC19
