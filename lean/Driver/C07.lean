/- Line-protocol driver for the C07 model (ForML.Model.Grammar).

   (stmt SRC)  →  (stmt RESULT SCHEMA WF SAME (NORMAL TAME RESOLVABLE PLAIN))
       RESULT = (ok STORED) | (error grammar|lookup|recursion|illtyped)   `construct implEqv SRC` (hash equality, free environment)
       SCHEMA = (ok ((name kind)…)) | (error E) | none                    `.schema` of the constructed statement
       WF     = true | false                                              the documented grammar `WellFormed SRC`
       SAME   = true | false                                              `construct structEqv SRC` gives the same result
       NORMAL, TAME, RESOLVABLE, PLAIN = true | false                     the hypotheses of the partial theorems of Props/C07
   every line may be wrapped as (let ((x sexp) …) body), `$x` atoms are substituted (see ForML.Model.Dsl).
   A table with a repeated field name is not a `dsl.Schema` → bad-op. -/
import ForML.Model.Sexp
import ForML.Model.Dsl
import ForML.Model.DslEq
import ForML.Model.Grammar
open ForML ForML.Dsl

def errSexp : CtorErr → Sexp
  | .grammar => .atom "grammar"
  | .lookup => .atom "lookup"
  | .recursion => .atom "recursion"
  | .illtyped => .atom "illtyped"

def distinctNames (fs : Fields) : Bool := (fs.map (·.1)).eraseDups.length == fs.length

mutual
partial def tablesOkF : Feature → Bool
  | .lit _ => true
  | .elem o _ => tablesOkS o
  | .alias f _ => tablesOkF f
  | .expr _ args => args.toList.all tablesOkF
  | .cast f _ => tablesOkF f
  | .window fn ps os => tablesOkF fn && ps.toList.all tablesOkF && os.toList.all (fun o => tablesOkF o.feature)
partial def tablesOkS : Source → Bool
  | .table _ fs => distinctNames fs
  | .ref i _ => tablesOkS i
  | .join l r _ c => tablesOkS l && tablesOkS r && (c.toOption.all tablesOkF)
  | .set l r _ => tablesOkS l && tablesOkS r
  | .query s sel pre grp post ord _ =>
    tablesOkS s && sel.toList.all tablesOkF && pre.toOption.all tablesOkF && grp.toList.all tablesOkF &&
      post.toOption.all tablesOkF && ord.toList.all (fun o => tablesOkF o.feature)
end

def sameRes : R Source → R Source → Bool
  | .ok a, .ok b => decide (a = b)
  | .error a, .error b => decide (a = b)
  | _, _ => false

def stepC07 (line : Sexp) : Sexp :=
  match expandLet line with
  | none => .atom "bad-op"
  | some x =>
    match x with
    | .list [.atom "stmt", s] =>
      match Source.ofSexp s with
      | none => .atom "bad-op"
      | some r =>
        if !tablesOkS r then .atom "bad-op" else
        let res := construct implEqv r
        let same := sameRes (construct structEqv r) res
        let (rs, sch) : Sexp × Sexp := match res with
          | .error e => (.list [.atom "error", errSexp e], .atom "none")
          | .ok st =>
            (.list [.atom "ok", st.toSexp],
              match st.schemaOf with
              | .ok fs => .list [.atom "ok", fieldsToSexp fs]
              | .error e => .list [.atom "error", errSexp e])
        .list [.atom "stmt", rs, sch, Sexp.ofBool (Source.wf r), Sexp.ofBool same,
          .list [Sexp.ofBool r.normal, Sexp.ofBool r.tame, Sexp.ofBool r.resolvable, Sexp.ofBool r.plain]]

    | _ => .atom "bad-op"

def main : IO Unit := driverLoop stepC07
