/- Line-protocol driver for the C07 model (ForML.Model.Grammar, GrammarApi).

   (stmt SRC)  →  (stmt RESULT SCHEMA WF SAME (NORMAL TAME RESOLVABLE PLAIN) (DUPTABLE UNNAMED DUPLICATE UNKINDED UNKNOWN ILLTYPED))
       RESULT = (ok STORED) | (error grammar|lookup|recursion|illtyped)   `construct implEqv SRC` (hash equality, free environment)
       SCHEMA = (ok ((name kind)…)) | (error E) | none                    `.schema` of the constructed statement
       WF     = true | false                                              the documented grammar `WellFormed SRC.norm`
       SAME   = true | false                                              `construct structEqv SRC` gives the same result
       NORMAL, TAME, RESOLVABLE, PLAIN = true | false                     the hypotheses of the partial theorems of Props/C07
       DUPTABLE … ILLTYPED                                                the regions of Model/GrammarNorm on `SRC.norm`
   (reflect PY)               →  (reflect (ok KIND) | (error illtyped))    `kind.reflect`
   (direction DIRARG)         →  (direction (ok asc|desc) | (error illtyped))   `Ordering.Direction(value)`
   (orderings TERM*)          →  (orderings (ok (ORD*)) | (error E))       `tuple(Ordering.make(*terms))` (features as given)
   (api (chain SRC OP*))      →  (api RESULT SCHEMA SAME)                  SRC constructed, then the calls one by one
   (api (join L R KINDARG C)) →  (api RESULT SCHEMA SAME)                  `dsl.Join(L, R, kind, C)`
       OP      = (select F*) | (where F) | (having F) | (groupby F*) | (orderby TERM*) | (limit COUNT OFFSET)
       TERM    = (feat F) | (dir DIRARG) | (pair F DIRARG) | (ordering F asc|desc) | (junk)
       DIRARG  = (enum asc|desc) | (str S) | (none)
       KINDARG = (enum KIND) | (str S) | (none)
   literals: besides `(lit (int n)|(bool b)|(str s)|(float r))` every line may contain `(lit (py PY))`,
       PY = (bool b) | (int n) | (float r) | (str s) | (decimal r) | (date iso) | (datetime iso) | (none) | (emptyseq) | (seq PY);
       it is replaced by `literalOf PY` (a failing reflection makes the whole line `(error illtyped)`).
   every line may be wrapped as (let ((x sexp) …) body), `$x` atoms are substituted (see ForML.Model.Dsl).
   A table with a repeated field name is not a `dsl.Schema` → bad-op. -/
import ForML.Model.Sexp
import ForML.Model.Dsl
import ForML.Model.DslEq
import ForML.Model.Grammar
import ForML.Model.GrammarNorm
import ForML.Model.GrammarApi
open ForML ForML.Dsl

def errSexp : CtorErr → Sexp
  | .grammar => .atom "grammar"
  | .lookup => .atom "lookup"
  | .recursion => .atom "recursion"
  | .illtyped => .atom "illtyped"

def distinctNames (fs : Fields) : Bool := (fs.map (·.1)).eraseDups.length == fs.length

mutual
partial def tablesOkF : Feature → Bool
  | .lit _ => true
  | .elem o _ => tablesOkS o
  | .alias f _ => tablesOkF f
  | .expr _ args => args.toList.all tablesOkF
  | .cast f _ => tablesOkF f
  | .window fn ps os => tablesOkF fn && ps.toList.all tablesOkF && os.toList.all (fun o => tablesOkF o.feature)
partial def tablesOkS : Source → Bool
  | .table _ fs => distinctNames fs
  | .ref i _ => tablesOkS i
  | .join l r _ c => tablesOkS l && tablesOkS r && (c.toOption.all tablesOkF)
  | .set l r _ => tablesOkS l && tablesOkS r
  | .query s sel pre grp post ord _ =>
    tablesOkS s && sel.toList.all tablesOkF && pre.toOption.all tablesOkF && grp.toList.all tablesOkF &&
      post.toOption.all tablesOkF && ord.toList.all (fun o => tablesOkF o.feature)
end

def sameRes : R Source → R Source → Bool
  | .ok a, .ok b => decide (a = b)
  | .error a, .error b => decide (a = b)
  | _, _ => false

/-! ### python values and literals -/

partial def pyOfSexp : Sexp → Option PyVal
  | .list [.atom "bool", .atom "true"] => some (.bool true)
  | .list [.atom "bool", .atom "false"] => some (.bool false)
  | .list [.atom "int", n] => n.int?.map .int
  | .list [.atom "float", .atom r] => some (.float r)
  | .list [.atom "str", .atom s] => some (.str s)
  | .list [.atom "decimal", .atom r] => some (.decimal r)
  | .list [.atom "date", .atom i] => some (.date i)
  | .list [.atom "datetime", .atom i] => some (.datetime i)
  | .list [.atom "none"] => some .none
  | .list [.atom "emptyseq"] => some .emptySeq
  | .list [.atom "seq", x] => (pyOfSexp x).map .seq
  | _ => none

inductive Rewrite where
  | ok (x : Sexp)
  | bad              -- not parseable
  | raised           -- `Literal(value)` raised (`reflect`: ValueError)

instance : Inhabited Rewrite := ⟨.bad⟩

/-- replace every `(lit (py PY))` by the feature `literalOf PY` -/
partial def rewriteLits : Sexp → Rewrite
  | .list [.atom "lit", .list [.atom "py", p]] =>
    match pyOfSexp p with
    | none => .bad
    | some v =>
      match literalOf v with
      | .ok f => .ok f.toSexp
      | .error _ => .raised
  | .list xs =>
    let rec go (xs : List Sexp) (acc : Array Sexp) : Rewrite :=
      match xs with
      | [] => .ok (.list acc.toList)
      | x :: rest =>
        match rewriteLits x with
        | .ok y => go rest (acc.push y)
        | .bad => .bad
        | .raised => .raised
    go xs #[]
  | x => .ok x

/-! ### API arguments -/

def dirArgOfSexp : Sexp → Option DirArg
  | .list [.atom "enum", .atom d] => (Dir.ofWire d).map .enum
  | .list [.atom "str", .atom s] => some (.str s)
  | .list [.atom "none"] => some .none
  | _ => none

def joinKindArgOfSexp : Sexp → Option JoinKindArg
  | .list [.atom "enum", .atom k] => (JoinKind.ofWire k).map .enum
  | .list [.atom "str", .atom s] => some (.str s)
  | .list [.atom "none"] => some .none
  | _ => none

/-- a term with its feature still a script -/
def termOfSexp : Sexp → Option OTerm
  | .list [.atom "feat", f] => (Feature.ofSexp f).map .feat
  | .list [.atom "dir", a] => (dirArgOfSexp a).map .dir
  | .list [.atom "pair", f, a] => do pure (.pair (← Feature.ofSexp f) (← dirArgOfSexp a))
  | .list [.atom "ordering", f, .atom d] => do pure (.ordering (.mk (← Feature.ofSexp f) (← Dir.ofWire d)))
  | .list [.atom "junk"] => some .junk
  | _ => none

def opOfSexp : Sexp → Option QOp
  | .list (.atom "select" :: fs) => (fs.mapM Feature.ofSexp).map .select
  | .list [.atom "where", f] => (Feature.ofSexp f).map .where_
  | .list [.atom "having", f] => (Feature.ofSexp f).map .having
  | .list (.atom "groupby" :: fs) => (fs.mapM Feature.ofSexp).map .groupby
  | .list (.atom "orderby" :: ts) => (ts.mapM termOfSexp).map .orderby
  | .list [.atom "limit", c, o] => do pure (.limit (← c.int?) (← o.int?))
  | _ => none

variable (eqv : Feature → Feature → Bool)

/-- the features of a term are built before the call -/
def constructTerm : OTerm → R OTerm
  | .feat f => do pure (.feat (← f.construct eqv))
  | .pair f a => do pure (.pair (← f.construct eqv) a)
  | .ordering (.mk f d) => do
    -- `dsl.Ordering(feature, direction)` is itself a call: `Operable.ensure_is`
    let f' ← f.construct eqv
    let o ← mkOrdering f' d
    pure (.ordering o)
  | t => pure t

def constructOp : QOp → R QOp
  | .select fs => do pure (.select (← fs.mapM (Feature.construct eqv)))
  | .where_ c => do pure (.where_ (← c.construct eqv))
  | .having c => do pure (.having (← c.construct eqv))
  | .groupby fs => do pure (.groupby (← fs.mapM (Feature.construct eqv)))
  | .orderby ts => do pure (.orderby (← ts.mapM (constructTerm eqv)))
  | .limit c o => pure (.limit c o)

/-- `src.<op1>(…).<op2>(…)…`: the arguments of each call are evaluated right before it -/
def runCalls (c : Source) : List QOp → R Source
  | [] => pure c
  | op :: ops => do
    let op' ← constructOp eqv op
    let c' ← c.applyOp eqv op'
    runCalls c' ops

def apiEval (x : Sexp) : Option (R Source) :=
  match x with
  | .list (.atom "chain" :: s :: ops) => do
    let src ← Source.ofSexp s
    let ops' ← ops.mapM opOfSexp
    some (do
      let c ← src.construct eqv
      runCalls eqv c ops')
  | .list [.atom "join", l, r, a, c] => do
    let l' ← Source.ofSexp l
    let r' ← Source.ofSexp r
    let a' ← joinKindArgOfSexp a
    let c' ← FeatureOpt.ofSexp c
    some (do
      let lc ← l'.construct eqv
      let rc ← r'.construct eqv
      let cc ← c'.construct eqv
      joinNew eqv lc rc a' cc.toOption)
  | _ => none

def resSexp (res : R Source) : Sexp × Sexp :=
  match res with
  | .error e => (.list [.atom "error", errSexp e], .atom "none")
  | .ok st =>
    (.list [.atom "ok", st.toSexp],
      match st.schemaOf with
      | .ok fs => .list [.atom "ok", fieldsToSexp fs]
      | .error e => .list [.atom "error", errSexp e])

def kindResSexp : R Kind → Sexp
  | .ok k => .list [.atom "ok", k.toSexp]
  | .error e => .list [.atom "error", errSexp e]

def stepC07 (line : Sexp) : Sexp :=
  match expandLet line with
  | none => .atom "bad-op"
  | some x0 =>
    match x0 with
    | .list [.atom "reflect", p] =>
      match pyOfSexp p with
      | none => .atom "bad-op"
      | some v => .list [.atom "reflect", kindResSexp (reflect v)]
    | .list [.atom "direction", a] =>
      match dirArgOfSexp a with
      | none => .atom "bad-op"
      | some a' =>
        .list [.atom "direction", match a'.direction with
          | .ok d => .list [.atom "ok", .atom d.wire]
          | .error e => .list [.atom "error", errSexp e]]
    | _ =>
    match rewriteLits x0 with
    | .bad => .atom "bad-op"
    | .raised =>
      match x0 with
      | .list [.atom "stmt", _] =>
        .list [.atom "stmt", .list [.atom "error", errSexp .illtyped], .atom "none", .atom "false", .atom "true",
          .list [], .list []]
      | .list [.atom "api", _] => .list [.atom "api", .list [.atom "error", errSexp .illtyped], .atom "none", .atom "true"]
      | _ => .atom "bad-op"
    | .ok x =>
    match x with
    | .list [.atom "stmt", s] =>
      match Source.ofSexp s with
      | none => .atom "bad-op"
      | some r =>
        if !tablesOkS r then .atom "bad-op" else
        let res := construct implEqv r
        let same := sameRes (construct structEqv r) res
        let (rs, sch) := resSexp res
        let d := r.norm
        .list [.atom "stmt", rs, sch, Sexp.ofBool (Source.wf d), Sexp.ofBool same,
          .list [Sexp.ofBool r.normal, Sexp.ofBool d.tame, Sexp.ofBool d.resolvable, Sexp.ofBool d.plain],
          .list [Sexp.ofBool d.dupTable, Sexp.ofBool d.unnamedAt, Sexp.ofBool d.duplicateAt, Sexp.ofBool d.unkindedAt,
            Sexp.ofBool d.unknownElement, Sexp.ofBool d.illTypedCall]]
    | .list (.atom "orderings" :: ts) =>
      match ts.mapM termOfSexp with
      | none => .atom "bad-op"
      | some ts' =>
        .list [.atom "orderings", match makeOrderings ts' with
          | .ok os => .list [.atom "ok", .list (os.map Ordering.toSexp)]
          | .error e => .list [.atom "error", errSexp e]]
    | .list [.atom "api", a] =>
      match apiEval implEqv a, apiEval structEqv a with
      | some res, some res' =>
        let (rs, sch) := resSexp res
        .list [.atom "api", rs, sch, Sexp.ofBool (sameRes res' res)]
      | _, _ => .atom "bad-op"
    | _ => .atom "bad-op"

def main : IO Unit := driverLoop stepC07
