/- Line-protocol driver for the C06 models (ForML.Model.Parser, ForML.Model.ParserHints, ForML.Model.DslDenote,
   ForML.Model.FeedCache).

  line   ::= (let ((var sexp)*) op) | op
  op     ::= (sugar pyexpr)                       -> (some feature) | none     what the Python expression constructs
           | (parse sources stmt)                 -> (ok <agrees-with-compile>) | (error <kind>)
           | (run sources stmt db)                -> ((parse ok|<kind> wf|not-wf balanced|unbalanced) (sql <rel>|none) (denote <rel>|none))
           | (hist (feed*) (db*) (hop*))          -> ((run (<rel>|none)*) (spec (<rel>|none)*))   one entry per read
  feed   ::= (alchemy|lazy sources storage-index [((source origin-class)*)])
  hop    ::= (read feed-index stmt) | (mutate storage-index db) | (restart)
  sources::= ((source pname)*)
  db     ::= ((pname (col*) (row*))*)      row ::= (val*)      val ::= null | (i n) | (b true|false) | (s text)
           | a table may also be given as the CSV file behind it: (pname (col*) (csv ((key literal)*) (line*))) - the
             user's reader options and the lines of the file (header line included if written); content = FileOrigin.loadCsv
  pyexpr ::= (val lit) | (feat feature) | (bin pyop pyexpr pyexpr) | (inv pyexpr)
  pyop   ::= add|sub|mul|truediv|mod|lt|le|gt|ge|eq|ne|and|or
  rel    ::= ((name|none)*) (row*)
-/
import ForML.Model.Sexp
import ForML.Model.Dsl
import ForML.Model.Parser
import ForML.Model.ParserWF
import ForML.Model.DslDenote
import ForML.Model.FeedCache
import ForML.Model.ParserHints
import ForML.Model.DslSugar
import ForML.Model.FileOrigin
open ForML ForML.Dsl ForML.Rel ForML.Parser

def valOfSexp : Sexp → Option Val
  | .atom "null" => some .null
  | .list [.atom "i", n] => n.int?.map .int
  | .list [.atom "b", .atom "true"] => some (.bool true)
  | .list [.atom "b", .atom "false"] => some (.bool false)
  | .list [.atom "s", .atom s] => some (.str s)
  | _ => none

def valToSexp : Val → Sexp
  | .null => .atom "null"
  | .int n => .list [.atom "i", Sexp.ofInt n]
  | .bool b => .list [.atom "b", Sexp.ofBool b]
  | .str s => .list [.atom "s", .atom s]

def rowOfSexp : Sexp → Option Row
  | .list vs => vs.mapM valOfSexp
  | _ => none

def optionsOfSexp : Sexp → Option ForML.FileOrigin.Options
  | .list kvs => kvs.mapM (fun kv => match kv with
    | .list [.atom k, .atom v] => some (k, v)
    | _ => none)
  | _ => none

def dbOfSexp : Sexp → Option Db
  | .list ts => ts.mapM (fun t => match t with
    | .list [.atom pn, .list cols, .list [.atom "csv", opts, .list lines]] => do
      -- a CSV origin: the content is what `Csv.read` takes from the file under the user's options
      let cs ← cols.mapM Sexp.str?
      let user ← optionsOfSexp opts
      let ls ← lines.mapM rowOfSexp
      let rs ← ForML.FileOrigin.loadCsv (ForML.FileOrigin.effective ForML.FileOrigin.csvDefaults user) ls
      pure (pn, ({ cols := cs, rows := rs } : PhysTable))
    | .list [.atom pn, .list cols, .list rows] => do
      let cs ← cols.mapM Sexp.str?
      let rs ← rows.mapM rowOfSexp
      pure (pn, ({ cols := cs, rows := rs } : PhysTable))
    | _ => none)
  | _ => none

def sourcesOfSexp : Sexp → Option Sources
  | .list ps => ps.mapM (fun p => match p with
    | .list [s, .atom pn] => (Source.ofSexp s).map (fun s => (s, pn))
    | _ => none)
  | _ => none

def relToSexp (o : ORel) : Sexp :=
  .list [.list (o.names.map (fun n => match n with | some n => .list [.atom "some", .atom n] | none => .atom "none")),
         .list (o.rows.map (fun r => .list (r.map valToSexp)))]

def optRelToSexp : Option ORel → Sexp
  | some o => relToSexp o
  | none => .atom "none"

def feedKindOfAtom : String → Option FeedCache.FeedKind
  | "alchemy" => some .alchemy
  | "lazy" => some .lazy
  | _ => none

def feedOfSexp : Sexp → Option FeedCache.Feed
  | .list [.atom k, srcs, i] => do
    pure { kind := ← feedKindOfAtom k, srcs := ← sourcesOfSexp srcs, storage := ← i.nat? }
  | .list [.atom k, srcs, i, origins] => do
    -- lazy feeds: the origin class providing each table ((source class)*)
    pure { kind := ← feedKindOfAtom k, srcs := ← sourcesOfSexp srcs, storage := ← i.nat?, origins := ← sourcesOfSexp origins }
  | _ => none

def hopOfSexp : Sexp → Option FeedCache.Op
  | .list [.atom "read", i, s] => do pure (.read (← i.nat?) (← Source.ofSexp s))
  | .list [.atom "mutate", i, db] => do pure (.mutate (← i.nat?) (← dbOfSexp db))
  | .list [.atom "restart"] => some .restart
  | _ => none

def stepHist : Sexp → Sexp
  | .list [.atom "hist", .list feeds, .list dbs, .list ops] =>
    match feeds.mapM feedOfSexp, dbs.mapM dbOfSexp, ops.mapM hopOfSexp with
    | some feeds, some dbs, some ops =>
      .list [.list (.atom "run" :: (FeedCache.run feeds { storages := dbs } ops).map optRelToSexp),
             .list (.atom "spec" :: (FeedCache.spec feeds dbs ops).map optRelToSexp)]
    | _, _, _ => .atom "bad-op"
  | _ => .atom "bad-op"

def pyOpOfAtom : String → Option ForML.Sugar.PyOp
  | "add" => some .add | "sub" => some .sub | "mul" => some .mul | "truediv" => some .truediv | "mod" => some .mod
  | "lt" => some .lt | "le" => some .le | "gt" => some .gt | "ge" => some .ge | "eq" => some .eq | "ne" => some .ne
  | "and" => some .and | "or" => some .or
  | _ => none

partial def pyExprOfSexp : Sexp → Option ForML.Sugar.PyExpr
  | .list [.atom "val", v] => (Lit.ofSexp v).map .val
  | .list [.atom "feat", f] => (Feature.ofSexp f).map .feat
  | .list [.atom "bin", .atom op, a, b] => do
    pure (.bin (← pyOpOfAtom op) (← pyExprOfSexp a) (← pyExprOfSexp b))
  | .list [.atom "inv", a] => (pyExprOfSexp a).map .inv
  | _ => none

def stepC06 (line : Sexp) : Sexp :=
  match expandLet line with
  | some (.list [.atom "sugar", e]) =>
    match pyExprOfSexp e with
    | some e =>
      match e.eval with
      | some (.feat f) => .list [.atom "some", f.toSexp]
      | _ => .atom "none"
    | none => .atom "bad-op"
  | some (.list [.atom "parse", srcs, stmt]) =>
    match sourcesOfSexp srcs, Source.ofSexp stmt with
    | some srcs, some s =>
      match ForML.Parser.Hints.parseH srcs s with
      | .ok q => .list [.atom "ok", Sexp.ofBool (compile srcs s == some q)]
      | .error e => .list [.atom "error", .atom e.wire]
    | _, _ => .atom "bad-op"
  | some (.list [.atom "run", srcs, stmt, db]) =>
    match sourcesOfSexp srcs, Source.ofSexp stmt, dbOfSexp db with
    | some srcs, some s, some db =>
      -- the visitor with the per-table segments and the hint code `visit_table` generates (= `parse` on `WF`)
      let p := ForML.Parser.Hints.parseH srcs s
      let sql := match p with
        | .ok q => evalSql q db
        | .error _ => none
      .list [.list [.atom "parse", .atom (match p with | .ok _ => "ok" | .error e => e.wire),
                    .atom (if WF srcs s then "wf" else "not-wf"), .atom (if ForML.Denote.crossBalanced srcs s db then "balanced" else "unbalanced")],
             .list [.atom "sql", optRelToSexp sql],
             .list [.atom "denote", optRelToSexp (ForML.Denote.denote srcs s db)]]
    | _, _, _ => .atom "bad-op"
  | some (.list (.atom "hist" :: rest)) => stepHist (.list (.atom "hist" :: rest))
  | _ => .atom "bad-op"

def main : IO Unit := driverLoop stepC06
