/- Line-protocol driver for the C09 model (ForML.Model.Matcher).

   (c09 <statement> ((<prio|inf> (<advertised source>*))*))
       → (ok <(some i)|none> (<covers_i>*) (<resolves_i>*))
     i = construction index of the feed `Importer.match` returns (none = MissingError); per feed of the pool (in
     construction order) whether its matcher accepts the statement and whether its parser resolvesSkeleton all sources
   (c09seq (<statement>*) <pool>) → (ok (<(some i)|none>*))
     the answers of ONE importer instance to the request history (`matchSeq`, with the lru_cache state; then the same through
     the bounded LRU table `matchLru` (128 entries) and through one of capacity 1)
   (c09conf <statement> (<member>*) single|multi)
       member = (inst (<src>*)) | (conf <ref> none|((<key> <val>)*) (<src>*)) | (name <ref> none|(…) (<src>*)) (single only:
                the member is handed to io.Importer as its reference string),  val = (num h) | (text s) | (table ((<key> (num h)|(text s))*))
       → (ok <sel> (<report>*))   sel = (some i) | none | (err <class>) (pool construction failed: MissingError/ValueError/TypeError)
         report = inst | (desc <provider> <priority in halves> ((<key> <val>)*)) | (err <class>)
     the pool is built the way the platform builds it: every `conf` member is a `[FEED.<ref>]` section resolved by
     `setup.Feed(ref)` (single) or all of them by `setup.Feed.resolve([refs])` (multi: `Importer(*instances, *resolved)`)
   (c09fault <statement> ((<prio|inf> (feed (<src>*))|(fails <Class>))*)) → (ok <(some i)|none|(raise Class)> (<touched index>*))
     `Importer.match` on a pool whose lazily configured members may fail to come up (`Slot.instance` raising): the answer
     and the construction indices of the slots the importer touched, in the order it touched them
   every line may be wrapped as (let ((x sexp) …) body), `$x` atoms are substituted. -/
import ForML.Model.Sexp
import ForML.Model.Dsl
import ForML.Model.Matcher
import ForML.Model.MatcherLru
import ForML.Model.MatcherConf
import ForML.Model.MatcherParser
import ForML.Model.MatcherParserFree
open ForML ForML.Dsl ForML.Matcher

def stepC09 (line : Sexp) : Sexp :=
  match expandLet line with
  | none => .atom "bad-op"
  | some x =>
    match x with
    | .list [.atom "c09", stmt, .list slots] =>
      match Source.ofSexp stmt, slots.mapM Slot.ofSexp with
      | some s, some pool =>
        .list [.atom "ok",
          Sexp.ofOption Sexp.ofNat (select pool s),
          .list (pool.map (fun f => Sexp.ofBool (covers f.sources s))),
          .list (pool.map (fun f => Sexp.ofBool (resolvesSkeleton f.sources s))),
          .list (pool.map (fun f => freeParse f.sources s))]
      | _, _ => .atom "bad-op"
    | .list [.atom "c09seq", .list stmts, .list slots] =>
      match stmts.mapM Source.ofSexp, slots.mapM Slot.ofSexp with
      | some ss, some pool =>
        let wire (rs : List (Except MatchError Nat)) : Sexp := .list (rs.map (fun r =>
          match r with
          | .ok i => Sexp.ofOption Sexp.ofNat (some i)
          | .error _ => Sexp.ofOption Sexp.ofNat none))
        -- round 5: also through the bounded LRU table, at the code's capacity (128) and at capacity 1 (every second
        -- distinct statement evicts, so the eviction path of the model runs on every history)
        .list [.atom "ok", wire (matchSeq pool ss), wire (matchLru pool ss),
          wire (lruSeq 1 id (importerMatch pool) ss)]
      | _, _ => .atom "bad-op"
    | .list [.atom "c09conf", stmt, .list ms, .atom route] =>
      match Source.ofSexp stmt, ms.mapM Arg.ofSexp with
      | some s, some args =>
        let err (e : ConfErr) : Sexp := .list [.atom "err", .atom e.wire]
        let members := args.map Arg.toMember
        let sel : Option Sexp :=
          match route with
          | "single" =>
            some (match matchArgs args s with
              | .error e => err e
              | .ok (.ok i) => Sexp.ofOption Sexp.ofNat (some i)
              | .ok (.error _) => Sexp.ofOption Sexp.ofNat none)
          | "multi" =>
            if args.all (fun a => match a with | .member _ => true | _ => false) then
              some (match selectMulti members s with
                | .error e => err e
                | .ok r => Sexp.ofOption Sexp.ofNat r)
            else none
          | _ => none
        match sel with
        | none => .atom "bad-op"
        | some sel =>
          .list [.atom "ok", sel, .list (members.map (fun m =>
            match m with
            | .inst _ => .atom "inst"
            | .conf ref sec _ =>
              match descriptorOf ref sec with
              | .error e => err e
              | .ok d => .list [.atom "desc", .atom d.reference, Sexp.ofInt d.priority, optionsToSexp d.params]))]
      | _, _ => .atom "bad-op"
    | .list [.atom "c09fault", stmt, .list slots] =>
      match Source.ofSexp stmt, slots.mapM FSlot.ofSexp with
      | some s, some pool =>
        let r := matchFault pool s
        .list [.atom "ok",
          (match r.1 with
           | .selected i => Sexp.ofOption Sexp.ofNat (some i)
           | .missing => Sexp.ofOption Sexp.ofNat none
           | .raised e => .list [.atom "raise", .atom e]),
          .list (r.2.map Sexp.ofNat)]
      | _, _ => .atom "bad-op"
    | _ => .atom "bad-op"

def main : IO Unit := driverLoop stepC09
