/- Line-protocol driver for the C09 model (ForML.Model.Matcher).

   (c09 <statement> ((<prio|inf> (<advertised source>*))*))
       → (ok <(some i)|none> (<covers_i>*) (<resolves_i>*))
     i = construction index of the feed `Importer.match` returns (none = MissingError); per feed of the pool (in
     construction order) whether its matcher accepts the statement and whether its parser resolves all sources
   (c09seq (<statement>*) <pool>) → (ok (<(some i)|none>*))
     the answers of ONE importer instance to the request history (`matchSeq`, with the lru_cache state)
   every line may be wrapped as (let ((x sexp) …) body), `$x` atoms are substituted. -/
import ForML.Model.Sexp
import ForML.Model.Dsl
import ForML.Model.Matcher
open ForML ForML.Dsl ForML.Matcher

def stepC09 (line : Sexp) : Sexp :=
  match expandLet line with
  | none => .atom "bad-op"
  | some x =>
    match x with
    | .list [.atom "c09", stmt, .list slots] =>
      match Source.ofSexp stmt, slots.mapM Slot.ofSexp with
      | some s, some pool =>
        .list [.atom "ok",
          Sexp.ofOption Sexp.ofNat (select pool s),
          .list (pool.map (fun f => Sexp.ofBool (covers f.sources s))),
          .list (pool.map (fun f => Sexp.ofBool (resolves f.sources s)))]
      | _, _ => .atom "bad-op"
    | .list [.atom "c09seq", .list stmts, .list slots] =>
      match stmts.mapM Source.ofSexp, slots.mapM Slot.ofSexp with
      | some ss, some pool =>
        .list [.atom "ok", .list ((matchSeq pool ss).map (fun r =>
          match r with
          | .ok i => Sexp.ofOption Sexp.ofNat (some i)
          | .error _ => Sexp.ofOption Sexp.ofNat none))]
      | _, _ => .atom "bad-op"
    | _ => .atom "bad-op"

def main : IO Unit := driverLoop stepC09
