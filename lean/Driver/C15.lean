/- Line-protocol driver for the C15 model (ForML.Model.Entry); the kind match relation is the one extracted from the
   live forml classes (ForML.Generated.C15Kinds.liveMatch).

  (match (q…) (e…))                                   → (false) | (true none) | (true (i…))
  (reader legacy|fixed dense|frame NROWS ((n k)…) ((n k)…) ((KIND ROW COL)…))
        entry data = symbolic NROWS × |e| matrix; the last argument lists the cells whose cast to KIND raises
                                                           → missing | index-error | cast-error | (data dense|frame (col…)…)
        term ::= (c ROW COL) | (k KIND term)
  (take rows|cols dense|frame NCOLS ((int…)…) (idx…))  → index-error | (ok (row…) (col…))
  (slicer dense|frame NCOLS ((int…)…) NFEATURES none|NLABELS)
                                                       → index-error | (ok (row…) (scalar (v…))|(vector (row…)))
  (takes dense|frame NCOLS ((int…)…) ((rows|cols (idx…))…))   chained selections
                                                       → index-error | (ok (row…) (col…))
  -- the value level (Model/EntryKind.lean with the live tables of Generated/C15Lattice.lean)
  (kmatch KIND KIND)                                   → true | false          (declared.match(entry))
  (cast KIND VAL)                                      → error | VAL           (Primitive.cast)
  (reflect VCLASS)                                     → KIND | none           (kind.reflect)
        VAL ::= (bool B) | (int I) | (float I) | (decimal I) | (npbool B) | (npint I) | (npfloat I) | (date D) | (ts D S)
              | (str int I) | (str float I) | (str date D) | (str ts D S) | (str bool B) | (str word N)
  (readerv legacy|fixed dense|frame ((n k)…) ((n k)…) ((VAL…)…))
        entry data given by columns of concrete values, cast = the model of the real kind.cast
                                                       → missing | index-error | cast-error | (data dense|frame ((VAL…)…))
  -- histories (Model/EntryMemo.lean)
  (session legacy|fixed exact|weak none|CAP ((dense|frame ((n k)…) ((n k)…) ((VAL…)…))…))
        the requests in order through ONE reader instance (memoised _match_entry)       → (OUTCOME…)
  (decode ((NROWS ((NAME DTYPE VCLASS|none)…))…))
        the frames in order through ONE process (Pandas.Schema.from_frame)              → (error | ((n k)…) …)
-/
import ForML.Model.Sexp
import ForML.Model.Entry
import ForML.Model.EntryKind
import ForML.Model.EntryMemo
import ForML.Generated.C15Kinds
import ForML.Generated.C15Lattice
open ForML ForML.Entry

inductive Term where
  | cell (r c : Nat)
  | cast (k : Kind) (t : Term)

def kindName : Kind → String
  | .boolean => "boolean" | .integer => "integer" | .float => "float" | .decimal => "decimal"
  | .string => "string" | .date => "date" | .timestamp => "timestamp"

def kind? : Sexp → Option Kind
  | .atom "boolean" => some .boolean | .atom "integer" => some .integer | .atom "float" => some .float
  | .atom "decimal" => some .decimal | .atom "string" => some .string | .atom "date" => some .date
  | .atom "timestamp" => some .timestamp | _ => none

def Term.toSexp : Term → Sexp
  | .cell r c => .list [.atom "c", Sexp.ofNat r, Sexp.ofNat c]
  | .cast k t => .list [.atom "k", .atom (kindName k), t.toSexp]

/-- the symbolic value cast: `cast k (cell r c)` raises exactly for the listed `(k, r, c)` -/
def castSym (bad : List (Kind × Nat × Nat)) (k : Kind) : Term → Option Term
  | .cell r c => if bad.contains (k, r, c) then none else some (.cast k (.cell r c))
  | t => some (.cast k t)

def bad? : Sexp → Option (List (Kind × Nat × Nat))
  | .list xs => xs.mapM fun
    | .list [k, r, c] => do pure (← kind? k, ← r.nat?, ← c.nat?)
    | _ => none
  | _ => none

def field? : Sexp → Option Field
  | .list [n, k] => do pure ⟨← n.nat?, ← kind? k⟩
  | _ => none

def fields? : Sexp → Option (List Field)
  | .list xs => xs.mapM field?
  | _ => none

def rows? : Sexp → Option (List (List Int))
  | .list xs => xs.mapM Sexp.intList?
  | _ => none

def impl? : Sexp → Option Bool   -- true = dense
  | .atom "dense" => some true | .atom "frame" => some false | _ => none

def mkTab {α : Type} (dense : Bool) (ncols : Nat) (rows : List (List α)) : Tab α :=
  if dense then .dense ⟨rows, ncols⟩ else .frame ⟨transposeN ncols rows, rows.length⟩

def ofMatrix {α : Type} (f : α → Sexp) (m : List (List α)) : Sexp := .list (m.map (fun r => .list (r.map f)))

def rectangular {α : Type} (ncols : Nat) (rows : List (List α)) : Bool := rows.all (·.length == ncols)

/-! value level -/

def bool? : Sexp → Option Bool
  | .atom "true" => some true | .atom "false" => some false | _ => none

def val? : Sexp → Option PyVal
  | .list [.atom "bool", b] => (bool? b).map .bool
  | .list [.atom "int", i] => i.int?.map .int
  | .list [.atom "float", i] => i.int?.map .float
  | .list [.atom "decimal", i] => i.int?.map .decimal
  | .list [.atom "npbool", b] => (bool? b).map .npbool
  | .list [.atom "npint", i] => i.int?.map .npint
  | .list [.atom "npfloat", i] => i.int?.map .npfloat
  | .list [.atom "date", d] => d.int?.map .date
  | .list [.atom "ts", d, s] => do pure (.ts (← d.int?) (← s.nat?))
  | .list [.atom "str", .atom "int", i] => i.int?.map (fun i => .str (.intLit i))
  | .list [.atom "str", .atom "float", i] => i.int?.map (fun i => .str (.floatLit i))
  | .list [.atom "str", .atom "date", d] => d.int?.map (fun d => .str (.dateLit d))
  | .list [.atom "str", .atom "ts", d, s] => do pure (.str (.tsLit (← d.int?) (← s.nat?)))
  | .list [.atom "str", .atom "bool", b] => (bool? b).map (fun b => .str (.boolLit b))
  | .list [.atom "str", .atom "word", n] => n.nat?.map (fun n => .str (.word n))
  | _ => none

def ofVal : PyVal → Sexp
  | .bool b => .list [.atom "bool", Sexp.ofBool b]
  | .int i => .list [.atom "int", Sexp.ofInt i]
  | .float i => .list [.atom "float", Sexp.ofInt i]
  | .decimal i => .list [.atom "decimal", Sexp.ofInt i]
  | .npbool b => .list [.atom "npbool", Sexp.ofBool b]
  | .npint i => .list [.atom "npint", Sexp.ofInt i]
  | .npfloat i => .list [.atom "npfloat", Sexp.ofInt i]
  | .date d => .list [.atom "date", Sexp.ofInt d]
  | .ts d s => .list [.atom "ts", Sexp.ofInt d, Sexp.ofNat s]
  | .str (.intLit i) => .list [.atom "str", .atom "int", Sexp.ofInt i]
  | .str (.floatLit i) => .list [.atom "str", .atom "float", Sexp.ofInt i]
  | .str (.dateLit d) => .list [.atom "str", .atom "date", Sexp.ofInt d]
  | .str (.tsLit d s) => .list [.atom "str", .atom "ts", Sexp.ofInt d, Sexp.ofNat s]
  | .str (.boolLit b) => .list [.atom "str", .atom "bool", Sexp.ofBool b]
  | .str (.word n) => .list [.atom "str", .atom "word", Sexp.ofNat n]

def vclass? : Sexp → Option VClass
  | .atom "bool" => some .bool | .atom "int" => some .int | .atom "float" => some .float | .atom "str" => some .str
  | .atom "date" => some .date | .atom "datetime" => some .datetime | .atom "decimal" => some .decimal
  | .atom "npbool" => some .npbool | .atom "npint" => some .npint | .atom "npfloat" => some .npfloat | _ => none

def dtype? : Sexp → Option DType
  | .atom "bool" => some .bool | .atom "int64" => some .int64 | .atom "float64" => some .float64
  | .atom "str" => some .str | .atom "object" => some .object | _ => none

def liveCast : Kind → PyVal → Option PyVal := pcast ForML.Generated.C15Lattice.liveIsInstance

def cols? : Sexp → Option (List (List PyVal))
  | .list xs => xs.mapM fun
    | .list vs => vs.mapM val?
    | _ => none
  | _ => none

/-- a payload given by its columns (all of one length, as many as the entry schema has fields) -/
def tabOfCols (dense : Bool) (cols : List (List PyVal)) : Option (Tab PyVal) :=
  let nrows := (cols.head?.map (·.length)).getD 0
  if cols.all (·.length == nrows) then
    some (if dense then .dense ⟨transposeN nrows cols, cols.length⟩ else .frame ⟨cols, nrows⟩)
  else none

def req? : Sexp → Option (Req PyVal)
  | .list [impl, q, e, cols] => do
    let dense ← impl? impl
    let q ← fields? q
    let e ← fields? e
    let cols ← cols? cols
    if cols.length != e.length then none
    let t ← tabOfCols dense cols
    pure ⟨q, e, t⟩
  | _ => none

def ofOutcome : Outcome PyVal → Sexp
  | .missing => .atom "missing"
  | .indexError => .atom "index-error"
  | .castError => .atom "cast-error"
  | .data t =>
    let tag := match t with | .dense _ => "dense" | .frame _ => "frame"
    .list [.atom "data", .atom tag, ofMatrix ofVal t.toColumns]

def variant? : Sexp → Option Bool
  | .atom "legacy" => some true | .atom "fixed" => some false | _ => none

def cap? : Sexp → Option (Option Nat)
  | .atom "none" => some none | x => x.nat?.map some

def fcol? : Sexp → Option FCol
  | .list [n, d, c] => do
    let cls ← match c with
      | .atom "none" => some none
      | c => (vclass? c).map some
    pure ⟨← n.nat?, ← dtype? d, cls⟩
  | _ => none

def dframe? : Sexp → Option DFrame
  | .list [n, .list cs] => do pure ⟨← cs.mapM fcol?, ← n.nat?⟩
  | _ => none

def selection? : Sexp → Option (Bool × List Int)
  | .list [.atom "rows", idx] => idx.intList?.map (true, ·)
  | .list [.atom "cols", idx] => idx.intList?.map (false, ·)
  | _ => none

def stepC15 : Sexp → Sexp
  | .list [.atom "kmatch", e, a] =>
    match kind? e, kind? a with
    | some e, some a => Sexp.ofBool (ForML.Generated.C15Kinds.liveMatch e a)
    | _, _ => .atom "bad-op"
  | .list [.atom "cast", k, v] =>
    match kind? k, val? v with
    | some k, some v => match liveCast k v with
      | none => .atom "error"
      | some w => ofVal w
    | _, _ => .atom "bad-op"
  | .list [.atom "reflect", c] =>
    match vclass? c with
    | some c => match reflectClass ForML.Generated.C15Lattice.liveIsInstance ForML.Generated.C15Lattice.liveRank c with
      | none => .atom "none"
      | some k => .atom (kindName k)
    | none => .atom "bad-op"
  | .list [.atom "readerv", variant, impl, q, e, cols] =>
    match variant? variant, req? (.list [impl, q, e, cols]) with
    | some legacy, some r => ofOutcome (readerCall ForML.Generated.C15Kinds.liveMatch liveCast legacy r.q r.e r.data)
    | _, _ => .atom "bad-op"
  | .list [.atom "session", variant, keymode, cap, .list reqs] =>
    match variant? variant, cap? cap, reqs.mapM req? with
    | some legacy, some cap, some reqs =>
      match keymode with
      | .atom "exact" => .list ((readerRun ForML.Generated.C15Kinds.liveMatch liveCast legacy cap exactKey [] reqs).map ofOutcome)
      | .atom "weak" => .list ((readerRun ForML.Generated.C15Kinds.liveMatch liveCast legacy cap weakKey [] reqs).map ofOutcome)
      | _ => .atom "bad-op"
    | _, _, _ => .atom "bad-op"
  | .list [.atom "decode", .list frames] =>
    match frames.mapM dframe? with
    | some frames =>
      .list ((fromFrameRun ForML.Generated.C15Lattice.liveIsInstance ForML.Generated.C15Lattice.liveRank [] frames).1.map fun
        | none => .atom "error"
        | some fields => .list (fields.map fun f => .list [Sexp.ofNat f.name, .atom (kindName f.kind)]))
    | none => .atom "bad-op"
  | .list [.atom "takes", impl, ncols, rows, .list sels] =>
    match impl? impl, ncols.nat?, rows? rows, sels.mapM selection? with
    | some dense, some ncols, some rows, some sels =>
      if !rectangular ncols rows then .atom "bad-op" else
      let r := sels.foldl (fun (t : Option (Tab Int)) (sel : Bool × List Int) =>
        t.bind (fun t => if sel.1 then t.takeRows sel.2 else t.takeColumns sel.2)) (some (mkTab dense ncols rows))
      match r with
      | none => .atom "index-error"
      | some r => .list [.atom "ok", ofMatrix Sexp.ofInt r.toRows, ofMatrix Sexp.ofInt r.toColumns]
    | _, _, _, _ => .atom "bad-op"
  | .list [.atom "match", q, e] =>
    match q.natList?, e.natList? with
    | some q, some e =>
      match matchEntry q e with
      | (false, _) => .list [.atom "false"]
      | (true, none) => .list [.atom "true", .atom "none"]
      | (true, some idx) => .list [.atom "true", Sexp.ofNats idx]
    | _, _ => .atom "bad-op"
  | .list [.atom "reader", variant, impl, nrows, q, e, bad] =>
    let legacy? : Option Bool := match variant with
      | .atom "legacy" => some true | .atom "fixed" => some false | _ => none
    match legacy?, impl? impl, nrows.nat?, fields? q, fields? e, bad? bad with
    | some legacy, some dense, some nrows, some q, some e, some bad =>
      let rows := (List.range nrows).map (fun r => (List.range e.length).map (fun c => Term.cell r c))
      match readerCall ForML.Generated.C15Kinds.liveMatch (castSym bad) legacy q e (mkTab dense e.length rows) with
      | .missing => .atom "missing"
      | .indexError => .atom "index-error"
      | .castError => .atom "cast-error"
      | .data t =>
        let tag := match t with | .dense _ => "dense" | .frame _ => "frame"
        .list [.atom "data", .atom tag, ofMatrix Term.toSexp t.toColumns]
    | _, _, _, _, _, _ => .atom "bad-op"
  | .list [.atom "take", axis, impl, ncols, rows, idx] =>
    let rowsAxis? : Option Bool := match axis with
      | .atom "rows" => some true | .atom "cols" => some false | _ => none
    match rowsAxis?, impl? impl, ncols.nat?, rows? rows, idx.intList? with
    | some rowsAxis, some dense, some ncols, some rows, some idx =>
      if !rectangular ncols rows then .atom "bad-op" else
      let t := mkTab dense ncols rows
      match (if rowsAxis then t.takeRows idx else t.takeColumns idx) with
      | none => .atom "index-error"
      | some r => .list [.atom "ok", ofMatrix Sexp.ofInt r.toRows, ofMatrix Sexp.ofInt r.toColumns]
    | _, _, _, _, _ => .atom "bad-op"
  | .list [.atom "slicer", impl, ncols, rows, nf, nl] =>
    let nl? : Option (Option Nat) := match nl with
      | .atom "none" => some none | x => x.nat?.map some
    match impl? impl, ncols.nat?, rows? rows, nf.nat?, nl? with
    | some dense, some ncols, some rows, some nf, some nl =>
      if !rectangular ncols rows then .atom "bad-op" else
      let (fs, ls) := slicerPositions nf nl
      match slicer fs ls (mkTab dense ncols rows) with
      | none => .atom "index-error"
      | some (f, .inl c) => .list [.atom "ok", ofMatrix Sexp.ofInt f, .list [.atom "scalar", .list (c.map Sexp.ofInt)]]
      | some (f, .inr l) => .list [.atom "ok", ofMatrix Sexp.ofInt f, .list [.atom "vector", ofMatrix Sexp.ofInt l]]
    | _, _, _, _, _ => .atom "bad-op"
  | _ => .atom "bad-op"

def main : IO Unit := driverLoop stepC15
