/- Line-protocol driver for the C15 model (ForML.Model.Entry); the kind match relation is the one extracted from the
   live forml classes (ForML.Generated.C15Kinds.liveMatch).

  (match (q…) (e…))                                   → (false) | (true none) | (true (i…))
  (reader legacy|fixed dense|frame NROWS ((n k)…) ((n k)…) ((KIND ROW COL)…))
        entry data = symbolic NROWS × |e| matrix; the last argument lists the cells whose cast to KIND raises
                                                           → missing | index-error | cast-error | (data dense|frame (col…)…)
        term ::= (c ROW COL) | (k KIND term)
  (take rows|cols dense|frame NCOLS ((int…)…) (idx…))  → index-error | (ok (row…) (col…))
  (slicer dense|frame NCOLS ((int…)…) NFEATURES none|NLABELS)
                                                       → index-error | (ok (row…) (scalar (v…))|(vector (row…)))
-/
import ForML.Model.Sexp
import ForML.Model.Entry
import ForML.Generated.C15Kinds
open ForML ForML.Entry

inductive Term where
  | cell (r c : Nat)
  | cast (k : Kind) (t : Term)

def kindName : Kind → String
  | .boolean => "boolean" | .integer => "integer" | .float => "float" | .decimal => "decimal"
  | .string => "string" | .date => "date" | .timestamp => "timestamp"

def kind? : Sexp → Option Kind
  | .atom "boolean" => some .boolean | .atom "integer" => some .integer | .atom "float" => some .float
  | .atom "decimal" => some .decimal | .atom "string" => some .string | .atom "date" => some .date
  | .atom "timestamp" => some .timestamp | _ => none

def Term.toSexp : Term → Sexp
  | .cell r c => .list [.atom "c", Sexp.ofNat r, Sexp.ofNat c]
  | .cast k t => .list [.atom "k", .atom (kindName k), t.toSexp]

/-- the symbolic value cast: `cast k (cell r c)` raises exactly for the listed `(k, r, c)` -/
def castSym (bad : List (Kind × Nat × Nat)) (k : Kind) : Term → Option Term
  | .cell r c => if bad.contains (k, r, c) then none else some (.cast k (.cell r c))
  | t => some (.cast k t)

def bad? : Sexp → Option (List (Kind × Nat × Nat))
  | .list xs => xs.mapM fun
    | .list [k, r, c] => do pure (← kind? k, ← r.nat?, ← c.nat?)
    | _ => none
  | _ => none

def field? : Sexp → Option Field
  | .list [n, k] => do pure ⟨← n.nat?, ← kind? k⟩
  | _ => none

def fields? : Sexp → Option (List Field)
  | .list xs => xs.mapM field?
  | _ => none

def rows? : Sexp → Option (List (List Int))
  | .list xs => xs.mapM Sexp.intList?
  | _ => none

def impl? : Sexp → Option Bool   -- true = dense
  | .atom "dense" => some true | .atom "frame" => some false | _ => none

def mkTab {α : Type} (dense : Bool) (ncols : Nat) (rows : List (List α)) : Tab α :=
  if dense then .dense ⟨rows, ncols⟩ else .frame ⟨transposeN ncols rows, rows.length⟩

def ofMatrix {α : Type} (f : α → Sexp) (m : List (List α)) : Sexp := .list (m.map (fun r => .list (r.map f)))

def rectangular {α : Type} (ncols : Nat) (rows : List (List α)) : Bool := rows.all (·.length == ncols)

def stepC15 : Sexp → Sexp
  | .list [.atom "match", q, e] =>
    match q.natList?, e.natList? with
    | some q, some e =>
      match matchEntry q e with
      | (false, _) => .list [.atom "false"]
      | (true, none) => .list [.atom "true", .atom "none"]
      | (true, some idx) => .list [.atom "true", Sexp.ofNats idx]
    | _, _ => .atom "bad-op"
  | .list [.atom "reader", variant, impl, nrows, q, e, bad] =>
    let legacy? : Option Bool := match variant with
      | .atom "legacy" => some true | .atom "fixed" => some false | _ => none
    match legacy?, impl? impl, nrows.nat?, fields? q, fields? e, bad? bad with
    | some legacy, some dense, some nrows, some q, some e, some bad =>
      let rows := (List.range nrows).map (fun r => (List.range e.length).map (fun c => Term.cell r c))
      match readerCall ForML.Generated.C15Kinds.liveMatch (castSym bad) legacy q e (mkTab dense e.length rows) with
      | .missing => .atom "missing"
      | .indexError => .atom "index-error"
      | .castError => .atom "cast-error"
      | .data t =>
        let tag := match t with | .dense _ => "dense" | .frame _ => "frame"
        .list [.atom "data", .atom tag, ofMatrix Term.toSexp t.toColumns]
    | _, _, _, _, _, _ => .atom "bad-op"
  | .list [.atom "take", axis, impl, ncols, rows, idx] =>
    let rowsAxis? : Option Bool := match axis with
      | .atom "rows" => some true | .atom "cols" => some false | _ => none
    match rowsAxis?, impl? impl, ncols.nat?, rows? rows, idx.intList? with
    | some rowsAxis, some dense, some ncols, some rows, some idx =>
      if !rectangular ncols rows then .atom "bad-op" else
      let t := mkTab dense ncols rows
      match (if rowsAxis then t.takeRows idx else t.takeColumns idx) with
      | none => .atom "index-error"
      | some r => .list [.atom "ok", ofMatrix Sexp.ofInt r.toRows, ofMatrix Sexp.ofInt r.toColumns]
    | _, _, _, _, _ => .atom "bad-op"
  | .list [.atom "slicer", impl, ncols, rows, nf, nl] =>
    let nl? : Option (Option Nat) := match nl with
      | .atom "none" => some none | x => x.nat?.map some
    match impl? impl, ncols.nat?, rows? rows, nf.nat?, nl? with
    | some dense, some ncols, some rows, some nf, some nl =>
      if !rectangular ncols rows then .atom "bad-op" else
      let (fs, ls) := slicerPositions nf nl
      match slicer fs ls (mkTab dense ncols rows) with
      | none => .atom "index-error"
      | some (f, .inl c) => .list [.atom "ok", ofMatrix Sexp.ofInt f, .list [.atom "scalar", .list (c.map Sexp.ofInt)]]
      | some (f, .inr l) => .list [.atom "ok", ofMatrix Sexp.ofInt f, .list [.atom "vector", ofMatrix Sexp.ofInt l]]
    | _, _, _, _, _ => .atom "bad-op"
  | _ => .atom "bad-op"

def main : IO Unit := driverLoop stepC15
