/- Line-protocol driver for the C13 model (ForML.Model.Actor).

One line = one scenario:
  (run <flavour> <op> <op> ...)
  flavour ::= (native <sig> <bool>) | (custom <sig>) | (decorated <sig> <bool>)
            | (wrapped <sig> callable|method|noncallable|absent)
  sig     ::= ((pos..) (kw..) <bool varkw> (mandatory..) ((k v)..defaults) (hidden..))
  (runclass <sig> (<class> ...) <index> <op> ...)     -- the flavour is resolved by the model from the class table
  class   ::= (none|<base index> <bool ownTrain> <bool ownState>)
  (runwrap <sig> (<methods> <flags> <bool isActor>) ((<name> <target>)..) <op> ...)   -- wrap.Actor.type(origin, **mapping):
                                               the model validates/completes the mapping and resolves the flavour
  target  ::= (name <n>) | fn | invalid
answer: (ok <obs> <obs> ...) with one observation per op, or bad-op.
The script is run by `stepW` of `Model/ActorMachine.lean` on the flavour's machine (`FlavourSpec.toMach`) -- the very
function `C13_live_refines` is about.
The user functions are the integer toy functions of harness/props/c13.py.
-/
import ForML.Model.Sexp
import ForML.Model.Actor
import ForML.Model.ActorClass
import ForML.Model.ActorMachine
import ForML.Model.ActorWrap
open ForML ForML.Actor

def bool? : Sexp → Option Bool
  | .atom "true" => some true
  | .atom "false" => some false
  | _ => none

def kv? : Sexp → Option (Nat × Int)
  | .list [k, v] => do pure (← k.nat?, ← v.int?)
  | _ => none

def pmap? : Sexp → Option PMap
  | .list xs => xs.mapM kv?
  | _ => none

def sig? : Sexp → Option Sig
  | .list [pos, kw, varkw, mand, defs, hidden] => do
    pure { pos := ← pos.natList?, kw := ← kw.natList?, varkw := ← bool? varkw,
           mandatory := ← mand.natList?, defaults := ← pmap? defs, hidden := ← hidden.natList? }
  | _ => none

def tm? : Sexp → Option TrainMap
  | .atom "callable" => some .callable
  | .atom "method" => some .method
  | .atom "noncallable" => some .noncallable
  | .atom "absent" => some .absent
  | _ => none

def flavour? : Sexp → Option FlavourSpec
  | .list [.atom "native", s, b] => do pure (.native (← sig? s) (← bool? b))
  | .list [.atom "custom", s] => do pure (.custom (← sig? s))
  | .list [.atom "decorated", s, b] => do pure (.decorated (← sig? s) (← bool? b))
  | .list [.atom "wrapped", s, t] => do pure (.wrapped (← sig? s) (← tm? t))
  | _ => none

def errName : Err → String
  | .typeError => "TypeError"
  | .runtimeError => "RuntimeError"
  | .unexpectedError => "UnexpectedError"
  | .attributeError => "AttributeError"
  | .noObject => "NoObject"
  | .assertionError => "AssertionError"

def obsErr (e : Err) : Sexp := .list [.atom "err", .atom (errName e)]
def obsOk (xs : List Sexp) : Sexp := .list (.atom "ok" :: xs)

/-- canonical `get_params()`: effective value per key, keys ascending, each key once -/
def insertKey (k : Nat) : List Nat → List Nat
  | [] => [k]
  | x :: r => if k < x then k :: x :: r else if k = x then x :: r else x :: insertKey k r

def canonParams (m : PMap) : Sexp :=
  let keys := (pkeys m).foldr insertKey []
  .list (keys.map (fun k => .list [Sexp.ofNat k, Sexp.ofInt ((pget m k).getD 0)]))

/-- one operation of the line protocol as an operation of the world machine (`Model/ActorMachine.lean`);
`none` = unparsable -/
def op? : Sexp → Option MOp
  | .list [.atom "spec", a, kw] => do pure (.spec (← a.intList?) (← pmap? kw))
  | .list [.atom "update", a, kw] => do pure (.update (← a.intList?) (← pmap? kw))
  | .list [.atom "reset", a, kw] => do pure (.reset (← a.intList?) (← pmap? kw))
  | .list [.atom "bpickle"] => some .bpickle
  | .list [.atom "build", r, a, kw] => do pure (.build (← r.nat?) (← a.intList?) (← pmap? kw))
  | .list [.atom "train", r, x, y] => do pure (.train (← r.nat?) (← x.int?) (← y.int?))
  | .list [.atom "apply", r, x] => do pure (.apply (← r.nat?) (← x.int?))
  | .list [.atom "params", r] => do pure (.params (← r.nat?))
  | .list [.atom "setparams", r, kw] => do pure (.setParams (← r.nat?) (← pmap? kw))
  | .list [.atom "stateful"] => some .stateful
  | .list [.atom "forge", k, kw] => do let _ ← pmap? kw; pure (.forge (← k.nat?))
  | .list [.atom "getstate", r, k] => do pure (.getState (← r.nat?) (← k.nat?))
  | .list [.atom "setstate", r, k] => do pure (.setState (← r.nat?) (← k.nat?))
  | .list [.atom "setempty", r] => do pure (.setEmpty (← r.nat?))
  | .list [.atom "preset", r, k] => do pure (.preset (← r.nat?) (← k.nat?))
  | .list [.atom "pickle", r] => do pure (.pickle (← r.nat?))
  | .list [.atom "fapply", k, x] => do pure (.fapply (← k.nat?) (← x.int?))
  | .list [.atom "ftrain", k, x, y, j] => do pure (.ftrain (← k.nat?) (← x.int?) (← y.int?) (← j.nat?))
  | _ => none

/-- an observation as an S-expression; a `get_params` observation is printed from the dict itself (keys
ascending), read from the world before the step -/
def showOut (m : Mach (Obj Int) (Blob Int)) (w : World (Obj Int) (Blob Int)) (op : MOp) : Out → Sexp
  | .done => obsOk []
  | .int v => obsOk [Sexp.ofInt v]
  | .bool b => obsOk [Sexp.ofBool b]
  | .blob full => obsOk [.atom (if full then "full" else "empty")]
  | .err e => obsErr e
  | .params _ =>
    match op with
    | .params r =>
      match w.regs r with
      | some o => obsOk [canonParams (m.getParams o)]
      | none => obsErr .noObject
    | _ => .atom "bad-out"

/-- the whole script through `stepW` of the flavour's machine -/
def runMach (m : Mach (Obj Int) (Blob Int)) (ops : List Sexp) : Option (List Sexp) := do
  let ops ← ops.mapM op?
  let rec go (w : World (Obj Int) (Blob Int)) (ops : List MOp) (acc : List Sexp) : List Sexp :=
    match ops with
    | [] => acc.reverse
    | op :: rest =>
      let (w', out) := stepW m w op
      go w' rest (showOut m w op out :: acc)
  pure (go (World.init m) ops [])

def runOps (fs : FlavourSpec) (ops : List Sexp) : Option (List Sexp) := runMach (fs.toMach toyUser) ops

/-- a definition that `Class.__new__` refused: creating a builder or asking `is_stateful` re-raises, there is
never a builder or an instance -/
def runFailed (e : Err) (ops : List Sexp) : Option (List Sexp) := do
  let ops ← ops.mapM op?
  pure (ops.map fun
    | .spec _ _ => obsErr e
    | .stateful => obsErr e
    | .forge _ => obsOk []
    | _ => obsErr .noObject)

def target? : Sexp → Option Target
  | .atom "fn" => some .fn
  | .atom "invalid" => some .invalid
  | .list [.atom "name", n] => do pure (.name (← n.nat?))
  | _ => none

def mentry? : Sexp → Option (Nat × Target)
  | .list [k, t] => do pure (← k.nat?, ← target? t)
  | _ => none

def origin? : Sexp → Option OriginDef
  | .list [ms, fl, act] => do pure { methods := ← ms.natList?, flags := ← fl.natList?, isActor := ← bool? act }
  | _ => none

def classDef? : Sexp → Option ClassDef
  | .list [b, t, st] => do
    let base ← (match b with
      | .atom "none" => some none
      | x => x.nat?.map some)
    pure { base := base, ownTrain := ← bool? t, ownState := ← bool? st }
  | _ => none

def stepC13 : Sexp → Sexp
  | .list (.atom "runclass" :: sg :: .list cls :: idx :: ops) =>
    match sig? sg, cls.mapM classDef?, idx.nat? with
    | some sg, some tbl, some i =>
      if i < tbl.length then
        match runOps (classFlavour sg tbl i) ops with
        | none => .atom "bad-op"
        | some obs => obsOk obs
      else .atom "bad-op"
    | _, _, _ => .atom "bad-op"
  | .list (.atom "runwrap" :: sg :: org :: .list mp :: ops) =>
    match sig? sg, origin? org, mp.mapM mentry? with
    | some sg, some o, some g =>
      let res := match wrapDef o g with
        | .failed e => runFailed e ops
        | .plain tm => runOps (.wrapped sg tm) ops
        | .own tm => runMach ((wrappedOwn toyUser sg tm).toMach (some (.value 0))) ops
      match res with
      | none => .atom "bad-op"
      | some obs => obsOk obs
    | _, _, _ => .atom "bad-op"
  | .list (.atom "run" :: fl :: ops) =>
    match flavour? fl with
    | none => .atom "bad-op"
    | some fs =>
      match runOps fs ops with
      | none => .atom "bad-op"
      | some obs => obsOk obs
  | _ => .atom "bad-op"

def main : IO Unit := driverLoop stepC13
