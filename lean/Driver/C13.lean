/- Line-protocol driver for the C13 model (ForML.Model.Actor).

One line = one scenario:
  (run <flavour> <op> <op> ...)
  flavour ::= (native <sig> <bool>) | (custom <sig>) | (decorated <sig> <bool>)
            | (wrapped <sig> callable|method|noncallable|absent)
  sig     ::= ((pos..) (kw..) <bool varkw> (mandatory..) ((k v)..defaults) (hidden..))
  (runclass <sig> (<class> ...) <index> <op> ...)     -- the flavour is resolved by the model from the class table
  class   ::= (none|<base index> <bool ownTrain> <bool ownState>)
answer: (ok <obs> <obs> ...) with one observation per op, or bad-op.
The user functions are the integer toy functions of harness/props/c13.py.
-/
import ForML.Model.Sexp
import ForML.Model.Actor
import ForML.Model.ActorClass
open ForML ForML.Actor

def bool? : Sexp → Option Bool
  | .atom "true" => some true
  | .atom "false" => some false
  | _ => none

def kv? : Sexp → Option (Nat × Int)
  | .list [k, v] => do pure (← k.nat?, ← v.int?)
  | _ => none

def pmap? : Sexp → Option PMap
  | .list xs => xs.mapM kv?
  | _ => none

def sig? : Sexp → Option Sig
  | .list [pos, kw, varkw, mand, defs, hidden] => do
    pure { pos := ← pos.natList?, kw := ← kw.natList?, varkw := ← bool? varkw,
           mandatory := ← mand.natList?, defaults := ← pmap? defs, hidden := ← hidden.natList? }
  | _ => none

def tm? : Sexp → Option TrainMap
  | .atom "callable" => some .callable
  | .atom "method" => some .method
  | .atom "noncallable" => some .noncallable
  | .atom "absent" => some .absent
  | _ => none

def flavour? : Sexp → Option FlavourSpec
  | .list [.atom "native", s, b] => do pure (.native (← sig? s) (← bool? b))
  | .list [.atom "custom", s] => do pure (.custom (← sig? s))
  | .list [.atom "decorated", s, b] => do pure (.decorated (← sig? s) (← bool? b))
  | .list [.atom "wrapped", s, t] => do pure (.wrapped (← sig? s) (← tm? t))
  | _ => none

def errName : Err → String
  | .typeError => "TypeError"
  | .runtimeError => "RuntimeError"
  | .unexpectedError => "UnexpectedError"
  | .attributeError => "AttributeError"
  | .noObject => "NoObject"

def obsErr (e : Err) : Sexp := .list [.atom "err", .atom (errName e)]
def obsOk (xs : List Sexp) : Sexp := .list (.atom "ok" :: xs)

/-- canonical `get_params()`: effective value per key, keys ascending, each key once -/
def insertKey (k : Nat) : List Nat → List Nat
  | [] => [k]
  | x :: r => if k < x then k :: x :: r else if k = x then x :: r else x :: insertKey k r

def canonParams (m : PMap) : Sexp :=
  let keys := (pkeys m).foldr insertKey []
  .list (keys.map (fun k => .list [Sexp.ofNat k, Sexp.ofInt ((pget m k).getD 0)]))

structure Machine where
  builder : Option Spec := none
  regs : List (Option (Obj Int)) := [none, none, none, none]
  blobs : List (Blob Int) := [none, none, none, none]

def Machine.reg (m : Machine) (r : Nat) : Option (Obj Int) := (m.regs.getD r none)
def Machine.setReg (m : Machine) (r : Nat) (o : Obj Int) : Machine := { m with regs := m.regs.set r (some o) }
def Machine.blob (m : Machine) (k : Nat) : Blob Int := (m.blobs.getD k none)
def Machine.setBlob (m : Machine) (k : Nat) (b : Blob Int) : Machine := { m with blobs := m.blobs.set k b }

/-- one op: new machine + observation; `none` = unparsable -/
def stepOp (f : Flavour Int) (m : Machine) : Sexp → Option (Machine × Sexp)
  | .list [.atom "spec", a, kw] => do
    let a ← a.intList?; let kw ← pmap? kw
    match mkSpec f a kw with
    | .ok sp => pure ({ m with builder := some sp }, obsOk [])
    | .error e => pure (m, obsErr e)
  | .list [.atom "update", a, kw] => do
    let a ← a.intList?; let kw ← pmap? kw
    match m.builder with
    | none => pure (m, obsErr .noObject)
    | some sp => match sp.update f a kw with
      | .ok sp' => pure ({ m with builder := some sp' }, obsOk [])
      | .error e => pure (m, obsErr e)
  | .list [.atom "reset", a, kw] => do
    let a ← a.intList?; let kw ← pmap? kw
    match m.builder with
    | none => pure (m, obsErr .noObject)
    | some sp => match sp.reset f a kw with
      | .ok sp' => pure ({ m with builder := some sp' }, obsOk [])
      | .error e => pure (m, obsErr e)
  | .list [.atom "bpickle"] =>
    match m.builder with
    | none => pure (m, obsErr .noObject)
    | some sp => match sp.repickle f with
      | .ok sp' => pure ({ m with builder := some sp' }, obsOk [])
      | .error e => pure (m, obsErr e)
  | .list [.atom "build", r, a, kw] => do
    let r ← r.nat?; let a ← a.intList?; let kw ← pmap? kw
    match m.builder with
    | none => pure (m, obsErr .noObject)
    | some sp => match sp.call f a kw with
      | .ok o => pure (m.setReg r o, obsOk [])
      | .error e => pure (m, obsErr e)
  | .list [.atom "train", r, x, y] => do
    let r ← r.nat?; let x ← x.int?; let y ← y.int?
    match m.reg r with
    | none => pure (m, obsErr .noObject)
    | some o => match f.train o x y with
      | .ok o' => pure (m.setReg r o', obsOk [])
      | .error e => pure (m, obsErr e)
  | .list [.atom "apply", r, x] => do
    let r ← r.nat?; let x ← x.int?
    match m.reg r with
    | none => pure (m, obsErr .noObject)
    | some o => match f.apply o x with
      | .ok v => pure (m, obsOk [Sexp.ofInt v])
      | .error e => pure (m, obsErr e)
  | .list [.atom "params", r] => do
    let r ← r.nat?
    match m.reg r with
    | none => pure (m, obsErr .noObject)
    | some o => pure (m, obsOk [canonParams (f.getParams o)])
  | .list [.atom "setparams", r, kw] => do
    let r ← r.nat?; let kw ← pmap? kw
    match m.reg r with
    | none => pure (m, obsErr .noObject)
    | some o => match f.setParams o kw with
      | .ok o' => pure (m.setReg r o', obsOk [])
      | .error e => pure (m, obsErr e)
  | .list [.atom "stateful"] => pure (m, obsOk [Sexp.ofBool f.isStateful])
  | .list [.atom "forge", k, kw] => do
    let k ← k.nat?; let kw ← pmap? kw
    pure (m.setBlob k (some (.whole kw none)), obsOk [])
  | .list [.atom "getstate", r, k] => do
    let r ← r.nat?; let k ← k.nat?
    match m.reg r with
    | none => pure (m, obsErr .noObject)
    | some o =>
      let b := f.getState o
      pure (m.setBlob k b, obsOk [.atom (if b.isSome then "full" else "empty")])
  | .list [.atom "setstate", r, k] => do
    let r ← r.nat?; let k ← k.nat?
    match m.reg r with
    | none => pure (m, obsErr .noObject)
    | some o => match f.setState o (m.blob k) with
      | .ok o' => pure (m.setReg r o', obsOk [])
      | .error e => pure (m, obsErr e)
  | .list [.atom "setempty", r] => do
    let r ← r.nat?
    match m.reg r with
    | none => pure (m, obsErr .noObject)
    | some o => match f.setState o none with
      | .ok o' => pure (m.setReg r o', obsOk [])
      | .error e => pure (m, obsErr e)
  | .list [.atom "preset", r, k] => do
    let r ← r.nat?; let k ← k.nat?
    match m.reg r with
    | none => pure (m, obsErr .noObject)
    | some o => match presetState f o (m.blob k) with
      | .ok o' => pure (m.setReg r o', obsOk [])
      | .error e => pure (m, obsErr e)
  | .list [.atom "pickle", r] => do
    let r ← r.nat?
    match m.reg r with
    | none => pure (m, obsErr .noObject)
    | some o => match f.repickle o with
      | .ok o' => pure (m.setReg r o', obsOk [])
      | .error e => pure (m, obsErr e)
  | .list [.atom "fapply", k, x] => do
    let k ← k.nat?; let x ← x.int?
    match m.builder with
    | none => pure (m, obsErr .noObject)
    | some sp => match functorApply f sp (m.blob k) x with
      | .ok v => pure (m, obsOk [Sexp.ofInt v])
      | .error e => pure (m, obsErr e)
  | .list [.atom "ftrain", k, x, y, j] => do
    let k ← k.nat?; let x ← x.int?; let y ← y.int?; let j ← j.nat?
    match m.builder with
    | none => pure (m, obsErr .noObject)
    | some sp => match functorTrain f sp (m.blob k) x y with
      | .ok b => pure (m.setBlob j b, obsOk [.atom (if b.isSome then "full" else "empty")])
      | .error e => pure (m, obsErr e)
  | _ => none

def runOps (f : Flavour Int) : Machine → List Sexp → List Sexp → Option (List Sexp)
  | _, [], acc => some acc.reverse
  | m, op :: rest, acc =>
    match stepOp f m op with
    | none => none
    | some (m', obs) => runOps f m' rest (obs :: acc)

def classDef? : Sexp → Option ClassDef
  | .list [b, t, st] => do
    let base ← (match b with
      | .atom "none" => some none
      | x => x.nat?.map some)
    pure { base := base, ownTrain := ← bool? t, ownState := ← bool? st }
  | _ => none

def stepC13 : Sexp → Sexp
  | .list (.atom "runclass" :: sg :: .list cls :: idx :: ops) =>
    match sig? sg, cls.mapM classDef?, idx.nat? with
    | some sg, some tbl, some i =>
      if i < tbl.length then
        match runOps ((classFlavour sg tbl i).toFlavour toyUser) {} ops [] with
        | none => .atom "bad-op"
        | some obs => obsOk obs
      else .atom "bad-op"
    | _, _, _ => .atom "bad-op"
  | .list (.atom "run" :: fl :: ops) =>
    match flavour? fl with
    | none => .atom "bad-op"
    | some fs =>
      match runOps (fs.toFlavour toyUser) {} ops [] with
      | none => .atom "bad-op"
      | some obs => obsOk obs
  | _ => .atom "bad-op"

def main : IO Unit := driverLoop stepC13
