/- Line-protocol driver for the C14 model (ForML.Model.PushDown).

  variant ::= current | fixed     the code that exists / as repaired by fixes/C14-outer-join-and-scan-segments.diff
  (hints <variant> strict|lenient <source>)  -> (ok (scan <table> (<col>*) (<factor>*))*) | (error <Err>)
  (needs <source>)                           -> (ok (<col>*)*)        spec: columns each scan must offer (path-based)
  (uses <source>)                            -> (ok (<col>*)*)        spec: columns each scan's origin is used with anywhere
  (lazy <source>)                            -> (ok (<table> <col>)*)  columns lazy._Columns extracts
  (scoped <source>)                          -> (ok <innerOnly> <safe current> <grammarScoped> <shaped> <safe fixed>)
  (exec <variant> ignore|rows|cols|both <source> <db>) -> (ok (<val>*)*)   rows of the statement over a back-end (simpleSem)
       db  ::= ((<table> (<col>*) ((<val>*)*))*)      val ::= null | <int> | true | false
  a line may be wrapped in (let ((x e)*) body), see ForML.Model.Dsl
-/
import ForML.Model.Sexp
import ForML.Model.Dsl
import ForML.Model.PushDown
open ForML ForML.Dsl ForML.PushDown

partial def hasAtom (a : String) : Sexp → Bool
  | .atom s => s == a
  | .list xs => xs.any (hasAtom a)

def tableName : Source → String
  | .table n _ => n
  | _ => "?"

def hintSexp (h : Hint) : Sexp :=
  .list [.atom "scan", .atom (tableName h.table), .list (h.cols.map .atom), .list (h.pred.map Feature.toSexp)]

def mode? : Sexp → Option Bool
  | .atom "strict" => some false
  | .atom "lenient" => some true
  | _ => none

def variant? : Sexp → Option Bool
  | .atom "current" => some false
  | .atom "fixed" => some true
  | _ => none

def backend? : Sexp → Option Backend
  | .atom "ignore" => some Backend.ignore
  | .atom "rows" => some Backend.honourRows
  | .atom "cols" => some Backend.honourCols
  | .atom "both" => some Backend.honour
  | _ => none

def val? : Sexp → Option Val
  | .atom "null" => some .null
  | .atom "true" => some (.bool true)
  | .atom "false" => some (.bool false)
  | x => x.int?.map .int

def valSexp : Val → Sexp
  | .null => .atom "null"
  | .int n => Sexp.ofInt n
  | .bool b => Sexp.ofBool b
  | .str s => .list [.atom "str", .atom s]

def tableData? : Sexp → Option (String × List Row)
  | .list [.atom n, .list cols, .list rows] => do
    let cs ← cols.mapM Sexp.str?
    let rs ← rows.mapM (fun r => match r with
      | .list vs => do
        let vals ← vs.mapM val?
        if vals.length = cs.length then some (cs.zip vals) else none
      | _ => none)
    pure (n, rs)
  | _ => none

def dbOf (ts : List (String × List Row)) : Db := fun t => (ts.lookup (tableName t)).getD []

def stepC14 (line : Sexp) : Sexp :=
  match expandLet line with
  | none => .atom "bad-op"
  | some x =>
    if hasAtom "window" x then .atom "bad-op" else
    match x with
    | .list [.atom "hints", v, m, s] =>
      match variant? v, mode? m, Source.ofSexp s with
      | some fix, some len, some src =>
        match hints fix len src with
        | .ok hs => .list (.atom "ok" :: hs.map hintSexp)
        | .error e => .list [.atom "error", .atom e.wire]
      | _, _, _ => .atom "bad-op"
    | .list [.atom "needs", s] =>
      match Source.ofSexp s with
      | some src => .list (.atom "ok" :: (needs [] src).map (fun cs => .list (cs.map .atom)))
      | none => .atom "bad-op"
    | .list [.atom "uses", s] =>
      match Source.ofSexp s with
      | some src => .list (.atom "ok" :: (usesIn [] src).map (fun cs => .list (cs.map .atom)))
      | none => .atom "bad-op"
    | .list [.atom "lazy", s] =>
      match Source.ofSexp s with
      | some src => .list (.atom "ok" :: (lazyS src).map (fun tc => .list [.atom (tableName tc.1), .atom tc.2]))
      | none => .atom "bad-op"
    | .list [.atom "scoped", s] =>
      match Source.ofSexp s with
      | some src => .list [.atom "ok", Sexp.ofBool (innerOnly src), Sexp.ofBool (safe false true [] [] src),
          Sexp.ofBool (grammarScoped src), Sexp.ofBool (shaped src), Sexp.ofBool (safe true true [] [] src)]
      | none => .atom "bad-op"
    | .list [.atom "exec", v, b, s, .list db] =>
      match variant? v, backend? b, Source.ofSexp s, db.mapM tableData? with
      | some fix, some be, some src, some ts =>
        .list (.atom "ok" :: (result fix true simpleSem be (dbOf ts) src).map (fun r => .list (r.map (fun kv => valSexp kv.2))))
      | _, _, _, _ => .atom "bad-op"
    | _ => .atom "bad-op"

def main : IO Unit := driverLoop stepC14
