/- Line-protocol driver for the C20 models (ForML.Model.Conf, ForML.Model.Bank).

  (stack (<cfg> …))                                   → (ok <cfg, keys sorted>)
  (section <cfg> group ref kProvider kParams)         → (ok <provider cfg | none> <params table>) | missing | malformed
  (bank (<module> …) (<op> …))                        → (<result> …)
      module ::= (<mod> (sub …) (<class> …))          mod ::= (pkg sub|none)
      class  ::= (<mod> qn alias|none unimpl inner (<classid> …) (<mod> …))      classid ::= (<mod> qn)
      op     ::= (import <mod>) | (get <classid> <ref> (<mod> …))            ref ::= (a n) | (q <mod> qn)
      result ::= ok | notfound | (err e) | (ok <classid>) | bad-order
  cfg ::= (s n) | (l n …) | (t (k <cfg>) …)
-/
import ForML.Model.Sexp
import ForML.Model.Conf
import ForML.Model.Bank
open ForML

namespace C20Driver
open ForML.Conf

partial def cfg? : Sexp → Option Cfg
  | .list [.atom "s", n] => n.nat?.map Cfg.scalar
  | .list (.atom "l" :: xs) => (xs.mapM Sexp.nat?).map Cfg.list
  | .list (.atom "t" :: es) =>
    (es.mapM (fun (e : Sexp) => match e with
      | Sexp.list [k, v] => do pure ((← k.nat?), (← cfg? v))
      | _ => none)).map Cfg.table
  | _ => none

partial def insertSorted (e : Nat × Sexp) : List (Nat × Sexp) → List (Nat × Sexp)
  | [] => [e]
  | x :: r => if e.1 ≤ x.1 then e :: x :: r else x :: insertSorted e r

partial def ofCfg : Cfg → Sexp
  | .scalar n => Sexp.list [Sexp.atom "s", Sexp.ofNat n]
  | .list xs => Sexp.list (Sexp.atom "l" :: xs.map Sexp.ofNat)
  | .table t =>
    let es := t.foldl (fun acc e => insertSorted (e.1, ofCfg e.2) acc) []
    Sexp.list (Sexp.atom "t" :: es.map (fun e => Sexp.list [Sexp.ofNat e.1, e.2]))

open ForML.Bank

def optNat? : Sexp → Option (Option Nat)
  | .atom "none" => some none
  | x => x.nat?.map some

def bool? : Sexp → Option Bool
  | .atom "true" => some true
  | .atom "false" => some false
  | _ => none

def mod? : Sexp → Option Mod
  | .list [p, s] => do pure ⟨← p.nat?, ← optNat? s⟩
  | _ => none

def classId? : Sexp → Option ClassId
  | .list [m, q] => do pure ⟨← mod? m, ← q.nat?⟩
  | _ => none

def class? : Sexp → Option ClassDef
  | .list [m, q, a, ab, inner, .list ps, .list paths] => do
    pure ⟨⟨← mod? m, ← q.nat?⟩, ← optNat? a, ← bool? ab, ← bool? inner, ← ps.mapM classId?, ← paths.mapM mod?⟩
  | _ => none

def module? : Sexp → Option (Mod × ModuleDef)
  | .list [m, subs, .list cs] => do pure (← mod? m, ⟨← subs.natList?, ← cs.mapM class?⟩)
  | _ => none

def ref? : Sexp → Option Ref
  | .list [.atom "a", n] => n.nat?.map .alias
  | .list [.atom "q", m, q] => do pure (.qual ⟨← mod? m, ← q.nat?⟩)
  | _ => none

inductive Op where
  | imp : Mod → Op
  | get : ClassId → Ref → List Mod → Op

def op? : Sexp → Option Op
  | .list [.atom "import", m] => (mod? m).map .imp
  | .list [.atom "get", i, r, .list order] => do pure (.get (← classId? i) (← ref? r) (← order.mapM mod?))
  | _ => none

def ofErr : Err → Sexp
  | .collision => .atom "collision"
  | .abstractAlias => .atom "abstract-alias"
  | .preload => .atom "preload"
  | .missing => .atom "missing"

def ofMod (m : Mod) : Sexp := .list [Sexp.ofNat m.pkg, match m.sub with
  | some s => Sexp.ofNat s
  | none => .atom "none"]

def runOps (w : World) : St → List Op → List Sexp
  | _, [] => []
  | st, .imp m :: rest =>
    match importMod w st m with
    | none => .atom "notfound" :: runOps w (afterNotFound w st m) rest
    | some (st', some e) => .list [.atom "err", ofErr e] :: runOps w st' rest
    | some (st', none) => .atom "ok" :: runOps w st' rest
  | st, .get i r order :: rest =>
    if !validOrder (getBank i st.banks).paths order then .atom "bad-order" :: runOps w st rest
    else match ForML.Bank.get w st i r order with
      | (st', .ok c) => .list [.atom "ok", .list [ofMod c.mod, Sexp.ofNat c.qn]] :: runOps w st' rest
      | (st', .error e) => .list [.atom "err", ofErr e] :: runOps w st' rest

def step : Sexp → Sexp
  | .list [.atom "stack", .list cs] =>
    match cs.mapM cfg? with
    | some cs => .list [.atom "ok", ofCfg (stack (.table []) cs)]
    | none => .atom "bad-op"
  | .list [.atom "section", c, g, r, kp, kq] =>
    match cfg? c, g.nat?, r.nat?, kp.nat?, kq.nat? with
    | some c, some g, some r, some kp, some kq =>
      match resolveSection c g r kp kq with
      | .ok (prov, params) => .list [.atom "ok", (match prov with
          | some p => ofCfg p
          | none => .atom "none"), ofCfg (.table params)]
      | .error .missing => .atom "missing"
      | .error .malformed => .atom "malformed"
    | _, _, _, _, _ => .atom "bad-op"
  | .list [.atom "bank", .list ms, .list ops] =>
    match ms.mapM module?, ops.mapM op? with
    | some w, some ops => .list (runOps w St.empty ops)
    | _, _ => .atom "bad-op"
  | _ => .atom "bad-op"

end C20Driver

def main : IO Unit := driverLoop C20Driver.step
