/- Line-protocol driver for the C20 models (ForML.Model.Conf, ForML.Model.Bank).

  (stack (<cfg> …))                                   → (ok <cfg, keys sorted>)
  (section <cfg> group ref kProvider kParams)         → (ok <provider cfg | none> <params table>) | missing | malformed
  (bank (<module> …) (<op> …))                        → (<result> …)
      module ::= (<mod> (sub …) (<class> …))          mod ::= (pkg sub|none)
      class  ::= (<mod> qn alias|none unimpl inner (<classid> …) (<mod> …))      classid ::= (<mod> qn)
      op     ::= (import <mod>) | (reload <mod> (interned-qn …)) | (get <classid> <ref> (<mod> …))   (`noiface` when the
                 interface's module is not imported)     ref ::= (a n) | (q <mod> qn)
                 (the module list of a `get` is the observed iteration order of the bank's path set: it has to be a
                 permutation of the model's path set — `bad-order` otherwise —; the repaired `Bank.get` sorts, so it is
                 not used any further)
      result ::= ok | notfound | (err e) | (ok <classid>) | bad-order
  (multi <cfg> index group sel kProvider kParams kPriority prio0 <cfg>|none)   → (ok ((ref prio <params table>) …)) | missing | malformed
  (mode <cfg> index group kDefault kApply kEval kProvider kParams <cfg>|none) → (ok <resolved> <resolved>) | missing | malformed
      resolved ::= (<provider cfg | none> <params table>)
  (bankt (<clsstmt> …) (<tmodule> …) (<op> …))        → (<result> …)      the class flags are computed from the class table
      clsstmt ::= (abc|noabc ((name <attr>) …) (base …) (mro …))   attr ::= (f true|false) | (c k) | o
      tmodule ::= (<mod> (sub …) (<prov> …))         prov ::= (<mod> qn alias|none k ((<classid> service?) …) (<mod> …))   the MRO tail with the Service-subclass flag
  (abstract (<clsstmt> …))                            → ((inspect ext (abstract-name …)) …)   one entry per class statement
  cfg ::= (s n) | (l n …) | (t (k <cfg>) …)
-/
import ForML.Model.Sexp
import ForML.Model.Conf
import ForML.Model.ConfSection
import ForML.Model.Bank
import ForML.Model.BankAbc
open ForML

namespace C20Driver
open ForML.Conf

partial def cfg? : Sexp → Option Cfg
  | .list [.atom "s", n] => n.nat?.map Cfg.scalar
  | .list (.atom "l" :: xs) => (xs.mapM Sexp.nat?).map Cfg.list
  | .list (.atom "t" :: es) =>
    (es.mapM (fun (e : Sexp) => match e with
      | Sexp.list [k, v] => do pure ((← k.nat?), (← cfg? v))
      | _ => none)).map Cfg.table
  | _ => none

partial def insertSorted (e : Nat × Sexp) : List (Nat × Sexp) → List (Nat × Sexp)
  | [] => [e]
  | x :: r => if e.1 ≤ x.1 then e :: x :: r else x :: insertSorted e r

partial def ofCfg : Cfg → Sexp
  | .scalar n => Sexp.list [Sexp.atom "s", Sexp.ofNat n]
  | .list xs => Sexp.list (Sexp.atom "l" :: xs.map Sexp.ofNat)
  | .table t =>
    let es := t.foldl (fun acc e => insertSorted (e.1, ofCfg e.2) acc) []
    Sexp.list (Sexp.atom "t" :: es.map (fun e => Sexp.list [Sexp.ofNat e.1, e.2]))

def optCfg? : Sexp → Option (Option Cfg)
  | .atom "none" => some none
  | x => (cfg? x).map some

def ofSecErr : SecErr → Sexp
  | .missing => .atom "missing"
  | .malformed => .atom "malformed"

def ofResolved (r : Resolved) : Sexp :=
  .list [(match r.1 with
    | some p => ofCfg p
    | none => .atom "none"), ofCfg (.table r.2)]

open ForML.Bank

def optNat? : Sexp → Option (Option Nat)
  | .atom "none" => some none
  | x => x.nat?.map some

def bool? : Sexp → Option Bool
  | .atom "true" => some true
  | .atom "false" => some false
  | _ => none

def mod? : Sexp → Option Mod
  | .list [p, s] => do pure ⟨← p.nat?, ← optNat? s⟩
  | _ => none

def classId? : Sexp → Option ClassId
  | .list [m, q] => do pure ⟨← mod? m, ← q.nat?⟩
  | _ => none

def class? : Sexp → Option ClassDef
  | .list [m, q, a, ab, inner, .list ps, .list paths] => do
    pure ⟨⟨← mod? m, ← q.nat?⟩, ← optNat? a, ← bool? ab, ← bool? inner, ← ps.mapM classId?, ← paths.mapM mod?⟩
  | _ => none

def module? : Sexp → Option (Mod × ModuleDef)
  | .list [m, subs, .list cs] => do pure (← mod? m, ⟨← subs.natList?, ← cs.mapM class?⟩)
  | _ => none

def attr? : Sexp → Option Attr
  | .list [.atom "f", b] => (bool? b).map .func
  | .list [.atom "c", k] => k.nat?.map .cls
  | .atom "o" => some .other
  | _ => none

def clsStmt? : Sexp → Option ClsStmt
  | .list [abc, .list ns, bases, mro] => do
    let a ← (match abc with
      | .atom "abc" => some true
      | .atom "noabc" => some false
      | _ => none)
    let ns ← ns.mapM (fun (e : Sexp) => match e with
      | Sexp.list [n, v] => do pure ((← n.nat?), (← attr? v))
      | _ => none)
    pure ⟨a, ns, ← bases.natList?, ← mro.natList?⟩
  | _ => none

def mroEntry? : Sexp → Option (ClassId × Bool)
  | .list [c, b] => do pure (← classId? c, ← bool? b)
  | _ => none

def prov? : Sexp → Option ProvStmt
  | .list [m, q, a, k, .list ps, .list paths] => do
    pure ⟨⟨← mod? m, ← q.nat?⟩, ← optNat? a, ← k.nat?, ← ps.mapM mroEntry?, ← paths.mapM mod?⟩
  | _ => none

def tmodule? : Sexp → Option (Mod × ModuleT)
  | .list [m, subs, .list cs] => do pure (← mod? m, ⟨← subs.natList?, ← cs.mapM prov?⟩)
  | _ => none

def ofBool (b : Bool) : Sexp := .atom (if b then "true" else "false")

def insertNat (n : Nat) : List Nat → List Nat
  | [] => [n]
  | x :: r => if n ≤ x then n :: x :: r else x :: insertNat n r

def ref? : Sexp → Option Ref
  | .list [.atom "a", n] => n.nat?.map .alias
  | .list [.atom "q", m, q] => do pure (.qual ⟨← mod? m, ← q.nat?⟩)
  | _ => none

inductive Op where
  | imp : Mod → Op
  | get : ClassId → Ref → List Mod → Op
  | reload : Mod → List Nat → Op

def op? : Sexp → Option Op
  | .list [.atom "import", m] => (mod? m).map .imp
  | .list [.atom "reload", m, interned] => do pure (.reload (← mod? m) (← interned.natList?))
  | .list [.atom "get", i, r, .list order] => do pure (.get (← classId? i) (← ref? r) (← order.mapM mod?))
  | _ => none

def ofErr : Err → Sexp
  | .collision => .atom "collision"
  | .abstractAlias => .atom "abstract-alias"
  | .preload => .atom "preload"
  | .missing => .atom "missing"

def ofMod (m : Mod) : Sexp := .list [Sexp.ofNat m.pkg, match m.sub with
  | some s => Sexp.ofNat s
  | none => .atom "none"]

def runOps (w : World) : St → List Op → List Sexp
  | _, [] => []
  | st, .imp m :: rest =>
    match importMod w st m with
    | none => .atom "notfound" :: runOps w (afterNotFound w st m) rest
    | some (st', some e) => .list [.atom "err", ofErr e] :: runOps w st' rest
    | some (st', none) => .atom "ok" :: runOps w st' rest
  | st, .reload m interned :: rest =>
    match reloadMod w interned st m with
    | none => .atom "notfound" :: runOps w st rest
    | some (st', some e) => .list [.atom "err", ofErr e] :: runOps w st' rest
    | some (st', none) => .atom "ok" :: runOps w st' rest
  | st, .get i r order :: rest =>
    if !st.loaded.contains i.mod then .atom "noiface" :: runOps w st rest
    else if !validOrder (getBank i st.banks).paths order then .atom "bad-order" :: runOps w st rest
    else match ForML.Bank.get w st i r with
      | (st', .ok c) => .list [.atom "ok", .list [ofMod c.mod, Sexp.ofNat c.qn]] :: runOps w st' rest
      | (st', .error e) => .list [.atom "err", ofErr e] :: runOps w st' rest

def step : Sexp → Sexp
  | .list [.atom "stack", .list cs] =>
    match cs.mapM cfg? with
    | some cs => .list [.atom "ok", ofCfg (stack (.table []) cs)]
    | none => .atom "bad-op"
  | .list [.atom "section", c, g, r, kp, kq] =>
    match cfg? c, g.nat?, r.nat?, kp.nat?, kq.nat? with
    | some c, some g, some r, some kp, some kq =>
      match resolveSection c g r kp kq with
      | .ok (prov, params) => .list [.atom "ok", (match prov with
          | some p => ofCfg p
          | none => .atom "none"), ofCfg (.table params)]
      | .error .missing => .atom "missing"
      | .error .malformed => .atom "malformed"
    | _, _, _, _, _ => .atom "bad-op"
  | .list [.atom "multi", c, idx, g, sel, kp, kq, kr, prio0, ex] =>
    match cfg? c, [idx, g, sel, kp, kq, kr, prio0].mapM Sexp.nat?, optCfg? ex with
    | some c, some [idx, g, sel, kp, kq, kr, prio0], some ex =>
      match resolveMulti c idx g sel kp kq kr prio0 ex with
      | .ok es => .list [.atom "ok", .list (es.map (fun e =>
          .list [Sexp.ofNat e.ref, Sexp.ofNat e.prio, ofCfg (.table e.params)]))]
      | .error e => ofSecErr e
    | _, _, _ => .atom "bad-op"
  | .list [.atom "mode", c, idx, g, kd, ka, ke, kp, kq, ex] =>
    match cfg? c, [idx, g, kd, ka, ke, kp, kq].mapM Sexp.nat?, optCfg? ex with
    | some c, some [idx, g, kd, ka, ke, kp, kq], some ex =>
      match resolveMode c idx g kd ka ke kp kq ex with
      | .ok (x, y) => .list [.atom "ok", ofResolved x, ofResolved y]
      | .error e => ofSecErr e
    | _, _, _ => .atom "bad-op"
  | .list [.atom "bankt", .list cs, .list ms, .list ops] =>
    match cs.mapM clsStmt?, ms.mapM tmodule?, ops.mapM op? with
    | some cs, some wt, some ops => .list (runOps (WorldT.toWorld (build cs) wt) St.empty ops)
    | _, _, _ => .atom "bad-op"
  | .list [.atom "abstract", .list cs] =>
    match cs.mapM clsStmt? with
    | some cs =>
      let tab := build cs
      .list ((List.range tab.length).map (fun k =>
        .list [ofBool (inspectAbstract tab k), ofBool (isabstract tab k),
          .list (((tab[k]?).map (fun c => (c.abstracts.foldr insertNat []).eraseDups)).getD [] |>.map Sexp.ofNat)]))
    | none => .atom "bad-op"
  | .list [.atom "bank", .list ms, .list ops] =>
    match ms.mapM module?, ops.mapM op? with
    | some w, some ops => .list (runOps w St.empty ops)
    | _, _ => .atom "bad-op"
  | _ => .atom "bad-op"

end C20Driver

def main : IO Unit := driverLoop C20Driver.step
