/- Line-protocol driver for the C11 model (ForML.Model.Graph).

  in : (seq op …)   op ::= (mkworker <bool> szin szout) | (mkfuture szin szout) | (fork n)
                          | (sub s j p i) | (pub p i s k) | (pubp p i s portcode) | (train n tp ti lp li) | (segment h t|none) | (validate h t|none)
                          | (extend h t|none seg|none x|none) | (copy h t|none) | (trunk seg|none seg|none seg|none)
                          | (textend (seg seg seg) seg|none seg|none seg|none) | (compose (seg seg seg) …)
                          seg ::= (h t|none)
     | (seqf op …)  same ops, answers ((res …) (outs regs workers)): all results, final state only
  out: ((res outs regs workers) …) one record per op
-/
import ForML.Model.Sexp
import ForML.Model.Graph
open ForML ForML.Graph

/-- port code shared with the harness: Train 0, Label 1, Apply(i) i+2 -/
def portCode : Port → Nat
  | .train => 0
  | .label => 1
  | .apply i => i + 2

def errS : Err → String
  | .shape => "shape" | .double => "double" | .collision => "collision"
  | .publishingTrained => "publishing-trained" | .futureSubscribing => "future-subscribing"
  | .self => "self" | .trainedPublishing => "trained-publishing" | .stateless => "stateless"
  | .forkTrain => "fork-train" | .cyclic => "cyclic" | .ambiguous => "ambiguous"
  | .disconnected => "disconnected" | .simpleHead => "simple-head" | .simpleTail => "simple-tail"
  | .futures => "futures" | .recursion => "recursion" | .noNode => "no-node"
  | .unpack => "unpack" | .noPath => "no-path" | .aliased => "aliased"

def resS : Res → Sexp
  | .ok => .list [.atom "ok"]
  | .node n => .list [.atom "node", Sexp.ofNat n]
  | .err e => .list [.atom "err", .atom (errS e)]
  | .segs l => .list (.atom "segs" :: l.map (fun p => Sexp.ofNats [p.1, p.2]))

/-- (outs regs workers): what the harness dumps from the real objects after every call -/
def stateS (g : G) : List Sexp :=
  let idx := List.range g.nodes.length
  let outs := idx.map (fun n =>
    let szout := (g.nodes.getD n default).szout
    Sexp.list ((List.range szout).map (fun i =>
      Sexp.list ((out g n i).map (fun s => Sexp.ofNats [s.node, portCode s.port])))))
  let regs := (idx.filter (isFuture g)).flatMap (fun f =>
    (g.regs.filter (fun r => r.fut = f)).map (fun r => Sexp.ofNats [r.fut, r.idx, r.pub, r.out]))
  let workers := (idx.filter (isWorker g)).map (fun n =>
    Sexp.list [Sexp.ofNat n, Sexp.ofBool (trained g n), Sexp.ofBool (derived g n), Sexp.ofNats (group g n),
               Sexp.ofNats (((inputs g n).map portCode).mergeSort (· ≤ ·))])
  [.list outs, .list regs, .list workers]

def bool? : Sexp → Option Bool
  | .atom "true" => some true
  | .atom "false" => some false
  | _ => none

def optNat? : Sexp → Option (Option Nat)
  | .atom "none" => some none
  | x => x.nat?.map some

/-- a segment description `(h t|none)` -/
def seg? : Sexp → Option (Nat × Option Nat)
  | .list [h, t] => do pure (← h.nat?, ← optNat? t)
  | _ => none

def optSeg? : Sexp → Option (Option (Nat × Option Nat))
  | .atom "none" => some none
  | x => (seg? x).map some

def trunk? : Sexp → Option TrunkSpec
  | .list [a, t, l] => do pure ⟨← seg? a, ← seg? t, ← seg? l⟩
  | _ => none

/-- the port of a port code: Train 0, Label 1, Apply(i) i+2 -/
def codePort? (x : Sexp) : Option Port := do
  match ← x.nat? with
  | 0 => pure .train
  | 1 => pure .label
  | c + 2 => pure (.apply c)

def op? : Sexp → Option Op
  | .list [.atom "mkworker", st, i, o] => do pure (.mkWorker (← bool? st) (← i.nat?) (← o.nat?))
  | .list [.atom "mkfuture", i, o] => do pure (.mkFuture (← i.nat?) (← o.nat?))
  | .list [.atom "fork", n] => do pure (.fork (← n.nat?))
  | .list [.atom "sub", s, j, p, i] => do pure (.subscribe (← s.nat?) (← j.nat?) (← p.nat?) (← i.nat?))
  | .list [.atom "pub", p, i, s, k] => do pure (.publish (← p.nat?) (← i.nat?) (← s.nat?) (.apply (← k.nat?)))
  | .list [.atom "pubp", p, i, s, c] => do pure (.publish (← p.nat?) (← i.nat?) (← s.nat?) (← codePort? c))
  | .list [.atom "train", n, tp, ti, lp, li] => do
    pure (.train (← n.nat?) (← tp.nat?) (← ti.nat?) (← lp.nat?) (← li.nat?))
  | .list [.atom "segment", h, t] => do pure (.segment (← h.nat?) (← optNat? t))
  | .list [.atom "validate", h, t] => do pure (.validate (← h.nat?) (← optNat? t))
  | .list [.atom "extend", h, t, r, x] => do pure (.extend (← h.nat?) (← optNat? t) (← optSeg? r) (← optNat? x))
  | .list [.atom "copy", h, t] => do pure (.copy (← h.nat?) (← optNat? t))
  | .list [.atom "trunk", a, t, l] => do pure (.trunk (← optSeg? a) (← optSeg? t) (← optSeg? l))
  | .list [.atom "textend", b, a, t, l] => do
    pure (.textend (← trunk? b) (← optSeg? a) (← optSeg? t) (← optSeg? l))
  | .list (.atom "compose" :: ts) => do pure (.compose (← ts.mapM trunk?))
  | _ => none

def runSeq (g : G) : List Op → List Sexp
  | [] => []
  | op :: ops =>
    let r := step g op
    Sexp.list (resS r.2 :: stateS r.1) :: runSeq r.1 ops

/-- results of every op, state after the last one only (exhaustive enumeration: prefixes are cases of their own) -/
def runFinal (g : G) : List Op → List Sexp → Sexp
  | [], acc => .list [.list acc.reverse, .list (stateS g)]
  | op :: ops, acc =>
    let r := step g op
    runFinal r.1 ops (resS r.2 :: acc)

def stepC11 : Sexp → Sexp
  | .list (.atom "seq" :: ops) =>
    match ops.mapM op? with
    | some ops => .list (runSeq init ops)
    | none => .atom "bad-op"
  | .list (.atom "seqf" :: ops) =>
    match ops.mapM op? with
    | some ops => runFinal init ops []
    | none => .atom "bad-op"
  | _ => .atom "bad-op"

def main : IO Unit := driverLoop stepC11
