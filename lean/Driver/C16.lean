/- Line-protocol driver for the C16 model (ForML.Model.Serving).

   cfg      ::= (cfg (caller*) (app*) ((app inst)*) workers locked ((inst fanout)*) reset)
   caller   ::= (app badEncoding badAccept kind payload)      kind ::= ok | missingColumn | fatal | (refused branch)
   reset    ::= always | firstCallOnly | onSuccessOnly
   outcome  ::= (value inst payload) | (mixed inst (payload*)) | (error err)     err ::= missingApp | … | (invalid payload branch)
   (replay cfg (step*))          → (ok stuck (answer*)) | (disabled k)       step ::= (arrive c) | (desc c) | …
        plus the macro step (desc* c): thread c runs `_get_descriptor` from where it is until it leaves it
   (random cfg seed fuel)        → (ok stuck nsteps (answer*))
   (validate cfg (event*))       → (ok stuck (answer*)) | (reject reason k …)
        event ::= (arrive c) | (answer c outcome)    — the observable projection of a schedule
   (worker reset inst fanout ((kind payload)*))  → (ok (outcome*) queueLength calls)
        one pool worker serving the entries one after the other (`serveAll`)
   (http (outcome*))             → (ok ((status served)*))      served ::= none | inst   — the REST gateway's mapping
-/
import ForML.Model.Sexp
import ForML.Model.Serving
import ForML.Model.ServingGateway
open ForML ForML.Serving

def bool? : Sexp → Option Bool
  | .atom "true" => some true
  | .atom "false" => some false
  | _ => none

def kind? : Sexp → Option EntryKind
  | .atom "ok" => some .ok
  | .atom "missingColumn" => some .missingColumn
  | .atom "fatal" => some .fatal
  | .list [.atom "refused", k] => k.nat?.map .refused
  | _ => none

def reset? : Sexp → Option ResetPolicy
  | .atom "always" => some .always
  | .atom "firstCallOnly" => some .firstCallOnly
  | .atom "onSuccessOnly" => some .onSuccessOnly
  | _ => none

def err? : Sexp → Option Err
  | .atom "missingApp" => some .missingApp
  | .atom "unsupported" => some .unsupported
  | .atom "missingFeatures" => some .missingFeatures
  | .atom "fatal" => some .fatal
  | .atom "notRunning" => some .notRunning
  | .atom "brokenPool" => some .brokenPool
  | .list [.atom "invalid", p, k] => do pure (.invalid (← p.nat?) (← k.nat?))
  | _ => none

def ofErr : Err → Sexp
  | .missingApp => .atom "missingApp" | .unsupported => .atom "unsupported"
  | .missingFeatures => .atom "missingFeatures" | .fatal => .atom "fatal" | .notRunning => .atom "notRunning"
  | .brokenPool => .atom "brokenPool"
  | .invalid p k => .list [.atom "invalid", Sexp.ofNat p, Sexp.ofNat k]

def outcome? : Sexp → Option Outcome
  | .list [.atom "value", i, p] => do pure (.value (← i.nat?) (← p.nat?))
  | .list [.atom "mixed", i, ps] => do pure (.mixed (← i.nat?) (← ps.natList?))
  | .list [.atom "error", e] => do pure (.error (← err? e))
  | _ => none

def ofOutcome : Outcome → Sexp
  | .value i p => .list [.atom "value", Sexp.ofNat i, Sexp.ofNat p]
  | .mixed i ps => .list [.atom "mixed", Sexp.ofNat i, .list (ps.map Sexp.ofNat)]
  | .error e => .list [.atom "error", ofErr e]

def caller? : Sexp → Option CallerSpec
  | .list [a, b, ba, k, p] => do pure ⟨← a.nat?, ← bool? b, ← bool? ba, ⟨← kind? k, ← p.nat?⟩⟩
  | _ => none

def pair? : Sexp → Option (Nat × Nat)
  | .list [a, b] => do pure (← a.nat?, ← b.nat?)
  | _ => none

/-- `select` must be given for every inventory application and the fan-out for every selected instance: no
default instance / pipeline shape is invented -/
def cfg? : Sexp → Option Config
  | .list [.atom "cfg", .list cs, inv, .list sel, w, l, .list fan, rs] => do
    let callers ← cs.mapM caller?
    let inventory ← inv.natList?
    let table ← sel.mapM pair?
    let workers ← w.nat?
    let locked ← bool? l
    let fans ← fan.mapM pair?
    let reset ← reset? rs
    if inventory.all (fun a => (table.lookup a).isSome) && table.all (fun ai => (fans.lookup ai.2).isSome) then
      pure { callers, inventory, select := fun a => (table.lookup a).getD 0, workers, locked,
             fanout := fun i => (fans.lookup i).getD 1, reset }
    else none
  | _ => none

def entry? : Sexp → Option Entry
  | .list [k, p] => do pure ⟨← kind? k, ← p.nat?⟩
  | _ => none

def step? : Sexp → Option Step
  | .list [.atom "arrive", c] => c.nat?.map .arrive
  | .list [.atom "desc", c] => c.nat?.map .desc
  | .list [.atom "decodeFail", c] => c.nat?.map .decodeFail
  | .list [.atom "submit", c] => c.nat?.map .submit
  | .list [.atom "take", i, w] => do pure (.take (← i.nat?) (← w.nat?))
  | .list [.atom "finish", i, w] => do pure (.finish (← i.nat?) (← w.nat?))
  | .list [.atom "deliver", i] => i.nat?.map .deliver
  | .list [.atom "respond", c] => c.nat?.map .respond
  | _ => none

/-- a schedule item: one step, or the macro `(desc* c)` -/
inductive Item where
  | one (a : Step)
  | descAll (c : Nat)

def item? : Sexp → Option Item
  | .list [.atom "desc*", c] => c.nat?.map .descAll
  | x => (step? x).map .one

inductive Event where
  | arrive (c : Nat)
  | answer (c : Nat) (o : Outcome)

def event? : Sexp → Option Event
  | .list [.atom "arrive", c] => c.nat?.map .arrive
  | .list [.atom "answer", c, o] => do pure (.answer (← c.nat?) (← outcome? o))
  | _ => none

def ofAnswers (as : List (Nat × Outcome)) : Sexp :=
  .list (as.reverse.map (fun a => .list [Sexp.ofNat a.1, ofOutcome a.2]))

def isCritical : Phase → Bool
  | .d1 | .d2 _ | .d3 _ | .d4 _ => true
  | _ => false

/-- `desc c` once, then again while `c` is inside the critical section (at most 5 more) -/
def descAll (cfg : Config) (c : Nat) (s : State) : Option State :=
  match step cfg s (.desc c) with
  | none => none
  | some s1 =>
    let rec go : Nat → State → Option State
      | 0, st => some st
      | n + 1, st => if isCritical (st.phase c) then
          match step cfg st (.desc c) with
          | none => none
          | some st' => go n st'
        else some st
    go 5 s1

/-- run a schedule, reporting the index of the first item that is not enabled -/
def replay (cfg : Config) : State → List Item → Nat → Except Nat State
  | s, [], _ => .ok s
  | s, .one a :: as, k => match step cfg s a with
    | none => .error k
    | some s' => replay cfg s' as (k + 1)
  | s, .descAll c :: as, k => match descAll cfg c s with
    | none => .error k
    | some s' => replay cfg s' as (k + 1)

/-- the internal steps that bring caller `c` to its answer, taken greedily (unobservable steps may be delayed
up to the answer they precede).  `wantMissing`: the observed answer is "application not found" for a known
application — only the unsynchronised descriptor interleaving (D17) can produce it, with a helper thread. -/
def drive (cfg : Config) (c : Nat) (wantMissing : Bool) : Nat → State → Option State
  | 0, _ => none
  | fuel + 1, s =>
    match s.phase c with
    | .fresh => none
    | .done => some s
    | .d0 =>
      if wantMissing then
        -- c: check; helper: check, list, diff, update; c: list, diff, update, test
        let helper := (List.range cfg.callers.length).find? (fun h => h != c && s.phase h == .d0
          && !((spec cfg h).app ∈ s.cache))
        match helper with
        | none => none
        | some h =>
          match run cfg s [.desc c, .desc h, .desc h, .desc h, .desc h, .desc c, .desc c, .desc c, .desc c] with
          | none => none
          | some s' => drive cfg c false fuel s'
      else
        match step cfg s (.desc c) with
        | none => none
        | some s' => drive cfg c false fuel s'
    | .d1 | .d2 _ | .d3 _ | .d4 _ =>
      match step cfg s (.desc c) with
      | none => none
      | some s' => drive cfg c false fuel s'
    | .resolved =>
      match step cfg s (if (spec cfg c).badEncoding then .decodeFail c else .submit c) with
      | none => none
      | some s' => drive cfg c false fuel s'
    | .submitted i _ =>
      let e := s.execs i
      let a : Option Step :=
        match e.resultQ, e.held, e.taskQ with
        | _ :: _, _, _ => some (.deliver i)
        | [], (w, _) :: _, _ => some (.finish i w)
        | [], [], _ :: _ => some (.take i 0)
        | [], [], [] => none
      match a with
      | none => none
      | some a => match step cfg s a with
        | none => none
        | some s' => drive cfg c false fuel s'
    | .responding _ =>
      match step cfg s (.respond c) with
      | none => none
      | some s' => drive cfg c false fuel s'

/-- is the observed event sequence the projection of a schedule?  Returns the final state or the index and
reason of the first event no schedule can produce. -/
def validate (cfg : Config) : State → List Nat → List Event → Nat → Except Sexp State
  | s, _, [], _ => .ok s
  | s, seen, .arrive c :: es, k =>
    match step cfg s (.arrive c) with
    | none => .error (.list [.atom "reject", .atom "arrive-not-enabled", Sexp.ofNat k])
    | some s' => validate cfg s' seen es (k + 1)
  | s, seen, .answer c o :: es, k =>
    if seen.contains c then .error (.list [.atom "reject", .atom "answered-twice", Sexp.ofNat k])
    else
      let fuel := 16 * (cfg.callers.length + 4)
      let spurious (v : Nat) (ov : Outcome) (st : State) : Bool :=
        ov == .error .missingApp && decide ((spec cfg v).app ∈ cfg.inventory) && st.phase v == .d0
      -- callers observed later with a spurious "not found" lost the descriptor race now (their answer may be
      -- observed any time later): run their interleaving before anybody fills the cache
      let s := es.foldl (fun st e => match e with
        | .answer v ov => if v != c && spurious v ov st then (drive cfg v true fuel st).getD st else st
        | _ => st) s
      let wantMissing := spurious c o s
      match drive cfg c wantMissing fuel s with
      | none => .error (.list [.atom "reject", .atom "no-schedule-answers-caller", Sexp.ofNat k])
      | some s' =>
        match s'.answers.lookup c with
        | none => .error (.list [.atom "reject", .atom "not-answered", Sexp.ofNat k])
        | some m =>
          if m == o then validate cfg s' (c :: seen) es (k + 1)
          else .error (.list [.atom "reject", .atom "outcome-differs", Sexp.ofNat k, ofOutcome m])

def stepC16 : Sexp → Sexp
  | .list [.atom "replay", c, .list steps] =>
    match cfg? c, steps.mapM item? with
    | some cfg, some sched =>
      match replay cfg init sched 0 with
      | .error k => .list [.atom "disabled", Sexp.ofNat k]
      | .ok s => .list [.atom "ok", Sexp.ofBool (stuck cfg s), ofAnswers s.answers]
    | _, _ => .atom "bad-op"
  | .list [.atom "random", c, seed, fuel] =>
    match cfg? c, seed.nat?, fuel.nat? with
    | some cfg, some seed, some fuel =>
      let (s, sched) := randomRun cfg (instsOf cfg) fuel seed init []
      .list [.atom "ok", Sexp.ofBool (stuck cfg s), Sexp.ofNat sched.length, ofAnswers s.answers]
    | _, _, _ => .atom "bad-op"
  | .list [.atom "validate", c, .list events] =>
    match cfg? c, events.mapM event? with
    | some cfg, some evs =>
      match validate cfg init [] evs 0 with
      | .error r => r
      | .ok s => .list [.atom "ok", Sexp.ofBool (stuck cfg s), ofAnswers s.answers]
    | _, _ => .atom "bad-op"
  | .list [.atom "worker", rs, i, n, .list es] =>
    match reset? rs, i.nat?, n.nat?, es.mapM entry? with
    | some pol, some inst, some n, some hist =>
      let r := serveAll pol inst n {} hist
      .list [.atom "ok", .list (r.1.map ofOutcome), Sexp.ofNat r.2.queue.length, Sexp.ofNat r.2.calls]
    | _, _, _, _ => .atom "bad-op"
  | .list [.atom "http", .list os] =>
    match os.mapM outcome? with
    | some outs =>
      .list [.atom "ok", .list (outs.map (fun o =>
        let r := gateway o
        .list [Sexp.ofNat r.status, match r.served with | some i => Sexp.ofNat i | none => .atom "none"]))]
    | none => .atom "bad-op"
  | _ => .atom "bad-op"

def main : IO Unit := driverLoop stepC16
