/- Line-protocol driver for the C04 model (ForML.Model.Persist).

  in : (case <comp> <perf> <sink: true|false> (<action> ...))
         comp   = (comp ((uid gid tag stateful trained) ...) ((pub sub) ...) applyHead applyTail trainHead trainTail)
         perf   = (error) | <comp>
         action = (train|apply|perftrack|serve  none|<generation>  run  hp  shift  <crash>  <race>)
           crash  = none | <k>: (train) the process dies inside its commit, <k> micro-steps completed (a proper prefix)
           race   = none | (run hp): another process re-trains and commits after the first state load of this action
       every action runs on the case renamed by `+ shift` (uids and gids): a fresh expansion
  out: (ok (wf <plain> <perf> (<the conjuncts of wfPlain> <tailClean>)) (ptags <tag|none> ...) (<step> ...) (perfmodel agree|differ|both-refuse|impl-refuses|model-refuses))
         perfmodel: the perftrack composition derived in the model (`Comp.perfOf`) against the extracted one: do they
         persist the same occurrences position by position / are both refused
         step = (ok <number of generations afterwards> (<obs> ...)) | (error <name>)
         obs  = (a tag hp <state>) | (t tag hp <state>)       state = none | (tag run hp none|(ptag prun))
-/
import ForML.Model.Sexp
import ForML.Model.Persist
import ForML.Model.PersistCopy
import ForML.Model.PersistCommit
open ForML ForML.Persist

def bool? : Sexp → Option Bool
  | .atom "true" => some true
  | .atom "false" => some false
  | _ => none

def node? : Sexp → Option Node
  | .list [u, g, t, s, tr] => do pure ⟨← u.nat?, ← g.nat?, ← t.nat?, ← bool? s, ← bool? tr⟩
  | _ => none

def edge? : Sexp → Option (Nat × Nat)
  | .list [p, s] => do pure (← p.nat?, ← s.nat?)
  | _ => none

def comp? : Sexp → Option Comp
  | .list [.atom "comp", .list ns, .list es, ah, at_, th, tt] => do
    pure ⟨← ns.mapM node?, ← es.mapM edge?, ← ah.nat?, ← at_.nat?, ← th.nat?, ← tt.nat?⟩
  | _ => none

def perf? : Sexp → Option (Except Err Comp)
  | .list [.atom "error"] => some (.error .topology)
  | x => (comp? x).map .ok

def kind? : Sexp → Option Kind
  | .atom "train" => some .train
  | .atom "apply" => some .apply
  | .atom "perftrack" => some .perftrack
  | .atom "serve" => some .serve
  | _ => none

def gen? : Sexp → Option (Option Nat)
  | .atom "none" => some none
  | x => x.nat?.map some

structure Extra where
  shift : Nat
  crash : Option Nat
  race : Option (Nat × Nat)

def race? : Sexp → Option (Option (Nat × Nat))
  | .atom "none" => some none
  | .list [r, h] => do pure (some (← r.nat?, ← h.nat?))
  | _ => none

def action? : Sexp → Option (Action × Extra)
  | .list [k, g, r, h, s, c, rc] => do
    pure (⟨← kind? k, ← gen? g, ← r.nat?, ← h.nat?⟩, ⟨← s.nat?, ← gen? c, ← race? rc⟩)
  | _ => none

def originSexp (o : Origin) : Sexp :=
  .list [Sexp.ofNat o.tag, Sexp.ofNat o.run, Sexp.ofNat o.hp,
    match o.prev with
    | none => .atom "none"
    | some (t, r) => .list [Sexp.ofNat t, Sexp.ofNat r]]

def stateSexp : Option Origin → Sexp
  | none => .atom "none"
  | some o => originSexp o

def obsSexp : Obs → Sexp
  | .applied t h s => .list [.atom "a", Sexp.ofNat t, Sexp.ofNat h, stateSexp s]
  | .trained t h s => .list [.atom "t", Sexp.ofNat t, Sexp.ofNat h, stateSexp s]

def errName : Err → String
  | .invalidGeneration => "invalid-generation"
  | .unknownNode => "unknown-node"
  | .index => "index"
  | .assembly => "assembly"
  | .topology => "topology"

/-- the registry after the action: a training that dies inside its commit publishes nothing it has not completed
(`crashedCommit`: the micro-steps on the store of directories); a racing re-training commits on top of the registry
the action started from (the action's own loads are pinned: `C04_generation_pinned`) -/
def settle (cs : Case) (reg reg' : Registry) (a : Action) (x : Extra) : Registry :=
  let afterCrash := match x.crash with
    | none => reg'
    | some k =>
      match reg'.drop reg.length with
      | [g] =>
        let total := (trainOps (reg.length + 1) g.run (g.states.map (fun o => (0, o)))).length
        crashedCommit reg g (min k (total - 1))
      | _ => reg'
  match x.race with
  | none => afterCrash
  | some (r, h) =>
    match step (cs.rename (· + x.shift + 500) (· + x.shift + 500)) afterCrash ⟨.train, none, r, h⟩ with
    | .ok (reg'', _) => reg''
    | .error _ => afterCrash

def runActions (cs : Case) : Registry → List (Action × Extra) → List Sexp
  | _, [] => []
  | reg, (a, x) :: rest =>
    match step (cs.rename (· + x.shift) (· + x.shift)) reg a with
    | .error e => .list [.atom "error", .atom (errName e)] :: runActions cs (settle cs reg reg a x) rest
    | .ok (reg', obs) =>
      let reg'' := settle cs reg reg' a x
      .list [.atom "ok", Sexp.ofNat reg''.length, .list (obs.map obsSexp)] :: runActions cs reg'' rest

/-- the extracted perftrack composition against the one the model derives from the plain composition -/
def perfAgrees (plain : Comp) (closed : Bool) (perf : Except Err Comp) : String :=
  match plain.perfOf (· + 500000) closed, perf with
  | .ok p, .ok q => if p.persistentTags == q.persistentTags then "agree" else "differ"
  | .error _, .error _ => "both-refuse"
  | .ok _, .error _ => "impl-refuses"
  | .error _, .ok _ => "model-refuses"

def stepC04 : Sexp → Sexp
  | .list [.atom "case", c, p, snk, .list acts] =>
    match comp? c, perf? p, bool? snk, acts.mapM action? with
    | some plain, some perf, some closed, some acts =>
      let cs : Case := ⟨plain, perf⟩
      .list [.atom "ok",
        .list [.atom "wf", Sexp.ofBool plain.wfPlain, Sexp.ofBool cs.wfPerf,
          .list [Sexp.ofBool plain.tagsConsistent, Sexp.ofBool plain.uidsDistinct, Sexp.ofBool plain.trainedStateful,
            Sexp.ofBool plain.trainersVisited, Sexp.ofBool (plain.appliedDerived plain.applyHead plain.applyTail),
            Sexp.ofBool (plain.appliedDerived plain.trainHead plain.trainTail),
            Sexp.ofBool (plain.noTrainer plain.applyHead plain.applyTail), Sexp.ofBool plain.tailClean]],
        .list (.atom "ptags" :: plain.persistentTags.map (fun t => match t with
          | some t => Sexp.ofNat t
          | none => .atom "none")),
        .list (runActions cs [] acts),
        .list [.atom "perfmodel", .atom (perfAgrees plain closed perf)]]
    | _, _, _, _ => .atom "bad-op"
  | _ => .atom "bad-op"

def main : IO Unit := driverLoop stepC04
