/- Line-protocol driver for the C04 model (ForML.Model.Persist).

  in : (case <comp> <perf> <sink: true|false> (<action> ...) <copyTail>)
         copyTail = the apply tail as `Segment.copy` resolves it (a dangling `Future` tail stands for its publisher)
         comp   = (comp ((uid gid tag stateful trained) ...) ((pub sub oport iport) ...) applyHead applyTail trainHead trainTail)
                  subscriptions per publisher in `for port in node.output for s in port` order, with the publisher's
                  output port index and the subscriber's input port (Apply(i) = i, Train = 1000, Label = 1001)
         perf   = (error) | <comp>
         action = (train|apply|perftrack|serve  none|<generation>  run  hp  shift  <crash>  <race>  <via>)
         or (process shared): marker - all actions of the history run in one process (warm TAGS/STATES caches)
         or (prune <generation>): housekeeping - the generation is removed from the registry (the history then runs on
            the sparse registry, `stepS`; steps answer (ok <number of generations> (<obs> ...) (<listed keys> ...)))
           via    = none | (<handle id> <keeps runners: true|false>): the action works through a long-lived handle
                    (an `asset.Instance` kept across actions; faults are not combined with handles)
           crash  = none | <k>: (train) the process dies inside its commit, <k> micro-steps completed (a proper prefix)
           race   = none | (run hp): another process re-trains and commits after the first state load of this action
       every action runs on the case renamed by `+ shift` (uids and gids): a fresh expansion
       (expr <e> <sink: true|false> (<action> ...))   e = (m|a|t|l tag stateful) | (seq e e) | (par e e merger) — mapper, apply-only, train-only, label step:
         the same report (wf, ptags, steps) for the composition the model expands itself (`compOf`, PersistExpr.lean)
       (params default|own-codec|dict-codec|state-only <hp> <state>) -> (ok <hp> <state>): what `SetState.set` leaves
  out: (ok (wf <plain> <perf> (<the conjuncts of wfPlain> <tailClean>)) (ptags <tag|none> ...) (<step> ...)
           (perfmodel <mech> <spec>) (copy <copyFaithful> <portsOk> <number of mapper paths|error>))
         perfmodel: the perftrack composition derived in the model against the extracted one — do they persist the same
         occurrences position by position / are both refused (agree|differ|both-refuse|impl-refuses|model-refuses);
         <mech>: derived with the copy as `Traversal.copy` produces it (`Comp.perfMech`), <spec>: with the
         order-preserving copy (`Comp.perfOf`)
         step = (ok <number of generations afterwards> (<obs> ...)) | (error <name>)
         obs  = (a tag hp <state>) | (t tag hp <state>)       state = none | (tag run hp none|(ptag prun))
-/
import ForML.Model.Sexp
import ForML.Model.Persist
import ForML.Model.PersistCopy
import ForML.Model.PersistCommit
import ForML.Model.PersistTraverse
import ForML.Model.PersistExpr
import ForML.Model.PersistHandles
import ForML.Model.PersistSparse
open ForML ForML.Persist

def bool? : Sexp → Option Bool
  | .atom "true" => some true
  | .atom "false" => some false
  | _ => none

def node? : Sexp → Option Node
  | .list [u, g, t, s, tr] => do pure ⟨← u.nat?, ← g.nat?, ← t.nat?, ← bool? s, ← bool? tr⟩
  | _ => none

def edge? : Sexp → Option PEdge
  | .list [p, s, o, i] => do pure ⟨← p.nat?, ← s.nat?, ← o.nat?, ← i.nat?⟩
  | _ => none

def comp? : Sexp → Option (Comp × List PEdge)
  | .list [.atom "comp", .list ns, .list es, ah, at_, th, tt] => do
    let pe ← es.mapM edge?
    pure (⟨← ns.mapM node?, pe.map (fun e => (e.pub, e.sub)), ← ah.nat?, ← at_.nat?, ← th.nat?, ← tt.nat?⟩, pe)
  | _ => none

def perf? : Sexp → Option (Except Err Comp)
  | .list [.atom "error"] => some (.error .topology)
  | x => (comp? x).map (fun r => .ok r.1)

def kind? : Sexp → Option Kind
  | .atom "train" => some .train
  | .atom "apply" => some .apply
  | .atom "perftrack" => some .perftrack
  | .atom "serve" => some .serve
  | _ => none

def gen? : Sexp → Option (Option Nat)
  | .atom "none" => some none
  | x => x.nat?.map some

structure Extra where
  shift : Nat
  crash : Option Nat
  race : Option (Nat × Nat)
  via : Option Via

def race? : Sexp → Option (Option (Nat × Nat))
  | .atom "none" => some none
  | .list [r, h] => do pure (some (← r.nat?, ← h.nat?))
  | _ => none

def via? : Sexp → Option (Option Via)
  | .atom "none" => some none
  | .list [i, k] => do pure (some ⟨← i.nat?, ← bool? k⟩)
  | _ => none

def action? : Sexp → Option (Action × Extra)
  | .list [k, g, r, h, s, c, rc, v] => do
    pure (⟨← kind? k, ← gen? g, ← r.nat?, ← h.nat?⟩, ⟨← s.nat?, ← gen? c, ← race? rc, ← via? v⟩)
  | _ => none

def originSexp (o : Origin) : Sexp :=
  .list [Sexp.ofNat o.tag, Sexp.ofNat o.run, Sexp.ofNat o.hp,
    match o.prev with
    | none => .atom "none"
    | some (t, r) => .list [Sexp.ofNat t, Sexp.ofNat r]]

def stateSexp : Option Origin → Sexp
  | none => .atom "none"
  | some o => originSexp o

def obsSexp : Obs → Sexp
  | .applied t h s => .list [.atom "a", Sexp.ofNat t, Sexp.ofNat h, stateSexp s]
  | .trained t h s => .list [.atom "t", Sexp.ofNat t, Sexp.ofNat h, stateSexp s]

def errName : Err → String
  | .invalidGeneration => "invalid-generation"
  | .unknownNode => "unknown-node"
  | .index => "index"
  | .assembly => "assembly"
  | .topology => "topology"

/-- the fault as the model's histories take it (`Persist.settle`): a training that died inside its commit completed a
proper prefix of the micro-steps; the racing re-training works on its own fresh expansion -/
def faultOf (reg reg' : Registry) (x : Extra) : Fault where
  crash := x.crash.map (fun k =>
    match reg'.drop reg.length with
    | [g] => min k ((commitOps reg g).length - 1)
    | _ => k)
  race := x.race.map (fun r => (r.1, r.2, ((· + x.shift + 500), (· + x.shift + 500))))

def runActions (cs : Case) : Registry → Views → List (Action × Extra) → List Sexp
  | _, _, [] => []
  | reg, vs, (a, x) :: rest =>
    match x.via with
    | some via =>
      -- through a long-lived handle (created by its first action, with that action's generation argument)
      let v := (vs.lookup via.id).getD ⟨⟨a.gen⟩, none⟩
      let r := stepVia (cs.rename (· + x.shift) (· + x.shift)) reg v via.keeps a
      (match r.2.1.result with
        | .error e => .list [.atom "error", .atom (errName e)]
        | .ok obs => .list [.atom "ok", Sexp.ofNat r.1.length, .list (obs.map obsSexp)])
        :: runActions cs r.1 (vs.set via.id r.2.2) rest
    | none =>
      match step (cs.rename (· + x.shift) (· + x.shift)) reg a with
      | .error e =>
        .list [.atom "error", .atom (errName e)] :: runActions cs (settle cs reg reg (faultOf reg reg x)) vs rest
      | .ok (reg', obs) =>
        let reg'' := settle cs reg reg' (faultOf reg reg' x)
        .list [.atom "ok", Sexp.ofNat reg''.length, .list (obs.map obsSexp)] :: runActions cs reg'' vs rest

/-- an entry of a history: a lifecycle action, the administrator's `(prune <generation>)`, or the marker `(process
shared)`: all actions run in one process (warm `TAGS`/`STATES` caches) -/
inductive Entry where
  | prune (k : Nat)
  | act (a : Action) (x : Extra)
  | shared

def entry? : Sexp → Option Entry
  | .list [.atom "prune", g] => g.nat?.map .prune
  | .list [.atom "process", .atom "shared"] => some .shared
  | x => (action? x).map (fun ax => .act ax.1 ax.2)

/-- histories with housekeeping run on the sparse registry (faults and handles are not combined with it); `pc`: the
caches of the process when all actions share one (`none`: every action in a process of its own) -/
def runSparseActions (cs : Case) : SReg → Option PC → List Entry → List Sexp
  | _, _, [] => []
  | r, pc, .shared :: rest => runSparseActions cs r pc rest
  | r, pc, .prune k :: rest =>
    let r' := r.prune k
    .list [.atom "ok", Sexp.ofNat r'.length, .list [], Sexp.ofNats r'.keys] :: runSparseActions cs r' pc rest
  | r, pc, .act a x :: rest =>
    let res := stepSC (cs.rename (· + x.shift) (· + x.shift)) r (pc.getD []) a
    match res.1 with
    | .error e => .list [.atom "error", .atom (errName e)] :: runSparseActions cs r (pc.map (fun _ => res.2)) rest
    | .ok (r', obs) =>
      .list [.atom "ok", Sexp.ofNat r'.length, .list (obs.map obsSexp), Sexp.ofNats r'.keys]
        :: runSparseActions cs r' (pc.map (fun _ => res.2)) rest

/-- the history of a case: with a `prune` in it on the sparse registry, else on the dense one (faults, handles) -/
def runEntries (cs : Case) (entries : List Entry) : List Sexp :=
  if entries.any (fun e => match e with | .prune _ => true | _ => false) then
    runSparseActions cs [] (if entries.any (fun e => match e with | .shared => true | _ => false) then some [] else none) entries
  else runActions cs [] [] (entries.filterMap (fun e => match e with | .act a x => some (a, x) | _ => none))

/-- the extracted perftrack composition against the one the model derives from the plain composition -/
def perfAgrees (derived perf : Except Err Comp) : String :=
  match derived, perf with
  | .ok p, .ok q => if p.persistentTags == q.persistentTags then "agree" else "differ"
  | .error _, .error _ => "both-refuse"
  | .ok _, .error _ => "impl-refuses"
  | .error _, .ok _ => "model-refuses"

def wfSexp (cs : Case) : Sexp :=
  let plain := cs.plain
  .list [.atom "wf", Sexp.ofBool plain.wfPlain, Sexp.ofBool cs.wfPerf,
    .list [Sexp.ofBool plain.tagsConsistent, Sexp.ofBool plain.uidsDistinct, Sexp.ofBool plain.trainedStateful,
      Sexp.ofBool plain.trainersVisited, Sexp.ofBool (plain.appliedDerived plain.applyHead plain.applyTail),
      Sexp.ofBool (plain.appliedDerived plain.trainHead plain.trainTail),
      Sexp.ofBool (plain.noTrainer plain.applyHead plain.applyTail), Sexp.ofBool plain.tailClean]]

def ptagsSexp (c : Comp) : Sexp :=
  .list (.atom "ptags" :: c.persistentTags.map (fun t => match t with
    | some t => Sexp.ofNat t
    | none => .atom "none"))

/-- expression of the grammar of Model/PersistExpr.lean -/
partial def pexpr? : Sexp → Option PExpr
  | .list [.atom "m", t, s] => do pure (.mapper (← t.nat?) (← bool? s))
  | .list [.atom "a", t, s] => do pure (.applyOnly (← t.nat?) (← bool? s))
  | .list [.atom "t", t, s] => do pure (.trainOnly (← t.nat?) (← bool? s))
  | .list [.atom "l", t, s] => do pure (.labelOp (← t.nat?) (← bool? s))
  | .list [.atom "seq", a, b] => do pure (.seq (← pexpr? a) (← pexpr? b))
  | .list [.atom "par", a, b, m] => do pure (.par (← pexpr? a) (← pexpr? b) (← m.nat?))
  | _ => none

def stepC04 : Sexp → Sexp
  | .list [.atom "case", c, p, snk, .list acts, ct] =>
    match comp? c, perf? p, bool? snk, acts.mapM entry?, ct.nat? with
    | some (plain, pe), some perf, some closed, some acts, some copyTail =>
      let cs : Case := ⟨plain, perf⟩
      -- `Segment.copy` resolves a dangling `Future` tail to the publisher it is registered with (`copyTail`)
      let toCopy : Comp := { plain with applyTail := copyTail }
      .list [.atom "ok", wfSexp cs, ptagsSexp plain,
        .list (runEntries cs acts),
        .list [.atom "perfmodel", .atom (perfAgrees (toCopy.perfMech (· + 500000) closed pe) perf),
          .atom (perfAgrees (plain.perfOf (· + 500000) closed) perf)],
        .list [.atom "copy", Sexp.ofBool (toCopy.copyFaithful pe), Sexp.ofBool (plain.portsOk pe),
          match toCopy.mpaths with
          | .ok ps => Sexp.ofNat ps.length
          | .error _ => .atom "error"]]
    | _, _, _, _, _ => .atom "bad-op"
  -- the composition the model itself expands from the expression (`compOf`), same report
  | .list [.atom "expr", e, snk, .list acts] =>
    match pexpr? e, bool? snk, acts.mapM entry? with
    | some e, some sink, some acts =>
      let plain := compOf e sink
      let cs : Case := ⟨plain, plain.perfOf (· + 500000) sink⟩
      .list [.atom "ok", wfSexp cs, ptagsSexp plain, .list (runEntries cs acts)]
    | _, _, _ => .atom "bad-op"
  -- `SetState.set` on an actor built with hyper-parameter `hp`: (params <flavour> <hp> <state>) -> (<hp> <state>)
  | .list [.atom "params", fl, hp, st] =>
    let flavour? : Option Flavour := match fl with
      | .atom "default" => some .default
      | .atom "own-codec" => some .ownCodec
      | .atom "dict-codec" => some .dictCodec
      | .atom "state-only" => some .stateOnly
      | _ => none
    let state? : Option (Option Origin) := match st with
      | .atom "none" => some none
      | .list [t, r, h, .atom "none"] => do pure (some ⟨← t.nat?, ← r.nat?, ← h.nat?, none⟩)
      | .list [t, r, h, .list [pt, pr]] => do pure (some ⟨← t.nat?, ← r.nat?, ← h.nat?, some (← pt.nat?, ← pr.nat?)⟩)
      | _ => none
    match flavour?, hp.nat?, state? with
    | some fl, some hp, some st =>
      let a := presetActor fl ⟨hp, none⟩ st
      .list [.atom "ok", Sexp.ofNat a.hp, stateSexp a.state]
    | _, _, _ => .atom "bad-op"
  | _ => .atom "bad-op"

def main : IO Unit := driverLoop stepC04
