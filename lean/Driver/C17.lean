/- Line-protocol driver for the C17 models (ForML.Model.Strategy, StrategyLatest, StrategyFloat). -/
import ForML.Model.Sexp
import ForML.Model.Strategy
import ForML.Model.StrategyLatest
import ForML.Model.StrategyFloat
import ForML.Model.StrategyBuilder
open ForML ForML.Strategy

def optNat? : Sexp → Option (Option Nat)
  | .atom "none" => some none
  | x => x.nat?.map some

def bool? : Sexp → Option Bool
  | .atom "true" => some true
  | .atom "false" => some false
  | _ => none

def rel? : Sexp → Option (Nat × List Nat)
  | .list [r, gs] => do pure (← r.nat?, ← gs.natList?)
  | _ => none

def lop? : Sexp → Option LOp
  | .atom "tick" => some .tick
  | .list [.atom "publish", r] => r.nat?.map .publish
  | .list [.atom "commit", r] => r.nat?.map .commit
  | .list [.atom "select", u] => (bool? u).map .select
  | .list [.atom "fault", .atom "missing"] => some (.fault .missing)
  | .list [.atom "fault", .atom "invalid"] => some (.fault .invalid)
  | .list [.atom "fault", .atom "os"] => some (.fault .os)
  | .list [.atom "fault", .atom "other"] => some (.fault .other)
  | _ => none

def variant? : Sexp → Option Variant
  | .list [p, r, g, t] => do pure ⟨← p.nat?, ← r.nat?, ← g.nat?, ← optNat? t⟩
  | _ => none

def varg? : Sexp → Option VArg
  | .list [g, r, p, t] => do pure ⟨← g.nat?, ← optNat? r, ← optNat? p, ← optNat? t⟩
  | _ => none

def ofOptNat : Option Nat → Sexp
  | none => .atom "none"
  | some n => Sexp.ofNat n

def ofVariant (v : Variant) : Sexp :=
  .list [Sexp.ofNat v.project, Sexp.ofNat v.release, Sexp.ofNat v.generation, ofOptNat v.target]

def eop? : Sexp → Option EOp
  | .atom "select" => some .select
  | .list [.atom "publish", r] => r.nat?.map .publish
  | .list [.atom "commit", r] => r.nat?.map .commit
  | _ => none

def inst? : Sexp → Option Inst
  | .list [p, r, g] => do pure ⟨← p.nat?, ← r.nat?, ← optNat? g⟩
  | _ => none

def ofErr : KErr → Sexp
  | .empty => .list [.atom "err", .atom "empty"]
  | .invalid => .list [.atom "err", .atom "invalid"]

def ofObs : Obs → Sexp
  | .quiet => .atom "-"
  | .picked r => .list [.atom "picked", Sexp.ofNat r]
  | .served r g => .list [.atom "served", Sexp.ofNat r, Sexp.ofNat g]
  | .err e => ofErr e

def ofFl (x : Nat × Nat) : Sexp := Sexp.ofNats [x.1, x.2]

def stepC17 : Sexp → Sexp
  | .list [.atom "abtest", d, .list ts, n] =>
    match d.nat?, ts.mapM optNat?, n.nat? with
    | some d, some ts, some n =>
      let ws := weights ts d
      let order := slotOrder ws
      let picks := trace (init (order.map (·.1))) n
      let vidx := picks.map (fun i => (order.getD i (0, 0)).2)
      .list [.atom "ok", Sexp.ofNats ws, Sexp.ofNats (order.map (·.2)), Sexp.ofNats vidx]
    | _, _, _ => .atom "bad-op"
  | .list [.atom "latest", .list rels, cfg] =>
    match rels.mapM rel?, optNat? cfg with
    | some rels, some none =>
      Sexp.ofOption (fun (p : Nat × Nat) => Sexp.ofNats [p.1, p.2]) (pickLatest rels)
    | some rels, some (some r) =>
      Sexp.ofOption (fun (p : Nat × Nat) => Sexp.ofNats [p.1, p.2]) (pickConfigured rels r)
    | _, _ => .atom "bad-op"
  -- a registry history against `Latest`: observations per op and whether the refresher is still alive
  | .list [.atom "lhist", survive, cfg, .list rels, .list ops] =>
    match bool? survive, optNat? cfg, rels.mapM rel?, ops.mapM lop? with
    | some survive, some cfg, some rels, some ops =>
      let (s, obs) := runL survive cfg (LState.init rels) ops
      .list [.atom "ok", .list (obs.map ofObs), Sexp.ofBool s.alive]
    | _, _, _, _ => .atom "bad-op"
  -- the variant list `compare(first).over(..)…against(..)` hands to `ABTest.__init__` (or its refusal)
  | .list [.atom "abbuild", first, .list args] =>
    match variant? first, args.mapM varg? with
    | some first, some args =>
      let vs := Builder.build first args
      if exclusive vs then .list [.atom "ok", .list (vs.map ofVariant)] else .list [.atom "err", .atom "exclusive"]
    | _, _ => .atom "bad-op"
  | .list [.atom "ehist", r, g, .list rels, .list ops] =>
    match r.nat?, g.nat?, rels.mapM rel?, ops.mapM eop? with
    | some r, some g, some rels, some ops =>
      .list [.atom "ok", .list ((runE r g ⟨rels, none⟩ ops).2.map ofObs)]
    | _, _, _, _ => .atom "bad-op"
  -- `a == b` and hash agreement of two instances over a registry
  | .list [.atom "insteq", .list rels, a, b] =>
    match rels.mapM rel?, inst? a, inst? b with
    | some rels, some a, some b =>
      match instEq rels a b with
      | .error e => ofErr e
      | .ok (v, _, _) =>
        let h := match instHash rels a, instHash rels b with
          | .ok x, .ok y => Sexp.ofBool (x == y)
          | _, _ => .atom "none"
        .list [.atom "ok", Sexp.ofBool v, h]
    | _, _, _ => .atom "bad-op"
  -- binary64 division of naturals: (mantissa, negated exponent), value = mantissa / 2^exponent
  | .list [.atom "fdiv", a, b] =>
    match a.nat?, b.nat? with
    | some a, some b => if 0 < a ∧ a ≤ b then ofFl (fdiv a b) else .atom "bad-op"
    | _, _ => .atom "bad-op"
  -- slot targets and the float eligibility sequence of integer weights
  | .list [.atom "ftrace", ws, n] =>
    match ws.natList?, n.nat? with
    | some ws, some n =>
      if ws.all (0 < ·) then .list [.atom "ok", .list (ws.map (fun w => ofFl (fdiv w ws.sum))), Sexp.ofNats (ftrace ws n)]
      else .atom "bad-op"
    | _, _ => .atom "bad-op"
  | _ => .atom "bad-op"

def main : IO Unit := driverLoop stepC17
