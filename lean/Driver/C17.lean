/- Line-protocol driver for the C17 model (ForML.Model.Strategy). -/
import ForML.Model.Sexp
import ForML.Model.Strategy
open ForML ForML.Strategy

def optNat? : Sexp → Option (Option Nat)
  | .atom "none" => some none
  | x => x.nat?.map some

def rel? : Sexp → Option (Nat × List Nat)
  | .list [r, gs] => do pure (← r.nat?, ← gs.natList?)
  | _ => none

def stepC17 : Sexp → Sexp
  | .list [.atom "abtest", d, .list ts, n] =>
    match d.nat?, ts.mapM optNat?, n.nat? with
    | some d, some ts, some n =>
      let ws := weights ts d
      let order := slotOrder ws
      let picks := trace (init (order.map (·.1))) n
      let vidx := picks.map (fun i => (order.getD i (0, 0)).2)
      .list [.atom "ok", Sexp.ofNats ws, Sexp.ofNats (order.map (·.2)), Sexp.ofNats vidx]
    | _, _, _ => .atom "bad-op"
  | .list [.atom "latest", .list rels, cfg] =>
    match rels.mapM rel?, optNat? cfg with
    | some rels, some none =>
      Sexp.ofOption (fun (p : Nat × Nat) => Sexp.ofNats [p.1, p.2]) (pickLatest rels)
    | some rels, some (some r) =>
      Sexp.ofOption (fun (p : Nat × Nat) => Sexp.ofNats [p.1, p.2]) (pickConfigured rels r)
    | _, _ => .atom "bad-op"
  | _ => .atom "bad-op"

def main : IO Unit := driverLoop stepC17
