/- Line-protocol driver for the C08 model (ForML.Model.DslEq).

   (inthash n)          → pyIntHash n
   (eqf A B)            → (eq <true|false|raises> <hashes equal> <A survives pickling>)   features
   (eqs A B)            → …                                                              sources
   (eqk A B)            → …                                                              kinds
   every line may be wrapped as (let ((x sexp) …) body), `$x` atoms are substituted.
   Hashes are evaluated in the free environment (`freeEnv`): equal only where congruence and `pyIntHash` force it. -/
import ForML.Model.Sexp
import ForML.Model.Dsl
import ForML.Model.DslEq
open ForML ForML.Dsl

def eqResSexp : EqRes → Sexp
  | none => .atom "raises"
  | some b => Sexp.ofBool b

def answer (r : EqRes) (h p : Bool) : Sexp := .list [.atom "eq", eqResSexp r, Sexp.ofBool h, Sexp.ofBool p]

def stepC08 (line : Sexp) : Sexp :=
  match expandLet line with
  | none => .atom "bad-op"
  | some x =>
    match x with
    | .list [.atom "inthash", n] =>
      match n.int? with
      | some n => Sexp.ofInt (pyIntHash n)
      | none => .atom "bad-op"
    | .list [.atom "eqf", a, b] =>
      match Feature.ofSexp a, Feature.ofSexp b with
      | some a, some b =>
        answer (Feature.implEq freeEnv a b) (decide (a.H freeEnv = b.H freeEnv)) (decide (a.pickle = some a))
      | _, _ => .atom "bad-op"
    | .list [.atom "eqs", a, b] =>
      match Source.ofSexp a, Source.ofSexp b with
      | some a, some b =>
        answer (Source.implEq freeEnv a b) (decide (a.H freeEnv = b.H freeEnv)) (decide (a.pickle = some a))
      | _, _ => .atom "bad-op"
    | .list [.atom "eqk", a, b] =>
      match Kind.ofSexp a, Kind.ofSexp b with
      | some a, some b =>
        answer (some (Kind.implEq a b)) (decide (a.H freeEnv = b.H freeEnv)) (decide (a.pickle = some a))
      | _, _ => .atom "bad-op"
    | _ => .atom "bad-op"

def main : IO Unit := driverLoop stepC08
