/- Line-protocol driver for the C08 model (ForML.Model.DslIdent over the hash model of ForML.Model.DslEq).

   (inthash n)              → pyIntHash n
   (eqf A B)                → (eq <true|false|raises> <hashes agree> <A survives pickling>)   features
   (eqs A B)                → …                                                              sources
   (eqk A B)                → …                                                              kinds
   (dictf (K0 K1 …) K)      → (hit i) | none | raises     lookup of K in {K0: 0, K1: 1, …}    features as keys
   (dicts (K0 K1 …) K)      → …                                                              sources as keys
   (schema (D0 D1 …))       → ((ok ((name kind)…) <table class name> <rebuilt from its reduced form: same>) | grammar-bases |
                               grammar-field | type-error | skipped …)   one answer per class statement
                               D = (decl|meta|fields|record name (base…) ((key noname|(name n) kind)…))
   (schemaeq F G)           → (eq <F == G> <hashes agree>)      F, G = ((name kind)…), `Schema.__eq__` / `__hash__`
   (kindorder (p0 p1 …))    → ((class id)…)     instances returned by a history of primitive kind instantiations
   (reflect V)              → kind | none       `kind.reflect` of a python value
   every line may be wrapped as (let ((x sexp) …) body), `$x` atoms are substituted.
   Hashes are evaluated in the free environment (`freeEnv`): equal only where congruence and `pyIntHash` force it. -/
import ForML.Model.Sexp
import ForML.Model.Dsl
import ForML.Model.DslEq
import ForML.Model.DslIdent
import ForML.Model.DslSchema
open ForML ForML.Dsl

def eqResSexp : EqRes → Sexp
  | none => .atom "raises"
  | some b => Sexp.ofBool b

def answer (r : EqRes) (h p : Bool) : Sexp := .list [.atom "eq", eqResSexp r, Sexp.ofBool h, Sexp.ofBool p]

/-- the float-against-int comparison never decides an outcome (`C08_lit_iff`) -/
def cf0 : Lit → Lit → Bool := fun _ _ => false

def lookupSexp : Except Unit (Option Nat) → Sexp
  | .error _ => .atom "raises"
  | .ok none => .atom "none"
  | .ok (some i) => .list [.atom "hit", Sexp.ofInt (Int.ofNat i)]

def indexed {K : Type} (ks : List K) : List (K × Nat) := ks.zip (List.range ks.length)

def stepC08 (line : Sexp) : Sexp :=
  match expandLet line with
  | none => .atom "bad-op"
  | some x =>
    match x with
    | .list [.atom "inthash", n] =>
      match n.int? with
      | some n => Sexp.ofInt (pyIntHash n)
      | none => .atom "bad-op"
    | .list [.atom "eqf", a, b] =>
      match Feature.ofSexp a, Feature.ofSexp b with
      | some a, some b =>
        answer (Feature.identEq cf0 a b) (Feature.hashAgree freeEnv a b) (decide (a.repickle = some a))
      | _, _ => .atom "bad-op"
    | .list [.atom "eqs", a, b] =>
      match Source.ofSexp a, Source.ofSexp b with
      | some a, some b =>
        answer (Source.identEq cf0 a b) (Source.hashAgree freeEnv a b) (decide (a.repickle = some a))
      | _, _ => .atom "bad-op"
    | .list [.atom "eqk", a, b] =>
      match Kind.ofSexp a, Kind.ofSexp b with
      | some a, some b =>
        answer (some (Kind.implEq a b)) (decide (a.H freeEnv = b.H freeEnv)) (decide (a.repickle = some a))
      | _, _ => .atom "bad-op"
    | .list [.atom "dictf", .list ks, k] =>
      match ks.mapM Feature.ofSexp, Feature.ofSexp k with
      | some ks, some k => lookupSexp (dictGet (fun f => f.H freeEnv) (Feature.identEq cf0) (indexed ks) k)
      | _, _ => .atom "bad-op"
    | .list [.atom "dicts", .list ks, k] =>
      match ks.mapM Source.ofSexp, Source.ofSexp k with
      | some ks, some k => lookupSexp (dictGet (fun s => s.H freeEnv) (Source.identEq cf0) (indexed ks) k)
      | _, _ => .atom "bad-op"
    | .list [.atom "schema", .list ds] =>
      match ds.mapM Decl.ofSexp with
      | some ds =>
        let h := buildAll ds
        let again := buildAll (encode ds h)
        .list ((List.range ds.length).map fun i =>
          match ds[i]?, (h[i]? : Option (Except SchemaErr Cls)) with
          | some d, some (Except.ok c) =>
            .list [.atom "ok", fieldsToSexp (resolve h c.mro), .atom d.tableName,
              Sexp.ofBool (decide (again.cls? i = some c) && decide (again.fields i = h.fields i))]
          | _, some (Except.error e) => .atom e.wire
          | _, _ => .atom "bad-op")
      | none => .atom "bad-op"
    | .list [.atom "schemaeq", a, b] =>
      match fieldsOfSexp a, fieldsOfSexp b with
      | some a, some b => .list [.atom "eq", Sexp.ofBool (schemaEq a b), Sexp.ofBool (decide (fieldsH freeEnv a = fieldsH freeEnv b))]
      | _, _ => .atom "bad-op"
    | .list [.atom "kindorder", .list ps] =>
      match ps.mapM (fun p => match p with | .atom s => Prim.ofWire s | _ => none) with
      | some ps => .list ((KReg.empty.run ps).map fun o => .list [.atom o.cls.wire, Sexp.ofNat o.id])
      | none => .atom "bad-op"
    | .list [.atom "reflect", v] =>
      match PyVal.ofSexp v with
      | some v => match v.reflect with
        | some k => k.toSexp
        | none => .atom "none"
      | none => .atom "bad-op"
    | _ => .atom "bad-op"

def main : IO Unit := driverLoop stepC08
