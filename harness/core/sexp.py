"""S-expression line protocol shared with lean/ForML/Model/Sexp.lean."""


def dumps(x) -> str:
    if isinstance(x, bool):
        return 'true' if x else 'false'
    if x is None:
        return 'none'
    if isinstance(x, int):
        return str(x)
    if isinstance(x, str):
        if x == '' or any(c.isspace() or c in '()"\\' for c in x):
            return '"' + x.replace('\\', '\\\\').replace('"', '\\"').replace('\n', '\\n') + '"'
        return x
    if isinstance(x, (list, tuple)):
        return '(' + ' '.join(dumps(i) for i in x) + ')'
    raise TypeError(f'not sexp-able: {x!r}')


def loads(s: str):
    """Atoms come back as str (ints are NOT converted; use `num` below)."""
    pos = 0
    n = len(s)

    def skip():
        nonlocal pos
        while pos < n and s[pos].isspace():
            pos += 1

    def item():
        nonlocal pos
        skip()
        if pos >= n:
            raise ValueError('eof')
        c = s[pos]
        if c == '(':
            pos += 1
            out = []
            while True:
                skip()
                if pos >= n:
                    raise ValueError('unclosed')
                if s[pos] == ')':
                    pos += 1
                    return out
                out.append(item())
        if c == ')':
            raise ValueError('unexpected )')
        if c == '"':
            pos += 1
            buf = []
            while pos < n and s[pos] != '"':
                if s[pos] == '\\' and pos + 1 < n:
                    pos += 1
                    buf.append('\n' if s[pos] == 'n' else s[pos])
                else:
                    buf.append(s[pos])
                pos += 1
            pos += 1
            return ''.join(buf)
        start = pos
        while pos < n and not s[pos].isspace() and s[pos] not in '()':
            pos += 1
        return s[start:pos]

    out = item()
    skip()
    if pos != n:
        raise ValueError('trailing input')
    return out


def num(x):
    """Recursively convert integer-looking atoms to int."""
    if isinstance(x, list):
        return [num(i) for i in x]
    try:
        return int(x)
    except ValueError:
        return x
