"""Lean side of a check: table files, lake build of the obligations, axiom audit, model driver."""
from __future__ import annotations

import fcntl
import os
import re
import subprocess
import time

# VERIF_LEAN_DIR: a private build directory (symlinked sources + own .lake) so that several checks can build in
# parallel while slices are being developed (tools/private_lean.sh); registered commands use /verif/lean itself
LEAN_DIR = os.path.abspath(os.environ.get('VERIF_LEAN_DIR') or os.path.join(os.path.dirname(__file__), '..', '..', 'lean'))
LOCK = os.path.join(LEAN_DIR, '.lake.lock')
STD_AXIOMS = {'propext', 'Classical.choice', 'Quot.sound'}
FORBIDDEN = re.compile(r'\b(sorry|admit|native_decide|bv_decide|implemented_by|unsafe)\b|^\s*axiom\s|maxHeartbeats\s+0\b')
BUILD_TIMEOUT = int(os.environ.get('VERIF_LEAN_TIMEOUT', '1500'))


class LeanError(Exception):
    pass


class _Lock:
    def __enter__(self):
        self.f = open(LOCK, 'w')
        fcntl.flock(self.f, fcntl.LOCK_EX)
        return self

    def __exit__(self, *a):
        fcntl.flock(self.f, fcntl.LOCK_UN)
        self.f.close()


def write_if_changed(rel: str, content: str) -> bool:
    path = os.path.join(LEAN_DIR, rel)
    os.makedirs(os.path.dirname(path), exist_ok=True)
    if os.path.exists(path):
        with open(path) as f:
            if f.read() == content:
                return False
    tmp = path + '.tmp'
    with open(tmp, 'w') as f:
        f.write(content)
    os.replace(tmp, path)
    return True


def _strip_comments(src: str) -> str:
    """Remove `/- ... -/` (nested) and `-- ...` comments and string literals."""
    out = []
    i, n, depth = 0, len(src), 0
    while i < n:
        if src.startswith('/-', i):
            depth += 1
            i += 2
        elif depth and src.startswith('-/', i):
            depth -= 1
            i += 2
        elif depth:
            if src[i] == '\n':
                out.append('\n')
            i += 1
        elif src.startswith('--', i):
            while i < n and src[i] != '\n':
                i += 1
        elif src[i] == '"':
            i += 1
            while i < n and src[i] != '"':
                i += 2 if src[i] == '\\' else 1
            i += 1
            out.append('""')
        else:
            out.append(src[i])
            i += 1
    return ''.join(out)


def module_path(mod: str) -> str:
    return os.path.join(LEAN_DIR, *mod.split('.')) + '.lean'


_DECL = re.compile(r'^(?:@\[[^\]]*\]\s*)*(private\s+|protected\s+)?(theorem|def|abbrev|lemma)\s+([^\s:({\[]+)')
_NS = re.compile(r'^namespace\s+(\S+)')
_END = re.compile(r'^end\s+(\S+)')


def declarations(mod: str):
    """[(kind, fullname, private?, line)] of a module, with namespaces resolved."""
    with open(module_path(mod)) as f:
        src = _strip_comments(f.read())
    ns: list[str] = []
    out = []
    for ln, line in enumerate(src.split('\n'), 1):
        m = _NS.match(line)
        if m:
            ns.append(m.group(1))
            continue
        m = _END.match(line)
        if m and ns and ns[-1] == m.group(1):
            ns.pop()
            continue
        m = _DECL.match(line)
        if m:
            name = m.group(3)
            full = '.'.join(ns + [name]) if not name.startswith('_root_.') else name[7:]
            out.append((m.group(2), full, bool(m.group(1) and 'private' in m.group(1)), ln))
    return out


_IMPORT = re.compile(r'^\s*(?:public\s+)?import\s+((?:ForML|Driver)\.[\w.]+)', re.M)


def closure(modules: list[str]) -> list[str]:
    """Transitive imports (within this project) of the given modules."""
    seen: dict[str, None] = {}
    todo = list(modules)
    while todo:
        m = todo.pop()
        if m in seen or not os.path.exists(module_path(m)):
            continue
        seen[m] = None
        with open(module_path(m)) as f:
            todo.extend(_IMPORT.findall(_strip_comments(f.read())))
    return sorted(seen)


def forbidden_tokens(modules: list[str] | None = None) -> list[str]:
    """Forbidden tokens in the sources the given modules depend on (all project sources when None)."""
    if modules is None:
        paths = []
        for root in ('ForML', 'Driver'):
            for dp, _, fs in os.walk(os.path.join(LEAN_DIR, root)):
                paths.extend(os.path.join(dp, fn) for fn in fs if fn.endswith('.lean'))
    else:
        paths = [module_path(m) for m in closure(modules)]
    hits = []
    for p in sorted(paths):
        with open(p) as f:
            src = _strip_comments(f.read())
        for ln, line in enumerate(src.split('\n'), 1):
            if FORBIDDEN.search(line):
                hits.append(f'{os.path.relpath(p, LEAN_DIR)}:{ln}: {line.strip()[:80]}')
    return hits


def _lake(args: list[str], timeout: int = BUILD_TIMEOUT) -> subprocess.CompletedProcess:
    env = dict(os.environ)
    env.pop('LEAN_PATH', None)
    try:
        return subprocess.run(['lake'] + args, cwd=LEAN_DIR, capture_output=True, text=True, timeout=timeout, env=env)
    except subprocess.TimeoutExpired as e:
        raise LeanError(f'lake {" ".join(args)} timed out after {timeout}s') from e


_ERR = re.compile(r'^error: (\S+?\.lean):(\d+):(\d+): (.*)$')
_AX = re.compile(r"^'([^']+)' depends on axioms: \[(.*)\]")
_AX_MULTI = re.compile(r"^'([^']+)' depends on axioms: \[(.*)$")
_NOAX = re.compile(r"^'([^']+)' does not depend on any axioms")


def prove(pid: str, modules: list[str], driver: str | None, thorough: bool = False) -> dict:
    """Build the obligations; return {obligations, discharged, broken, theorems, axioms, ...}."""
    from .framework import MachineryError

    t0 = time.time()
    drv_mod = ['Driver.' + driver[4:].upper()] if driver and driver.startswith('drv_') else []
    scanned = closure(list(modules) + drv_mod)
    hits = forbidden_tokens(list(modules) + drv_mod)
    if hits:
        raise MachineryError('forbidden tokens in Lean sources: ' + '; '.join(hits[:5]))
    theorems = []  # (full name, module, line)
    stated_unproved = []
    for mod in modules:
        decls = declarations(mod)
        names = {d[1] for d in decls if d[0] in ('theorem', 'lemma')}
        for kind, full, private, ln in decls:
            if kind in ('theorem', 'lemma') and not private:
                theorems.append((full, mod, ln))
            if kind == 'def' and full.split('.')[-1].startswith(pid + '_') and full.endswith('_full'):
                # a full-strength statement: proved if some theorem's type is the statement itself, refuted
                # if a theorem proves its negation; otherwise stated but (yet) unproved
                stem = full.split('.')[-1]
                with open(module_path(mod)) as f:
                    src = _strip_comments(f.read())
                if re.search(r':\s*¬\s*' + re.escape(stem) + r'\b', src):
                    stated_unproved.append(stem + ' (refuted by a counterexample theorem)')
                elif re.search(r'theorem[^\n]*:\s*' + re.escape(stem) + r'\s*:=', src):
                    pass
                else:
                    stated_unproved.append(stem + ' (open)')
    with _Lock():
        targets = list(modules) + ([driver] if driver else [])
        res = _lake(['build'] + targets)
        broken: list[str] = []
        out = res.stdout + res.stderr
        if res.returncode != 0:
            errs = [m for m in (_ERR.match(line) for line in out.split('\n')) if m]
            prop_files = {os.path.relpath(module_path(m), LEAN_DIR): m for m in modules}
            for m in errs:
                f, ln = m.group(1), int(m.group(2))
                if f in prop_files:
                    owner = None
                    for full, mod, tl in theorems:
                        if mod == prop_files[f] and tl <= ln:
                            owner = full
                    broken.append(owner or f'{f}:{ln}')
                else:
                    broken.append(f'{f}:{ln} (dependency of {pid} obligations)')
            if not errs:
                raise MachineryError('lake build failed without a Lean error: ' + out[-2000:])
            broken = sorted(set(broken))
            if driver:
                # the model driver may still build although a proof is broken
                _lake(['build', driver])
            return {
                'obligations': len(theorems), 'discharged': 0, 'broken': broken,
                'theorems': [t[0] for t in theorems], 'checker_cmd': 'lake build ' + ' '.join(targets),
                'stated_unproved': stated_unproved, 'build_log_tail': out[-3000:], 'lean_wall_s': round(time.time() - t0, 1),
            }
        # audit: #print axioms for every public theorem of the property modules
        audit_rel = os.path.join('.lake', 'audit', f'{pid}.lean')
        body = ''.join(f'import {m}\n' for m in modules) + ''.join(f'#print axioms {t[0]}\n' for t in theorems)
        write_if_changed(audit_rel, body)
        res = _lake(['env', 'lean', audit_rel], timeout=600)
        text = res.stdout + res.stderr
        if res.returncode != 0:
            raise MachineryError('axiom audit failed: ' + text[-2000:])
        # join wrapped lines
        flat = re.sub(r',\s*\n\s*', ', ', text)
        axioms: dict[str, list[str]] = {}
        for line in flat.split('\n'):
            m = _AX.match(line.strip())
            if m:
                axioms[m.group(1)] = [a.strip() for a in m.group(2).split(',') if a.strip()]
                continue
            m = _NOAX.match(line.strip())
            if m:
                axioms[m.group(1)] = []
        bad = {t: ax for t, ax in axioms.items() if set(ax) - STD_AXIOMS}
        if bad:
            raise MachineryError(f'non-standard axioms: {bad}')
        missing = [t[0] for t in theorems if t[0] not in axioms]
        if missing:
            raise MachineryError(f'axiom audit did not report: {missing[:5]}')
        checker = None
        if thorough:
            r = _lake(['env', 'leanchecker'] + modules, timeout=1500)
            checker = {'returncode': r.returncode, 'tail': (r.stdout + r.stderr)[-300:]}
            if r.returncode != 0:
                raise MachineryError('leanchecker rejected the modules: ' + checker['tail'])
    used = sorted({a for ax in axioms.values() for a in ax})
    return {
        'obligations': len(theorems), 'discharged': len(theorems), 'broken': [],
        'theorems': [t[0] for t in theorems], 'axioms': used,
        'checker_cmd': 'cd lean && lake build ' + ' '.join(targets) + f' && lake env lean {audit_rel}'
                       + (' && lake env leanchecker ' + ' '.join(modules) if thorough else ''),
        'stated_unproved': stated_unproved, 'leanchecker': checker, 'sources_scanned': scanned, 'lean_wall_s': round(time.time() - t0, 1),
    }


class Driver:
    """The compiled model driver; `run` pipes a batch of lines and returns the answers."""

    def __init__(self, target: str):
        self.exe = os.path.join(LEAN_DIR, '.lake', 'build', 'bin', target)
        if not os.path.exists(self.exe):
            with _Lock():
                r = _lake(['build', target])
            if r.returncode != 0 or not os.path.exists(self.exe):
                raise LeanError(f'cannot build model driver {target}: {(r.stdout + r.stderr)[-1500:]}')

    def run(self, lines: list[str], timeout: int = 900) -> list[str]:
        if not lines:
            return []
        for ln in lines:
            if '\n' in ln:
                raise LeanError('newline inside a protocol line')
        data = '\n'.join(lines) + '\n'
        r = subprocess.run([self.exe], input=data, capture_output=True, text=True, timeout=timeout)
        if r.returncode != 0:
            raise LeanError(f'model driver exited {r.returncode}: {r.stderr[-500:]}')
        out = r.stdout.split('\n')
        if out and out[-1] == '':
            out.pop()
        if len(out) != len(lines):
            raise LeanError(f'model driver answered {len(out)} lines for {len(lines)}')
        return out

    def close(self):
        pass
