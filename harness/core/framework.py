"""Common machinery of every property check (see DESIGN.md section 2.1).

A property module (harness/props/cXX.py) defines a subclass of `Check` and the generic
`check.py` drives it:

    1. regenerate Lean tables from the live /repo objects            (Check.gen_tables)
    2. build the proof obligations + the model driver with lake       (lean.build)
    3. audit: forbidden tokens, `#print axioms` of every theorem      (lean.audit)
    4. correspondence model <-> implementation + oracle on the impl   (Check.correspondence)
    5. failing-input search when 2/3/4 broke                          (Check.search)
    6. known findings replay, verdict, evidence

Exit codes: 0 = held, 1 = VIOLATION line(s) printed, 2 = machinery error / timeout.
"""
from __future__ import annotations

import argparse
import collections
import hashlib
import json
import logging
import os
import random
import sys
import threading
import time
import traceback
import typing

from . import fingerprint, lean

VERIF = os.path.abspath(os.path.join(os.path.dirname(__file__), '..', '..'))
REPO = os.environ.get('FORML_REPO', '/repo')
EVIDENCE_DIR = os.path.join(VERIF, 'evidence')
REPLAY_DIR = os.path.join(VERIF, 'replays')
FINDINGS_FILE = os.path.join(VERIF, 'KNOWN_FINDINGS.json')

STD_AXIOMS = {'propext', 'Classical.choice', 'Quot.sound'}

BASE_TRUSTED = [
    'Lean 4.33.0 kernel (lake build); leanchecker re-check in the thorough tier',
    'axioms allowed: propext, Classical.choice, Quot.sound (audited by #print axioms on every theorem, every run)',
    'hand-written Lean model of the anchored code; tie = differential correspondence check (harness, not a proof)',
    'harness: generators, canonicalisers, S-expression protocol, diff (Python)',
]


class MachineryError(Exception):
    """Something in the verification machinery itself failed (exit 2)."""


class Violation(typing.NamedTuple):
    what: str  # one line: what fails
    witness: typing.Any  # JSON-able minimal input / op sequence / history
    signature: str  # root-cause key used for matching against KNOWN_FINDINGS
    detail: typing.Any = None


class Divergence(typing.NamedTuple):
    what: str
    case: typing.Any
    impl: typing.Any
    model: typing.Any


class Check:
    """Base class of a property check."""

    ID: str = ''
    LEAN_MODULES: list[str] = []  # modules holding the proof obligations (Props)
    DRIVER: typing.Optional[str] = None  # lean_exe target name
    TRUSTED: list[str] = []  # per-property additions to the trusted base
    ASSUMPTIONS: list[str] = []
    RULE: str = ''  # how cases are generated and what makes one distinct/non-trivial

    def __init__(self, tier: str, seed: int):
        self.tier = tier
        self.seed = seed
        self.rng = random.Random(seed * 1000003 + int(hashlib.sha256(self.ID.encode()).hexdigest()[:8], 16))
        self.evaluations = 0
        self.distinct: set[str] = set()
        self.histogram: collections.Counter = collections.Counter()
        self.samples: list = []
        self.violations: list[Violation] = []
        self.divergences: list[Divergence] = []
        self.notes: list[str] = []
        self.extra: dict = {}
        self._driver: typing.Optional[lean.Driver] = None
        # files of the tree under test whose AST differs from the source the models were last validated against
        # (harness/core/fingerprint.py); non-empty => the quick tier explores more cases before it answers
        self.changed_sources: list[str] = []
        self.escalation: float = 1.0

    # ---- hooks for the property module ------------------------------------------------------
    def gen_tables(self) -> dict[str, str]:
        """Return {path relative to lean/: content} of generated Lean files."""
        return {}

    def correspondence(self) -> None:
        raise NotImplementedError

    def search(self, reason: str) -> None:
        """Widened failing-input search on the real code (appends to self.violations)."""

    def replay_finding(self, entry: dict) -> typing.Optional[Violation]:
        """Re-run a KNOWN_FINDINGS witness on the real code; Violation if it still fails."""
        return None

    def replay(self, witness) -> typing.Optional[Violation]:
        """Re-run a replay file's witness (used by --replay)."""
        return self.replay_finding({'witness': witness})

    # ---- services ---------------------------------------------------------------------------
    @property
    def quick(self) -> bool:
        return self.tier == 'quick'

    def n(self, quick: int, thorough: int) -> int:
        """Case count by tier. In the quick tier, when the source under test is not the source the model was last
        compared with (`changed_sources`), the count is raised by `escalation` (never beyond the thorough count)."""
        if not self.quick:
            return thorough
        if self.escalation > 1 and thorough > quick:
            return min(thorough, max(quick, int(quick * self.escalation)))
        return quick

    def model(self, lines: list[str]) -> list[str]:
        """Pipe lines through the compiled Lean model driver (one answer per line)."""
        if self._driver is None:
            if not self.DRIVER:
                raise MachineryError('no driver declared')
            self._driver = lean.Driver(self.DRIVER)
        return self._driver.run(lines)

    def case(self, key, shape: typing.Optional[str] = None, nontrivial: bool = True, sample=None) -> None:
        """Account one explored case (key identifies it for distinctness)."""
        self.evaluations += 1
        if nontrivial:
            self.distinct.add(hashlib.sha1(repr(key).encode()).hexdigest())
        if shape is not None:
            self.histogram[shape] += 1
        if sample is not None and len(self.samples) < 8:
            self.samples.append(sample)

    def violate(self, what: str, witness, signature: str, detail=None) -> None:
        self.violations.append(Violation(what, witness, signature, detail))

    def diverge(self, what: str, case, impl, model) -> None:
        self.divergences.append(Divergence(what, case, impl, model))


def _load_findings(pid: str) -> list[dict]:
    """findings.d/<pid>.json is the source (one file per property so that they can be edited independently);
    KNOWN_FINDINGS.json is the assembled, committed list (tools/mkmanifest.py keeps them identical)."""
    frag = os.path.join(VERIF, 'findings.d', f'{pid}.json')
    if os.path.exists(frag):
        with open(frag) as f:
            return [e for e in json.load(f) if e.get('property') == pid]
    if not os.path.exists(FINDINGS_FILE):
        return []
    with open(FINDINGS_FILE) as f:
        data = json.load(f)
    return [e for e in data.get('findings', []) if e.get('property') == pid]


def _write_replay(pid: str, payload: dict) -> str:
    os.makedirs(os.path.join(REPLAY_DIR, pid), exist_ok=True)
    blob = json.dumps(payload, sort_keys=True, default=str)
    name = hashlib.sha1(blob.encode()).hexdigest()[:12] + '.json'
    path = os.path.join(REPLAY_DIR, pid, name)
    with open(path, 'w') as f:
        json.dump(payload, f, indent=1, sort_keys=True, default=str)
    return os.path.relpath(path, VERIF)


def _write_evidence(chk: Check, wall: float, proof: dict, nviol: int, known: list[str]) -> None:
    os.makedirs(EVIDENCE_DIR, exist_ok=True)
    coverage = {
        'obligations': proof.get('obligations', 0),
        'discharged': proof.get('discharged', 0),
        'checker_cmd': proof.get('checker_cmd', ''),
        'trusted_base': BASE_TRUSTED + list(chk.TRUSTED),
        'theorems': proof.get('theorems', []),
        'axioms_used': proof.get('axioms', []),
        'stated_unproved': proof.get('stated_unproved', []),
        'broken_obligations': proof.get('broken', []),
        'leanchecker': proof.get('leanchecker'),
        'lean_sources_audited': proof.get('sources_scanned', []),
        'evaluations': chk.evaluations,
        'distinct_nontrivial': len(chk.distinct),
        'rule': chk.RULE,
        'samples': chk.samples or ['(no correspondence cases were run)'],
        'input_histogram': dict(chk.histogram.most_common()),
        'correspondence_divergences': len(chk.divergences),
        'known_findings_reproduced': known,
        'notes': chk.notes,
        'sources_changed_since_validation': chk.changed_sources,
    }
    coverage.update(chk.extra)
    ev = {
        'property_id': chk.ID,
        'tier': chk.tier,
        'seed': chk.seed,
        'level': 'proof',
        'coverage': coverage,
        'assumptions': list(chk.ASSUMPTIONS),
        'wall_s': round(wall, 2),
        'violations': nviol,
    }
    tmp = os.path.join(EVIDENCE_DIR, f'.{chk.ID}.json.tmp')
    with open(tmp, 'w') as f:
        json.dump(ev, f, indent=1, default=str)
    os.replace(tmp, os.path.join(EVIDENCE_DIR, f'{chk.ID}.json'))


def run(cls: type[Check], argv=None) -> int:
    ap = argparse.ArgumentParser()
    ap.add_argument('--tier', default=os.environ.get('VERIF_TIER', 'quick'), choices=['quick', 'thorough'])
    ap.add_argument('--replay')
    ap.add_argument('--no-lean', action='store_true', help='skip the proof build (debugging only)')
    args = ap.parse_args(argv)
    seed = int(os.environ.get('VERIF_SEED', '0') or 0)
    t0 = time.time()
    chk = cls(args.tier, seed)
    pid = chk.ID
    sys.path.insert(0, REPO)
    os.environ['PYTHONPATH'] = os.pathsep.join([REPO, os.path.join(VERIF, 'harness')] + ([os.environ['PYTHONPATH']] if os.environ.get('PYTHONPATH') else []))
    logging.disable(logging.CRITICAL)
    threading.excepthook = lambda a: None  # daemon threads of the code under test die silently

    if args.replay:
        with open(args.replay if os.path.isabs(args.replay) else os.path.join(VERIF, args.replay)) as f:
            payload = json.load(f)
        v = chk.replay(payload.get('witness'))
        if v:
            print(f'VIOLATION property={pid} replay={args.replay} {v.what}')
            return 1
        print(f'replay of {args.replay}: property holds on this input')
        return 0

    proof: dict = {}
    broken: list[str] = []
    try:
        chk.changed_sources = fingerprint.changed(REPO)
    except Exception:  # pylint: disable=broad-except
        chk.changed_sources = []
    if chk.changed_sources:
        chk.escalation = float(os.environ.get('VERIF_ESCALATE', '4') or 1)
        chk.notes.append(f'source differs from the validated fingerprint in {len(chk.changed_sources)} file(s): '
                         f'{", ".join(chk.changed_sources[:6])}; quick case counts raised x{chk.escalation:g}')
    try:
        # 1. generated tables
        for rel, content in chk.gen_tables().items():
            lean.write_if_changed(rel, content)
        # 2+3. proof obligations and audit
        if not args.no_lean:
            proof = lean.prove(pid, chk.LEAN_MODULES, chk.DRIVER, thorough=not chk.quick)
            broken = proof.get('broken', [])
        # 4. correspondence + oracle
        chk.correspondence()
        # 5. failing-input search
        if broken or chk.divergences:
            chk.search('broken proof obligation' if broken else 'correspondence divergence')
    except MachineryError as e:
        print(f'MACHINERY-ERROR property={pid}: {e}', file=sys.stderr)
        traceback.print_exc()
        return 2
    except Exception as e:  # pylint: disable=broad-except
        print(f'MACHINERY-ERROR property={pid}: unexpected {type(e).__name__}: {e}', file=sys.stderr)
        traceback.print_exc()
        return 2
    finally:
        if chk._driver is not None:
            chk._driver.close()

    # 6. verdict
    findings = _load_findings(pid)
    open_sigs = {e['signature']: e for e in findings if e.get('status') == 'finding'}
    lines: list[str] = []
    known_lines: dict[str, str] = {}
    nviol = 0
    seen_sig: set[str] = set()
    for v in chk.violations:
        if v.signature in open_sigs:
            e = open_sigs[v.signature]
            known_lines[e['id']] = f"KNOWN-FINDING: property={pid} {e['id']} {e['what']}"
            continue
        if v.signature in seen_sig:
            continue
        seen_sig.add(v.signature)
        path = _write_replay(pid, {'property': pid, 'what': v.what, 'witness': v.witness, 'signature': v.signature,
                                   'detail': v.detail, 'seed': seed, 'tier': args.tier})
        lines.append(f'VIOLATION property={pid} replay={path} {v.what}')
        nviol += 1
    # listed findings are replayed on the real code on every run (reported while they still fail)
    for e in findings:
        try:
            v = chk.replay_finding(e)
        except Exception as exc:  # pylint: disable=broad-except
            print(f'MACHINERY-ERROR property={pid}: replay of {e.get("id")} raised {exc!r}', file=sys.stderr)
            traceback.print_exc()
            return 2
        if e.get('status') == 'finding':
            if v is not None:
                known_lines[e['id']] = f"KNOWN-FINDING: property={pid} {e['id']} {e['what']}"
        elif e.get('status') == 'fixed' and v is not None:
            path = _write_replay(pid, {'property': pid, 'what': 'fixed defect returned: ' + v.what,
                                       'witness': v.witness, 'signature': v.signature, 'fixed_entry': e.get('id')})
            lines.append(f'VIOLATION property={pid} replay={path} fixed defect {e.get("id")} returned: {v.what}')
            nviol += 1
    if (broken or chk.divergences) and nviol == 0:
        # the property is no longer shown to hold and no failing input was found
        # (divergences explained entirely by known findings are not counted: they carry a signature)
        unexplained = [d for d in chk.divergences]
        if broken or unexplained:
            payload = {
                'property': pid,
                'broken_obligations': broken,
                'correspondence': [d._asdict() for d in unexplained[:5]],
                'note': 'proof obligation or model/implementation correspondence no longer checks; '
                        'the failing-input search on the real code found no input violating the property',
                'seed': seed, 'tier': args.tier,
            }
            path = _write_replay(pid, payload)
            what = ('theorem(s) ' + ','.join(broken)) if broken else ('correspondence ' + unexplained[0].what)
            lines.append(f'VIOLATION property={pid} replay={path} {what} no-failing-input-found')
            nviol += 1
    wall = time.time() - t0
    _write_evidence(chk, wall, proof, nviol, sorted(known_lines))
    for k in sorted(known_lines):
        print(known_lines[k])
    for ln in lines:
        print(ln)
    if nviol:
        return 1
    print(f'OK property={pid} tier={args.tier} seed={seed} obligations={proof.get("obligations", 0)} '
          f'discharged={proof.get("discharged", 0)} cases={chk.evaluations} distinct={len(chk.distinct)} '
          f'wall={wall:.1f}s')
    return 0
