"""Fingerprint of forml's source as the models were last validated against it.

`SOURCE_FINGERPRINT.json` (committed; written by tools/mkmanifest.py from /repo HEAD at integration time, never at
run time) maps every `forml/**/*.py` to the SHA-1 of its AST with docstrings removed (comments, blank lines and
formatting do not count). A check run compares the tree it is pointed at with it. A difference is *not* a verdict
of any kind: it only tells the check that the code is no longer the code its model was last compared with, and the
check then spends more effort on the correspondence (more generated cases, see `Check.n`) before it answers.
A stale fingerprint file therefore costs time, never a false alarm."""
import ast
import hashlib
import json
import os
import sys

VERIF = os.path.abspath(os.path.join(os.path.dirname(__file__), '..', '..'))
FILE = os.path.join(VERIF, 'SOURCE_FINGERPRINT.json')


def _strip_docstrings(tree: ast.AST) -> None:
    for node in ast.walk(tree):
        if isinstance(node, (ast.Module, ast.ClassDef, ast.FunctionDef, ast.AsyncFunctionDef)):
            body = node.body
            if body and isinstance(body[0], ast.Expr) and isinstance(getattr(body[0], 'value', None), ast.Constant) \
                    and isinstance(body[0].value.value, str):
                node.body = body[1:] or [ast.Pass()]


def digest(path: str) -> str:
    with open(path, 'rb') as f:
        src = f.read()
    try:
        tree = ast.parse(src)
        _strip_docstrings(tree)
        blob = ast.dump(tree, annotate_fields=False, include_attributes=False).encode()
    except SyntaxError:
        blob = b'syntax-error:' + src
    return hashlib.sha1(blob).hexdigest()


def scan(repo: str) -> dict:
    out = {}
    root = os.path.join(repo, 'forml')
    for base, dirs, files in os.walk(root):
        dirs[:] = sorted(d for d in dirs if d != '__pycache__')
        for name in sorted(files):
            if name.endswith('.py'):
                full = os.path.join(base, name)
                out[os.path.relpath(full, repo)] = digest(full)
    return out


def changed(repo: str) -> list:
    """Files of `repo` whose AST differs from the recorded fingerprint (incl. added / removed files)."""
    if not os.path.exists(FILE):
        return []
    with open(FILE) as f:
        data = json.load(f)
    if data.get('python') != list(sys.version_info[:2]):
        return []  # digests of another interpreter's AST are not comparable
    recorded = data.get('files', {})
    current = scan(repo)
    return sorted(p for p in set(recorded) | set(current) if recorded.get(p) != current.get(p))


def write(repo: str, commit: str) -> None:
    with open(FILE, 'w') as f:
        json.dump({'comment': 'AST digests (docstrings removed) of forml/**/*.py at the /repo commit the models were last '
                              'validated against; written by tools/mkmanifest.py, read by harness/core/fingerprint.py',
                   'commit': commit, 'python': list(sys.version_info[:2]), 'files': scan(repo)}, f, indent=1, sort_keys=True)
        f.write('\n')
