#!/venv/bin/python
"""Entry point: check.py <Cxx> [--tier quick|thorough] [--replay file]"""
import importlib
import os
import sys

sys.path.insert(0, os.path.dirname(os.path.abspath(__file__)))
os.environ.setdefault('PYTHONWARNINGS', 'ignore')
import warnings  # noqa: E402

warnings.filterwarnings('ignore')


def main() -> int:
    if len(sys.argv) < 2:
        print(__doc__)
        return 2
    pid = sys.argv[1].upper()
    from core import framework as fw

    mod = importlib.import_module(f'props.{pid.lower()}')
    return fw.run(getattr(mod, pid), sys.argv[2:])


if __name__ == '__main__':
    raise SystemExit(main())
