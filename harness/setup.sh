#!/bin/bash
# MANIFEST.setup_cmd: pre-generate the tables from /repo, build the whole Lean library and every model driver. Offline.
# Setup never fails because a proof obligation does not check: that is for the property's own check to report
# (it rebuilds its obligations itself and turns a broken one into a failing-input search / VIOLATION line).
cd "$(dirname "$0")/.."
export PYTHONWARNINGS=ignore
/venv/bin/python harness/gen_tables.py || echo "setup: table generation reported a problem (the checks regenerate their own tables)"
cd lean
if ! lake build; then
  echo "setup: 'lake build' reported failures (see above); building the model drivers and each property module separately"
  for t in $(grep -o 'drv_c[0-9][0-9]' lakefile.toml | sort -u); do lake build $t >/dev/null 2>&1 || echo "setup: $t does not build"; done
  for f in ForML/Props/C*.lean; do m=ForML.Props.$(basename $f .lean); lake build $m >/dev/null 2>&1 || echo "setup: $m does not build"; done
fi
exit 0
