#!/bin/bash
# MANIFEST.setup_cmd: build the whole Lean library, every model driver and pre-generate the tables. Offline.
set -e
cd "$(dirname "$0")/.."
export PYTHONWARNINGS=ignore
/venv/bin/python harness/gen_tables.py
cd lean
lake build
