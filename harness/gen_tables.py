#!/venv/bin/python
"""Regenerate every lean/ForML/Generated/*.lean from the live /repo objects (also done by each check)."""
import glob
import importlib
import os
import sys
import warnings

warnings.filterwarnings('ignore')
HERE = os.path.dirname(os.path.abspath(__file__))
sys.path.insert(0, HERE)
sys.path.insert(0, os.environ.get('FORML_REPO', '/repo'))
import logging  # noqa: E402

logging.disable(logging.CRITICAL)
from core import lean  # noqa: E402

for path in sorted(glob.glob(os.path.join(HERE, 'props', 'c[0-9][0-9].py'))):
    pid = os.path.basename(path)[:-3].upper()
    try:
        mod = importlib.import_module(f'props.{pid.lower()}')
        chk = getattr(mod, pid)('quick', 0)
        for rel, content in chk.gen_tables().items():
            changed = lean.write_if_changed(rel, content)
            print(f'{pid}: {rel} {"updated" if changed else "unchanged"}')
    except Exception as err:  # pylint: disable=broad-except
        print(f'{pid}: table generation failed ({type(err).__name__}: {err}); the check regenerates its tables itself')
