"""C08 — equality / hashing / pickling of DSL objects vs lean/ForML/Model/DslIdent.lean (+ the hash model of DslEq.lean).

Pairs of ASTs from the shared generator (props/dslgen.py) are built into real forml objects by two independent
builders and observed: `==` (both directions), `bool(Equal(x, y))`, `hash`, `in dict`, `in set`, pickle round trip
(fresh and after the object was used), `source[name]` after the other object was built first (lru_cache on
`Source.__getitem__`), parser / reader caches; families of statements are put into one dict and looked up again.
The model (free hash environment, `pyIntHash` exact) is asked for the same pairs / lookups; the oracle is structural
identity of the ASTs.
"""
from __future__ import annotations

import multiprocessing
import os
import pickle
import typing

from core import framework as fw
from core import sexp

from . import c08schema as cs
from . import dslgen as g

M61 = 2 ** 61 - 1
SORT_OP = {'source': 'eqs', 'feature': 'eqf', 'kind': 'eqk'}


def tuplify(x):
    return tuple(tuplify(i) for i in x) if isinstance(x, (list, tuple)) else x


# ---- observation of one pair on the real code (runs in worker processes) ------------------------------------------
def _truth(fn) -> str:
    try:
        return 'true' if fn() else 'false'
    except RecursionError:
        return 'raises:RecursionError'
    except Exception as e:  # pylint: disable=broad-except
        return f'raises:{type(e).__name__}'


def _term_parser():
    """A parser producing plain nested tuples (every table / column resolves), and a reader using it."""
    from forml.io import dsl
    from forml.io._input import _producer
    from forml.io.dsl import parser as parsmod

    class Sources:
        def __getitem__(self, source):
            if isinstance(source, dsl.Table):
                return ('tab', source.schema.__name__)
            raise KeyError(source)

        def __iter__(self):
            return iter(())

        def __len__(self):
            return 0

    class Features:
        def __getitem__(self, feature):
            if isinstance(feature, dsl.Column):
                return ('col', feature.name)
            raise KeyError(feature)

        def __iter__(self):
            return iter(())

        def __len__(self):
            return 0

    class Parser(parsmod.Visitor):
        def generate_element(self, origin, element):
            return ('elem', origin, element)

        def generate_literal(self, value, kind):
            return ('lit', type(value).__name__, repr(value), repr(kind))

        def generate_expression(self, expression, arguments):
            return (expression.__name__,) + tuple(repr(a) if isinstance(a, dsl.Any) else a for a in arguments)

        def generate_alias(self, feature, alias):
            return ('alias', feature, alias)

        def generate_join(self, left, right, condition, kind):
            return ('join', left, right, kind.value, condition)

        def generate_set(self, left, right, kind):
            return ('set', left, right, kind.value)

        def generate_query(self, source, features, where, groupby, having, orderby, rows):
            return ('query', source, tuple(features), where, tuple(groupby), having,
                    tuple((f, d.value) for f, d in orderby), None if rows is None else tuple(rows))

        def generate_reference(self, instance, name):
            return ('ref', instance, name), ('handle', name)

    class Reader(_producer.Reader):
        @classmethod
        def parser(cls, sources, features):
            return Parser(sources, features)

        @classmethod
        def read(cls, statement, **kwargs):
            return statement

    return Parser, Reader, Sources, Features


def _parse(parser, stmt):
    with parser as visitor:
        stmt.accept(visitor)
        return visitor.fetch()


def _reset_caches() -> None:
    """Empty forml's process-wide lru_caches that are keyed by DSL objects, so that a case depends on the objects of
    that case only and every reported witness replays in a fresh process (what an *earlier* object of the same
    process does to a later one is what the pair itself examines: x is built and used before y)."""
    cs.reset_caches()


def observe(pair: dict) -> dict:
    """Build both objects (x first, then y) and record everything the property talks about."""
    from forml.io import dsl

    _reset_caches()
    sort, ax, ay = pair['sort'], pair['x'], pair['y']
    out: dict = {'built': True}
    try:
        x = g.Builder().build(ax)
        xitems = None
        if sort == 'source':
            xitems = _items(x, ax)
        y = g.Builder().build(ay)
    except RecursionError:
        return {'built': False, 'error': 'RecursionError'}
    except Exception as e:  # pylint: disable=broad-except
        return {'built': False, 'error': type(e).__name__}
    out['eq'] = _truth(lambda: x == y)
    out['eq_rev'] = _truth(lambda: y == x)
    if sort == 'feature':
        # truth value of the materialised comparison (`Equal.__bool__`), where `Equal(x, y)` is a legal expression
        from forml.io.dsl import function

        try:
            equal = function.Equal(x, y)
        except Exception:  # pylint: disable=broad-except
            out['equal_bool'] = None
        else:
            out['equal_bool'] = _truth(lambda: bool(equal))
    out['ne'] = _truth(lambda: x != y) if sort != 'feature' else None  # `!=` of features builds a DSL expression
    try:
        out['hash_eq'] = hash(x) == hash(y)
    except Exception as e:  # pylint: disable=broad-except
        out['hash_eq'] = f'raises:{type(e).__name__}'
    out['in_dict'] = _truth(lambda: y in {x: 1})
    out['in_set'] = _truth(lambda: y in {x})
    # the objects are what the AST says (the builder reads elements through the cached `source[name]`)
    for tag, obj, ast in (('x', x, ax), ('y', y, ay)):
        try:
            out[f'ast_{tag}'] = g.to_ast(obj) == ast
            if not out[f'ast_{tag}']:
                out[f'ast_{tag}_got'] = g.to_ast(obj)
        except Exception as e:  # pylint: disable=broad-except
            out[f'ast_{tag}'] = f'raises:{type(e).__name__}'
    # pickling of x
    try:
        z = pickle.loads(pickle.dumps(x))
        try:
            back = g.to_ast(z)
            same = back == ax
            if not same:
                out['pickle_got'] = back
        except Exception:  # pylint: disable=broad-except
            same = False
        out['pickle'] = 'ok' if same else 'differs'
        out['pickle_eq'] = _truth(lambda: z == x)
        out['pickle_hash'] = hash(z) == hash(x)
        out['pickle_in'] = _truth(lambda: z in {x: 1})
    except RecursionError:
        out['pickle'] = 'raises:RecursionError'
    except Exception as e:  # pylint: disable=broad-except
        out['pickle'] = f'raises:{type(e).__name__}'
        out['pickle_msg'] = str(e)[:80]
    if sort == 'source':
        # item access on y after x was built and accessed first
        out['items_x'] = xitems
        out['items_y'] = _items(y, ay)
        # schemas
        try:
            sx, sy = x.schema, y.schema
            fx = [(f.name, g.kind_ast(f.kind)) for f in sx]
            fy = [(f.name, g.kind_ast(f.kind)) for f in sy]
            out['schema'] = {'same': fx == fy, 'eq': _truth(lambda: sx == sy), 'hash_eq': hash(sx) == hash(sy),
                             'in_dict': _truth(lambda: sy in {sx: 1}),
                             'pickle_eq': _truth(lambda: pickle.loads(pickle.dumps(sx)) == sx),
                             'pickle_hash': hash(pickle.loads(pickle.dumps(sx))) == hash(sx)}
        except RecursionError:
            out['schema'] = None
        except Exception as e:  # pylint: disable=broad-except
            out['schema'] = f'raises:{type(e).__name__}'
        # parser and reader caches: results with the cache shared between x and y must be those without it
        if isinstance(x, dsl.Statement) or isinstance(x, dsl.Queryable):
            Parser, Reader, Sources, Features = _term_parser()
            try:
                sx_, sy_ = x.statement, y.statement
                fresh_x = _parse(Parser(Sources(), Features()), sx_)
                fresh_y = _parse(Parser(Sources(), Features()), sy_)
            except RecursionError:
                out['parse'] = 'skipped:RecursionError'
            except Exception as e:  # pylint: disable=broad-except
                out['parse'] = f'skipped:{type(e).__name__}'
            else:
                shared = Parser(Sources(), Features())
                reader = Reader(Sources(), Features())
                try:
                    px, py = _parse(shared, sx_), _parse(shared, sy_)
                    rx, ry = reader._parse_statement(sx_), reader._parse_statement(sy_)  # pylint: disable=protected-access
                    out['parse'] = {'parser': px == fresh_x and py == fresh_y, 'reader': rx == fresh_x and ry == fresh_y,
                                    'distinct': fresh_x != fresh_y}
                except Exception as e:  # pylint: disable=broad-except
                    out['parse'] = f'raises:{type(e).__name__}'
        # identity survives pickling also once the statement was used (schema, features, parsed: cached attributes)
        try:
            z = pickle.loads(pickle.dumps(x))
            out['pickle_used'] = 'ok' if _truth(lambda: z == x) == 'true' and hash(z) == hash(x) else 'differs'
        except RecursionError:
            out['pickle_used'] = None
        except Exception as e:  # pylint: disable=broad-except
            out['pickle_used'] = f'raises:{type(e).__name__}'
            out['pickle_msg'] = str(e)[:80]
    return out


def _items(obj, ast) -> typing.Optional[list]:
    """Names whose `source[name]` is not the feature the AST says (None: the source has no usable schema)."""
    fields = g.fields_of(ast)
    names = [n for n, _, _ in fields]
    if any(n is None for n in names) or len(set(names)) != len(names):
        return None
    bad = []
    for name, _, want in fields:
        try:
            got = g.to_ast(obj[name])
        except RecursionError:
            return None
        except Exception as e:  # pylint: disable=broad-except
            bad.append([name, f'raises:{type(e).__name__}'])
            continue
        if got != want:
            bad.append([name, 'other'])
    return bad


def observe_family(fam: dict) -> dict:
    """Put the (structurally distinct) keys of a family into one dict, look every one of them up again through an
    independently built copy: [index found | 'none' | 'raises:<Error>'] per key."""
    _reset_caches()
    keys, again, used, error = [], [], [], None
    for i, a in enumerate(fam['keys']):  # a variant the DSL refuses (grammar) is left out
        try:
            k, k2 = g.Builder().build(a), g.Builder().build(a)
        except RecursionError:
            error = 'RecursionError'
            continue
        except Exception as e:  # pylint: disable=broad-except
            error = type(e).__name__
            continue
        keys.append(k)
        again.append(k2)
        used.append(i)
    if len(used) < 2:
        return {'built': False, 'error': error or 'too-few-keys'}
    out: dict = {'built': True, 'used': used}
    try:
        table = {}
        for i, k in enumerate(keys):
            table.setdefault(k, i)
        members = set(keys)
    except Exception as e:  # pylint: disable=broad-except
        return {'built': True, 'used': used, 'size': f'raises:{type(e).__name__}', 'found': [], 'member': []}
    out['size'] = len(table)
    out['set_size'] = len(members)
    found, member = [], []
    for k in again:
        try:
            found.append(table.get(k, 'none'))
        except Exception as e:  # pylint: disable=broad-except
            found.append(f'raises:{type(e).__name__}')
        member.append(_truth(lambda k=k: k in members))
    out['found'] = found
    out['member'] = member
    if fam['sort'] == 'source':
        out.update(_family_caches(fam, again, used))
    return out


def _family_caches(fam: dict, objs: list, used: list) -> dict:
    """The caches keyed by statements, over a whole family: every statement is parsed through ONE reader instance
    (`Reader._parse_statement`, an lru_cache keyed by reader and statement) and ONE parser instance, in the family's order
    and then backwards (so each is asked for once cold and once after all its neighbours), and read through the cached
    `Source.__getitem__`; each answer must be the one a parser / source that has seen nothing else gives."""
    out: dict = {}
    try:
        Parser, Reader, Sources, Features = _term_parser()
        stmts, fresh = [], []
        for j, o in enumerate(objs):
            try:
                if has_window(fam['keys'][used[j]]):  # (a window is readable once: finding C08-F1, examined pair-wise)
                    raise ValueError('window')
                st = o.statement
                fresh.append(_parse(Parser(Sources(), Features()), st))
                stmts.append(st)
            except RecursionError:
                stmts.append(None)
                fresh.append(None)
            except Exception:  # pylint: disable=broad-except
                stmts.append(None)
                fresh.append(None)
        reader, shared = Reader(Sources(), Features()), Parser(Sources(), Features())
        order = [i for i in range(len(objs)) if stmts[i] is not None]
        bad_reader, bad_parser = [], []
        for i in order + order[::-1]:
            try:
                if reader._parse_statement(stmts[i]) != fresh[i]:  # pylint: disable=protected-access
                    bad_reader.append(i)
                if _parse(shared, stmts[i]) != fresh[i]:
                    bad_parser.append(i)
            except RecursionError:
                pass
            except Exception as e:  # pylint: disable=broad-except
                bad_reader.append([i, f'raises:{type(e).__name__}'])
        out['cache'] = {'parsed': len(order), 'reader': bad_reader, 'parser': bad_parser,
                        'distinct': len({repr(fresh[i]) for i in order}) == len(order)}
        items = []
        for j, o in enumerate(objs):
            got = _items(o, fam['keys'][used[j]])
            if got:
                items.append([j, got[:2]])
        out['items'] = items
    except RecursionError:
        out['cache'] = None
    return out


def observe_hier(case: dict) -> dict:
    _reset_caches()
    return cs.observe_hier(case)


def _observe_chunk(chunk: list) -> list:
    return [observe_hier(p) if 'prog' in p else observe_family(p) if 'keys' in p else observe(p) for p in chunk]


# ---- canonical forms for attributing a violation to a root cause ---------------------------------------------------
def canon_literals(ast):
    """Replace every literal by (python type, python hash): two ASTs with equal images differ only in literal
    values whose CPython hashes collide."""
    if isinstance(ast, tuple):
        if len(ast) == 2 and ast[0] == 'lit':
            value = g.Builder.value(ast[1])
            return ('lit', ast[1][0], hash(value))
        return tuple(canon_literals(a) for a in ast)
    return ast


def canon_tables(ast):
    """Forget table names (tables with the same fields become the same)."""
    if isinstance(ast, tuple):
        if len(ast) == 3 and ast[0] == 'table':
            return ('table', '*', ast[2])
        return tuple(canon_tables(a) for a in ast)
    return ast


def has_compound(ast) -> bool:
    if isinstance(ast, tuple):
        if ast and ast[0] in ('array', 'map', 'struct'):
            return True
        return any(has_compound(a) for a in ast)
    return False


def has_window(ast) -> bool:
    if isinstance(ast, tuple):
        if ast and ast[0] == 'window':
            return True
        return any(has_window(a) for a in ast)
    return False


def has_float_collision(ax, ay) -> bool:
    """The pair differs in float literals with equal hashes (the model keeps float hashes uninterpreted)."""
    fx = [a for a in _lits(ax) if a[0] == 'float']
    fy = [a for a in _lits(ay) if a[0] == 'float']
    return fx != fy and [hash(float(a[1])) for a in fx] == [hash(float(a[1])) for a in fy]


def _lits(ast):
    if isinstance(ast, tuple):
        if len(ast) == 2 and ast[0] == 'lit':
            yield ast[1]
        else:
            for a in ast:
                yield from _lits(a)


class C08(fw.Check):
    ID = 'C08'
    LEAN_MODULES = ['ForML.Props.C08', 'ForML.Lemmas.C08Legacy', 'ForML.Lemmas.C08Schema']
    DRIVER = 'drv_c08'
    RULE = ('pairs of ASTs over the 3-table catalog of props/dslgen.py, built by two independent builders through the '
            'public DSL API: (a) the same statement / feature / kind rebuilt twice, (b) exactly one leaf changed '
            '(literal value, operator, alias, direction, column, reference name, join kind, set kind, row limit, cast kind, '
            'table twin = same fields under another name), (c) literal pairs from CPython hash-collision families '
            '(n / n+k(2^61-1), -1/-2/-(2^61), 0/2^61-1, float 1.0/2.0**61, 0.5/2.0**60, and the non-colliding 1/1.0/True) '
            'alone and inside random statements, (d) x vs x.alias(n), (e) window features (rebuilt / one leaf changed), '
            '(f) families of a statement (or feature) with up to 6 of its one-leaf / colliding variants as keys of one '
            'dict, every key looked up again through a rebuilt copy; a case is distinct by its ASTs and non-trivial '
            'when it was built and has >= 3 nodes. Observed on the real code: ==, bool(Equal(x, y)), hash, in dict, in '
            'set, pickle round trip fresh and after use, source[name] after the other object was built, schema ==/hash/'
            'pickle, parser and reader caches (pair-wise and over a whole family through one Reader / parser instance), '
            'dict.get over a family; pyIntHash vs hash(n) on 10^4 integers. (g) class hierarchies (props/c08schema.py): '
            'programs of 1-5 class statements - `class N(dsl.Schema | table)`, `class N(schema, ...)` with several bases, '
            'from_fields, from_record; overriding inherited attributes with the same / another / no explicit name, explicit '
            'names != keys, twin class names, risky names; 11 documented shapes first; ~35% also with a one-leaf variant '
            '(field kind / name / key / order / added field / class name) side by side - each built twice and against its '
            'flat equivalent, all class pairs compared, schema / table / reference / queries through pickle and cloudpickle; '
            'distinct by program, non-trivial with >= 2 classes and a base. (h) fresh interpreters: a random creation order of '
            'the 7 primitive kinds (repeats), compound kinds, reflect of python values (Decimal, date, datetime, lists, '
            'dicts), literals and hierarchies, plus objects of (g) shipped from the process that built them. (i) meetings: 2-3 '
            'fresh interpreters each make two anonymous references to one table, a query and a self-join over them, an '
            'anonymous reference to a query, a named reference, the dynamically created table, a statement all make alike '
            'and a one-leaf variant; a further interpreter unpickles all of it (pickle, cloudpickle), makes its own, compares '
            'every two objects (==, both ways, hash, dict, set) and self-joins every two anonymous references to one source. Oracle: '
            'structural identity of the ASTs / of the documented resolution of a hierarchy.')
    TRUSTED = [
        'CPython str / type / tuple / float hashing is not modelled (free hash environment: no collisions); '
        'accidental 64-bit collisions of those are outside the claim (with structural == they cost time, not identity)',
        'functools.lru_cache and dict are assumed to look keys up by hash and then == (modelled by dictGet)',
        'pickle protocol: modelled only as "reconstruction from __getnewargs__ succeeds with the same content or not"',
        'float literals are modelled by their repr: -0.0 / nan (whose == disagrees with repr) are not generated',
        'pickle memoises: every class of a hierarchy is reduced and rebuilt once, bases first (encode / buildAll)',
        'anonymous reference names are modelled as a function of (process, serial) (AnonNamer); that the 8 random letters of '
        'the real code are fresh across creations and processes is probabilistic (26^8 names, `random` seeded per '
        'interpreter) - checked on the names that actually occur in every meeting, not proved',
        'python\'s C3 linearisation is modelled (c3merge) and compared with python\'s own on every generated program',
    ]
    ASSUMPTIONS = [
        'a comparison between statements where an optional clause (where / having / join condition) is present on '
        'one side only raises ValueError (Literal(None)) once all earlier terms are equal: modelled (raises), not '
        'counted as a violation - the property speaks of objects comparing equal, and a raising == can neither confuse '
        'a lookup nor answer one',
        'literal values inside statements are int / bool / str / float (Decimal / date / datetime / list / dict values '
        'are generated for reflect and Literal(...).kind only)',
        'the structure of a table is the name of its class (the schema name for `class N(dsl.Schema)`, `Table` for '
        'dsl.Table(schema)) and the resolved ordered (name, kind) list; schema titles and attribute keys are labels - '
        'what Source.__eq__ / Schema.__eq__ implement consistently (hash, pickling)',
        'when the name of one field is the attribute key of another, `table[x]` is documented for both spellings and the '
        'key wins: access checks and statements are left out for such schemas',
        'schemas built by Schema.from_path and non-schema mixin bases are not generated',
    ]

    # ---- generation ------------------------------------------------------------------------------------------
    def _kind(self, depth: int):
        r = self.rng
        if depth <= 0 or r.random() < 0.5:
            return r.choice(g.PRIMITIVES)
        c = r.random()
        if c < 0.4:
            return ('array', self._kind(depth - 1))
        if c < 0.7:
            return ('map', self._kind(depth - 1), self._kind(depth - 1))
        names = r.sample(['a', 'b', 'c', 'd'], r.randint(1, 3))
        return ('struct',) + tuple((n, self._kind(depth - 1)) for n in names)

    def _kind_mutation(self, k):
        r = self.rng
        if isinstance(k, str):
            return r.choice([p for p in g.PRIMITIVES if p != k])
        if k[0] == 'array':
            return ('array', self._kind_mutation(k[1]))
        if k[0] == 'map':
            i = r.choice((1, 2))
            return k[:i] + (self._kind_mutation(k[i]),) + k[i + 1:]
        i = r.randrange(1, len(k))
        if r.random() < 0.5:
            return k[:i] + ((k[i][0] + '_', k[i][1]),) + k[i + 1:]
        return k[:i] + ((k[i][0], self._kind_mutation(k[i][1])),) + k[i + 1:]

    def _collision_pairs(self) -> list:
        """literal pairs (label, a, b, collide?)"""
        r = self.rng
        out = [('int-neg', ('int', -1), ('int', -2), True), ('int-zero', ('int', 0), ('int', M61), True),
               ('int-neg', ('int', -2), ('int', -(2 ** 61)), True), ('int-one', ('int', 1), ('int', 2 ** 61), True),
               ('float', ('float', '1.0'), ('float', repr(2.0 ** 61)), True),
               ('float', ('float', '0.5'), ('float', repr(2.0 ** 60)), True),
               ('cross-type', ('int', 1), ('float', '1.0'), False), ('cross-type', ('int', 1), ('bool', True), False),
               ('cross-type', ('int', 0), ('bool', False), False), ('cross-type', ('float', '0.0'), ('int', 0), False),
               ('near', ('int', M61 - 1), ('int', -2), False), ('near', ('int', 2), ('int', 2 + M61 + 1), False)]
        for _ in range(self.n(12, 60)):
            n = r.choice([r.randint(-50, 50), r.randint(-10 ** 6, 10 ** 6), r.randint(0, M61 - 1)])
            k = r.randint(1, 5)
            m = n + k * M61 if n >= 0 else n - k * M61
            out.append(('int-period', ('int', n), ('int', m), True))
        return out

    def _pairs(self) -> list:
        r = self.rng
        gen = g.Gen(r)
        pairs: list = []

        def add(sort, label, x, y):
            pairs.append({'sort': sort, 'label': label, 'x': x, 'y': y})

        # corpus: the documented witnesses first
        t = g.STUDENT
        col = ('elem', t, 'id')
        q = lambda lit: ('query', t, (col,), ('expr', 'gt', col, ('lit', lit)), (), None, (), None)  # noqa: E731
        add('feature', 'collision:int-neg', ('lit', ('int', -1)), ('lit', ('int', -2)))
        add('feature', 'collision:int-zero', ('lit', ('int', 0)), ('lit', ('int', M61)))
        add('source', 'collision:int-neg', q(('int', -1)), q(('int', -2)))
        add('source', 'collision:int-neg', ('ref', q(('int', -1)), 'r'), ('ref', q(('int', -2)), 'r'))
        add('source', 'mutation:table', g.SCHOOL, g.CAMPUS)
        add('source', 'mutation:table', ('query', g.SCHOOL, (), None, (), None, (), None), ('query', g.CAMPUS, (), None, (), None, (), None))
        add('feature', 'mutation:table', ('elem', g.SCHOOL, 'id'), ('elem', g.CAMPUS, 'id'))
        add('kind', 'identical', ('array', 'integer'), ('array', 'integer'))
        add('feature', 'alias-wrap', col, ('alias', col, 'x'))
        add('feature', 'alias-wrap', ('alias', col, 'x'), col)
        join = ('join', t, g.SCHOOL, 'inner', ('expr', 'and', ('expr', 'eq', ('elem', t, 'school'), ('elem', g.SCHOOL, 'id')),
                                               ('expr', 'gt', ('elem', t, 'level'), ('lit', ('int', 1)))))
        used = ('query', join, (col,), ('expr', 'gt', ('elem', t, 'level'), ('lit', ('int', 3))), (), None, (), None)
        add('source', 'identical', used, used)
        # tables with compound kinds (sources over them must pickle too)
        doc = lambda name, inner: ('table', name, (('id', 'integer'), ('tags', ('array', 'string')),  # noqa: E731
                                                   ('attrs', ('map', 'string', inner)),
                                                   ('meta', ('struct', ('a', 'integer'), ('b', ('array', 'date'))))))
        d1, d2 = doc('Doc', 'float'), doc('Doc', 'integer')
        add('source', 'identical', d1, d1)
        add('source', 'mutation:field-kind', d1, d2)
        add('source', 'mutation:table', d1, doc('Page', 'float'))
        dq = lambda d: ('query', d, (('elem', d, 'tags'), ('alias', ('elem', d, 'meta'), 'm')),  # noqa: E731
                        ('expr', 'gt', ('elem', d, 'id'), ('lit', ('int', 0))), (), None, (), None)
        add('source', 'identical', dq(d1), dq(d1))
        add('source', 'mutation:field-kind', dq(d1), dq(d2))
        add('feature', 'identical', ('elem', d1, 'attrs'), ('elem', d1, 'attrs'))
        # (e) windows
        rn = ('expr', 'rownumber')
        w = lambda fn, part, order: ('window', fn, part, order)  # noqa: E731
        lvl, sc = ('elem', t, 'level'), ('elem', t, 'score')
        windows = [w(rn, (), ()), w(rn, (lvl,), ()), w(rn, (lvl,), (('ord', sc, 'desc'),)),
                   w(('expr', 'sum', sc), (lvl,), (('ord', col, 'asc'),))]
        for wi in windows:
            add('feature', 'window:identical', wi, wi)
            add('source', 'window:identical', ('query', t, (('alias', wi, 'w'), col), None, (), None, (), None),
                ('query', t, (('alias', wi, 'w'), col), None, (), None, (), None))
        add('feature', 'window:mutation', windows[1], w(rn, (sc,), ()))
        add('feature', 'window:mutation', windows[2], w(rn, (lvl,), (('ord', sc, 'asc'),)))
        add('feature', 'window:mutation', windows[3], w(('expr', 'avg', sc), (lvl,), (('ord', col, 'asc'),)))
        # (a) + (b): statements, their sub-features, one-leaf mutations
        for _ in range(self.n(220, 8000)):
            ast = gen.statement(r.choice((1, 1, 2)))
            add('source', 'identical', ast, ast)
            for label, mut in g.leaf_mutations(ast, r, limit=3):
                add('source', 'mutation:' + label, ast, mut)
            feats = [n for _, s, n in g.positions(ast) if s == 'feature' and n[0] != 'window']
            for f in r.sample(feats, min(2, len(feats))):
                add('feature', 'identical', f, f)
                for label, mut in g.leaf_mutations(f, r, limit=2):
                    add('feature', 'mutation:' + label, f, mut)
                if f[0] != 'alias' and r.random() < 0.05:
                    add('feature', 'alias-wrap', f, ('alias', f, 'x'))
                    add('feature', 'alias-wrap', ('alias', f, 'x'), f)
        # (c) collision families inside random contexts
        for label, a, b, _ in self._collision_pairs():
            add('feature', 'collision:' + label, ('lit', a), ('lit', b))
            for _ in range(self.n(2, 8)):
                ast = gen.statement(1)
                lits = [(p, n) for p, s, n in g.positions(ast) if s == 'feature' and n[0] == 'lit' and n[1][0] in ('int', 'float')]
                if not lits:
                    ast = q(a)
                    lits = [(p, n) for p, s, n in g.positions(ast) if s == 'feature' and n[0] == 'lit']
                path, _ = r.choice(lits)
                x, y = g.replace(ast, path, ('lit', a)), g.replace(ast, path, ('lit', b))
                if r.random() < 0.4 and x[0] != 'ref':  # (a reference of a reference collapses: not a stored form)
                    x, y = ('ref', x, 'r'), ('ref', y, 'r')
                add('source', 'collision:' + label, x, y)
        # kinds
        for _ in range(self.n(80, 800)):
            k = self._kind(2)
            add('kind', 'identical', k, k)
            add('kind', 'mutation:kind', k, self._kind_mutation(k))
        return pairs

    def _families(self) -> list:
        """(f) a statement / feature and its variants as the keys of one dict"""
        r = self.rng
        gen = g.Gen(r)
        fams: list = []
        t = g.STUDENT
        col = ('elem', t, 'id')
        q = lambda lit: ('query', t, (col,), ('expr', 'gt', col, ('lit', lit)), (), None, (), None)  # noqa: E731
        fams.append({'sort': 'source', 'label': 'family:collision', 'keys': (q(('int', -1)), q(('int', -2)), q(('int', -(2 ** 61))), q(('int', 0)), q(('int', M61)))})
        fams.append({'sort': 'feature', 'label': 'family:collision', 'keys': tuple(('lit', ('int', n)) for n in (-1, -2, 0, M61, 1, 2 ** 61))})
        fams.append({'sort': 'source', 'label': 'family:table', 'keys': (g.SCHOOL, g.CAMPUS, t)})
        fams.append({'sort': 'feature', 'label': 'family:alias', 'keys': (col, ('alias', col, 'x'), ('alias', col, 'y'), ('elem', t, 'level'))})
        collisions = [(a, b) for _, a, b, c in self._collision_pairs() if c and a[0] == 'int']
        for _ in range(self.n(40, 1200)):
            sort = 'source' if r.random() < 0.7 else 'feature'
            ast = gen.statement(1)
            if sort == 'feature':
                feats = [n for _, s, n in g.positions(ast) if s == 'feature' and n[0] not in ('window', 'lit')]
                if not feats:
                    continue
                ast = r.choice(feats)
            keys = [ast] + [m for _, m in g.leaf_mutations(ast, r, limit=4)]
            lits = [p for p, s, n in g.positions(ast) if s == 'feature' and n[0] == 'lit' and n[1][0] == 'int']
            if lits:
                a, b = r.choice(collisions)
                path = r.choice(lits)
                keys += [g.replace(ast, path, ('lit', a)), g.replace(ast, path, ('lit', b))]
            keys = tuple(dict.fromkeys(keys))[:7]
            if len(keys) >= 2:
                fams.append({'sort': sort, 'label': 'family', 'keys': keys})
        return fams


    # ---- schemas from class hierarchies (props/c08schema.py) ---------------------------------------------------------
    #: documented shapes first: the example of the `dsl.Schema` docs, the ordering / override rules, functional schemas
    HIER_CORPUS = (
        ('doc-example', (('decl', 'Person', (), (('surname', None, 'string'), ('dob', 'birthday', 'date'))),
                         ('decl', 'Student', (0,), (('level', None, 'integer'), ('score', None, 'float'))))),
        ('override-renamed', (('decl', 'Base', (), (('first', None, 'integer'), ('fixme', 'old', 'float'))),
                              ('decl', 'Child', (0,), (('last', None, 'integer'), ('fixme', 'new', 'string'))))),
        ('override-renamed-3', (('decl', 'A', (), (('first', None, 'integer'), ('mid', 'old', 'string'), ('last', None, 'float'))),
                                ('decl', 'B', (0,), (('mid', 'new', 'date'), ('extra', None, 'integer'))),
                                ('decl', 'C', (1,), (('mid', 'newer', 'timestamp'), ('first', None, 'decimal'))))),
        ('override-same-name', (('decl', 'A', (), (('k', 'n', 'integer'), ('b', None, 'string'))),
                                ('decl', 'B', (0,), (('k', 'n', 'float'),)), ('decl', 'C', (1,), ()))),
        ('explicit-names', (('decl', 'A', (), (('points', 'score', 'float'), ('x', 'x y', 'integer'), ('id', 'Id', 'integer'))),
                            ('meta', 'B', (0,), (('more', 'n1', ('array', 'string')),)))),
        ('multi-base', (('meta', 'A', (), (('a', None, 'integer'),)), ('meta', 'B', (), (('b', 'bee', 'string'),)),
                        ('meta', 'AB', (0, 1), (('c', None, 'date'),)), ('meta', 'BA', (1, 0), (('c', None, 'date'),)))),
        ('diamond', (('meta', 'T', (), (('k', 'n0', 'integer'), ('t', None, 'string'))), ('meta', 'L', (0,), ()),
                     ('meta', 'R', (0,), (('k', 'n1', 'float'), ('r', None, 'date'))), ('meta', 'D', (1, 2), (('d', None, 'boolean'),)))),
        ('functional', (('fields', 'F', (), (('_0', 'A', 'integer'), ('_1', 'B', 'string'), ('_2', None, 'float'))),
                        ('record', 'R', (), (('_0', 'name', 'string'), ('_1', 'age', 'integer'), ('_2', None, 'timestamp'))),
                        ('meta', 'X', (0,), (('more', None, 'date'),)))),
        ('duplicate-name', (('decl', 'P', (), (('first', None, 'integer'), ('mid', 'old', 'string'))),
                            ('decl', 'C', (0,), (('mid', 'new', 'date'),)),
                            ('decl', 'G', (1,), (('other', 'new', 'integer'),)))),
        ('equal-classes', (('meta', 'C0', (), (('a', None, 'integer'),)), ('meta', 'C1', (0,), ()),
                           ('meta', 'C2', (0,), (('b', None, 'string'),)), ('meta', 'C3', (1, 2), (('c', None, 'date'),)))),
        ('key-twins', (('decl', 'C0', (), (('mid', None, 'boolean'), ('k1', 'n2', 'integer'))),
                       ('decl', 'C0', (), (('mid', None, 'boolean'), ('q1', 'n2', 'integer'))))),
        ('twins', (('decl', 'T', (), (('a', None, 'integer'), ('b', 'bee', 'string'))),
                   ('decl', 'U', (), (('a', None, 'integer'), ('b', 'bee', 'string'))),
                   ('decl', 'T', (), (('a', None, 'integer'), ('bee', None, 'string'))),
                   ('decl', 'T', (), (('b', 'bee', 'string'), ('a', None, 'integer'))))),
    )

    def _hier_cases(self) -> list:
        r = self.rng
        gen = cs.HGen(r)
        cases = [{'label': 'hier:' + label, 'prog': prog} for label, prog in self.HIER_CORPUS]
        for _ in range(self.n(110, 4000)):
            prog = gen.prog()
            cases.append({'label': 'hier', 'prog': prog})
            if r.random() < 0.35:
                # the same hierarchy with one leaf changed, side by side in one program (classes n.. = the variant)
                for label, mut in cs.mutations(prog, r, limit=1):
                    n = len(prog)
                    # (an extended class of the variant gets another name: two equal declared tables that are
                    # extended further are what finding C08-F4 is about)
                    shifted = tuple((via, name + ('_' if any(k in b for _, _, b, _ in mut) else ''), tuple(b + n for b in bases), ns)
                                    for k, (via, name, bases, ns) in enumerate(mut))
                    cases.append({'label': 'hier:mutation:' + label, 'prog': prog + shifted})
        return cases

    @staticmethod
    def _key_twins(prog, outcome) -> bool:
        """Two declared tables of the program are equal (class name, fields) although they are different classes -
        spelling an attribute key differently, or being extended further: they share the cache of
        `Source.__getitem__`, so `table.schema` of the later one (also when a class statement extends it) is the schema
        class of the earlier one (finding C08-F4)."""
        groups: dict = {}
        for i in range(len(prog)):
            if outcome[i] == 'ok':
                ent = cs.spec_entries(prog, i)
                if ent is not None:
                    key = (cs.table_name(prog, i), tuple((n, k) for _, n, k in ent))
                    groups.setdefault(key, []).append((tuple(ent), prog[i][0] == 'decl' and any(i in b for _, _, b, _ in prog)))
        return any(len(m) > 1 and (len({e for e, _ in m}) > 1 or any(x for _, x in m)) for m in groups.values())

    def _oracle_hier(self, case: dict, obs: dict) -> list:
        """[(what, signature, class index)] — the property on the schemas / tables / statements of one program"""
        out = []
        prog = case['prog']

        keytwins = self._key_twins(prog, obs['outcome'])

        def bad(i, what, sig):
            # two equal tables that are different classes share forml's caches (C08-F4): whatever goes through item
            # access / `.schema` of one of them - building statements included - may be answered by the other
            if keytwins and sig.startswith('schema:'):
                sig = 'equal-tables-different-keys'
            out.append((f'{what} [{case["label"]}, class {i} {prog[i][1]}]', sig, i))

        if obs['outcome'] != obs['outcome2']:
            # (the second build of an extended declared table is an equal twin of the first: its children are handed
            # the schema class of the first build as their base - C08-F4 - which shows where several bases are linearised)
            extended = any(via == 'decl' and any(i in b for _, _, b, _ in prog) for i, (via, _, _, _) in enumerate(prog))
            bad(0, f'the same class statements executed twice end differently: {obs["outcome"]} / {obs["outcome2"]}',
                'equal-tables-different-keys' if extended else 'schema:nondeterministic')
        for i, rec in enumerate(obs['classes']):
            if rec is None:
                continue
            want = cs.spec_fields(prog, i)
            entries = cs.spec_entries(prog, i)
            if want is None:
                bad(i, 'a class whose bases python itself cannot linearise was created',
                    'equal-tables-different-keys' if keytwins else 'schema:mro')
                continue
            if rec['fields'] != want or rec['len'] != len(want):
                # (a class statement over a key twin may be handed the schema of the other twin: C08-F4)
                bad(i, f'the schema is not the documented resolution of its hierarchy: {rec["fields"]} (len {rec["len"]}) instead of {want}',
                    'equal-tables-different-keys' if keytwins else 'schema:resolution')
                continue
            names = [n for n, _ in want]
            dup = len(set(names)) != len(names)

            access_sig = 'schema-duplicate-name' if dup else 'equal-tables-different-keys' if keytwins else 'schema:access'

            def copy_sig(c, base, access_sig=access_sig):
                if isinstance(c, dict) and copy_ok_but_access(c):
                    return access_sig
                return base

            if rec['table'] != ('table', cs.table_name(prog, i), want):
                bad(i, f'the table reads {rec["table"]}', 'schema:table')
            for grp, sig in (('rebuilt', 'schema:rebuilt'), ('flat', 'schema:flat')):
                v = rec.get(grp)
                if isinstance(v, dict):
                    for what, c in v.items():
                        if not cs.copy_ok(c):
                            how = 'the same hierarchy built twice' if grp == 'rebuilt' else 'a hierarchy and the flat class with the same fields'
                            bad(i, f'{how}: {what}s differ: {_brief(c)}', copy_sig(c, f'{sig}:{what}'))
                elif isinstance(v, str) and not dup:
                    bad(i, f'the flat class with the resolved fields of the hierarchy is refused: {v}', 'schema:flat-refused')
            if rec['access']:
                bad(i, f'attribute / item access does not return the column of the field: {rec["access"][:3]}', access_sig)
            for key, c in rec['pickle'].items():
                tag, codec = key.split('/')
                if isinstance(c, dict) and cs.copy_ok(c):
                    continue
                if codec == 'cloudpickle':  # classes by value through cloudpickle's own reducer: one root cause (C08-F3)
                    bad(i, f'cloudpickle round trip of the {tag}: {_brief(c)}', 'cloudpickle-by-value')
                else:
                    bad(i, f'pickle round trip of the {tag}: {_brief(c)}', copy_sig(c, 'schema:pickle'))
            for j, c in enumerate(rec.get('stmts', ())):
                if not (isinstance(c, dict) and cs.copy_ok(c)):
                    bad(i, f'statement {j} over the table built twice: {_brief(c)}', 'schema:statement')
        for i, j, p in obs['pairs']:
            fi, fj = cs.spec_fields(prog, i), cs.spec_fields(prog, j)
            ri, rj = obs['classes'][i], obs['classes'][j]
            if ri is None or rj is None or ri['fields'] != fi or rj['fields'] != fj:
                continue
            same = fi == fj
            sch = [p['schema_eq'], p['schema_eq_rev'], p['schema_hash'], p['schema_in']]
            if same and sch != ['true', 'true', True, 'true']:
                bad(j, f'schemas with the same fields as class {i}: ==, == reversed, hash equal, in dict = {sch}', 'schema:equal')
            if not same and 'true' in (sch[0], sch[1], sch[3]):
                bad(j, f'schemas with different fields ({fi} / {fj}): ==, == reversed, hash equal, in dict = {sch}', 'schema:distinct')
            tsame = same and cs.table_name(prog, i) == cs.table_name(prog, j)
            tab = [p['table_eq'], p['table_eq_rev'], p['table_hash'], p['table_in']]
            if tsame and (tab != ['true', 'true', True, 'true'] or p['table_ne'] != 'false'):
                bad(j, f'tables of one class name and the same fields as class {i}: ==, == reversed, hash equal, in dict = {tab}, != {p["table_ne"]}',
                    'schema:table-equal')
            if not tsame and ('true' in (tab[0], tab[1], tab[3]) or p['table_ne'] == 'false'):
                bad(j, f'different tables (class {i}): ==, == reversed, hash equal, in dict = {tab}, != {p["table_ne"]}', 'schema:table-distinct')
        return out

    @staticmethod
    def _impl_outcome(o: str) -> str:
        return {'ok': 'ok', 'GrammarError': 'grammar', 'TypeError': 'type-error', 'skipped': 'skipped'}.get(o, o)

    def _hierarchies(self) -> list:
        """Correspondence + oracle for the hierarchy cases; returns the cases with their observations."""
        cases = self._hier_cases()
        observations = self._observe_all(cases)
        answers = self.model([sexp.dumps(('schema', cs.prog_sexp(c['prog']))) for c in cases])
        eq_lines, eq_index = [], []
        first: dict = {}
        for case, obs, answer in zip(cases, observations, answers):
            prog = case['prog']
            mod = sexp.loads(answer)
            nontrivial = len(prog) >= 2 and any(b for _, _, b, _ in prog)
            shape = 'hier ' + ('multi-base' if any(len(b) > 1 for _, _, b, _ in prog) else 'chain' if nontrivial else 'flat') \
                + (' override' if any(cs.spec_entries(prog, i) is not None and len(cs.spec_entries(prog, i)) < sum(len(prog[c][3]) for c in (cs.spec_mro(prog, i) or ()))
                                      for i in range(len(prog))) else '')
            self.case(('hier', prog), shape, nontrivial=nontrivial,
                      sample={'label': case['label'], 'prog': sexp.dumps(cs.prog_sexp(prog))[:300], 'outcome': obs['outcome']}
                      if len(self.samples) < 8 and nontrivial and self.rng.random() < 0.02 else None)
            if not isinstance(mod, list) or len(mod) != len(prog):
                self.diverge('schema hierarchy: model answer', {'hier': _jsonable_hier(case)}, obs['outcome'], mod)
                continue
            impl, modl = [], []
            for i, rec in enumerate(obs['classes']):
                m = mod[i]
                if rec is None:
                    impl.append(self._impl_outcome(obs['outcome'][i]))
                    modl.append('grammar' if m in ('grammar-bases', 'grammar-field') else m if isinstance(m, str) else 'ok')
                    continue
                pick = rec['pickle'].get('schema/pickle')
                impl.append(['ok', _listify(rec['fields']), rec['table'][1] if isinstance(rec['table'], tuple) else rec['table'],
                             isinstance(pick, dict) and cs.copy_ok(pick)])
                modl.append([m[0], _listify(m[1]), m[2], m[3] == 'true'] if isinstance(m, list) and len(m) == 4 else m)
            if impl != modl and not self._key_twins(prog, obs['outcome']):
                self.diverge('schema hierarchy: outcome / resolved fields / table class / pickle', {'hier': _jsonable_hier(case)}, impl, modl)
            for i, j, p in obs['pairs']:
                ri, rj = obs['classes'][i], obs['classes'][j]
                if ri is not None and rj is not None and isinstance(ri['fields'], tuple) and isinstance(rj['fields'], tuple):
                    eq_lines.append(sexp.dumps(('schemaeq', ri['fields'], rj['fields'])))
                    eq_index.append((case, i, j, [p['schema_eq'], 'true' if p['schema_hash'] is True else 'false']))
            for what, sig, i in self._oracle_hier(case, obs):
                if sig not in first:
                    first[sig] = (len(self.violations), case, i)
                self.violate(what, {'kind': 'hier', 'label': case['label'], 'prog': prog, 'cls': i}, sig)
        for (case, i, j, impl), answer in zip(eq_index, self.model(eq_lines) if eq_lines else []):
            a = sexp.loads(answer)
            # (`Schema.__hash__` is the xor of the field hashes: schemas holding the same fields in another order hash
            # equal - the free hash environment of the model only says where the hashes are *forced* to agree)
            if not (isinstance(a, list) and len(a) == 3 and a[1] == impl[0] and (a[2] != 'true' or impl[1] == 'true')):
                self.diverge('Schema.__eq__ / __hash__ of two classes of a program', {'hier': _jsonable_hier(case), 'classes': [i, j]}, impl, a)
        self._shrink_hier(first)
        return list(zip(cases, observations))

    def _known_signatures(self) -> set:
        """signatures of the listed findings (their witnesses are minimal already: nothing to shrink)"""
        if not hasattr(self, '_known_sigs'):
            try:
                self._known_sigs = {e.get('signature') for e in fw._load_findings(self.ID) if e.get('status') == 'finding'}  # pylint: disable=protected-access
            except Exception:  # pylint: disable=broad-except
                self._known_sigs = set()
        return self._known_sigs

    def _shrink_hier(self, first: dict) -> None:
        """Replace the first witness of every signature by a smaller program that still violates the same way: the
        ancestors of the class only, then single fields / childless classes dropped while the signature stays."""
        todo = [(sig, v) for sig, v in first.items() if sig not in self._known_signatures()][:6]
        for sig, (idx, case, i) in todo:
            best = (case['prog'], i)
            for _ in range(4):
                cands = _smaller_programs(*best)
                if not cands:
                    break
                obs = self._observe_all([{'label': case['label'] + ' (shrunk)', 'prog': p, 'target': t} for p, t in cands])
                hit = None
                for (p, t), o in zip(cands, obs):
                    found = [(w, s, c) for w, s, c in self._oracle_hier({'label': case['label'] + ' (shrunk)', 'prog': p}, o) if s == sig]
                    if found and (hit is None or _prog_size(p) < _prog_size(hit[0])):
                        hit = (p, found[0][2], found[0][0])
                if hit is None or _prog_size(hit[0]) >= _prog_size(best[0]):
                    break
                best = (hit[0], hit[1])
                self.violations[idx] = fw.Violation(hit[2], {'kind': 'hier', 'label': case['label'] + ' (shrunk)', 'prog': hit[0], 'cls': hit[1]}, sig, None)

    # ---- fresh interpreters: creation orders of kinds, objects shipped between processes --------------------------
    def _fresh_jobs(self, hier: list) -> list:
        r = self.rng
        gen = cs.HGen(r)
        # objects of the hierarchy cases to be shipped (target class of programs that were built)
        blobs = []
        for case, obs in hier:
            prog = case['prog']
            t = case.get('target', len(prog) - 1)
            rec = obs['classes'][t] if t < len(obs['classes']) else None
            if rec is not None and rec.get('blobs') and rec['fields'] == cs.spec_fields(prog, t):
                blobs.append({'prog': prog, 'target': t, 'objs': rec['blobs'], 'label': case['label']})
        njobs = 12 if self.quick else 160  # (not escalated: a new interpreter costs seconds)
        corpus = [b for b in blobs if b['label'] != 'hier']
        rest = [b for b in blobs if b['label'] == 'hier']
        r.shuffle(rest)
        take = corpus + rest[:max(0, njobs * (5 if self.quick else 12) - len(corpus))]
        jobs = []
        for j in range(njobs):
            prims = list(cs.PRIMITIVES) + r.sample(cs.PRIMITIVES, 3)
            r.shuffle(prims)
            ops = [('kind', p) for p in prims]
            for _ in range(4):
                ops.insert(r.randrange(len(ops) + 1), ('kind', self._kind(2)))
            for _ in range(5):
                ops.insert(r.randrange(len(ops) + 1), ('reflect', gen.value(2)))
            for _ in range(3):
                ops.insert(r.randrange(len(ops) + 1), ('literal', gen.value(0)))
            for _ in range(2):
                ops.insert(r.randrange(len(ops) + 1), ('hier', gen.prog()))
            if j == 0:  # the inheriting pair of kind classes, either way round, before anything else
                ops = [('kind', 'date'), ('kind', 'timestamp')] + ops
            elif j == 1:
                ops = [('kind', 'timestamp'), ('kind', 'date')] + ops
            jobs.append({'ops': tuple(ops), 'blobs': tuple(take[j::njobs])})
        return jobs

    def _oracle_fresh(self, job: dict, res: dict) -> list:
        """[(what, signature, index of the op | None)]"""
        out = []
        if 'error' in res:
            raise fw.MachineryError(f'fresh interpreter failed: {res["error"][-300:]}')
        ids: dict = {}
        for k, (op, got) in enumerate(zip(job['ops'], res['ops'])):
            tag = op[0]
            if 'raises' in got and not (tag == 'reflect' and cs.spec_reflect(op[1]) is None and got['raises'] == 'ValueError'):
                out.append((f'{tag} {op[1]!r} raises {got["raises"]} (creation order: op {k})', f'kind:{tag}-raises', k))
                continue
            if tag == 'kind':
                if got.get('got') != op[1]:
                    out.append((f'instantiating kind {op[1]!r} returned {got.get("got")!r} (class {got.get("cls")}) after '
                                f'{[o[1] for o in job["ops"][:k] if o[0] == "kind" and isinstance(o[1], str)]} had been created',
                                'kind:not-requested', k))
                elif isinstance(op[1], str):
                    if ids.setdefault(op[1], got['id']) != got['id'] or list(ids.values()).count(got['id']) > 1:
                        out.append((f'primitive kind {op[1]} is not one instance of its own (ids {ids}, now {got["id"]})', 'kind:singleton', k))
            elif tag in ('reflect', 'literal'):
                want = cs.spec_reflect(op[1])
                if 'raises' not in got and got.get('got') != want:
                    out.append((f'{tag} of {op[1]!r} is of kind {got.get("got")!r} instead of {want!r}', 'kind:reflect', k))
            elif tag == 'hier':
                for i, (o, f) in enumerate(zip(got['outcome'], got['fields'])):
                    if o == 'ok' and f != cs.spec_fields(op[1], i):
                        out.append((f'hierarchy class {i}: fields {f} instead of {cs.spec_fields(op[1], i)}', 'schema:resolution', k))
        if res['kind_pairs']['bad']:
            out.append((f'kinds made in one process: ==, == reversed, hash equal, in dict of {res["kind_pairs"]["bad"][0]}', 'kind:eq', None))
        if res['kind_pickle_bad']:
            out.append((f'kind does not survive pickling: {res["kind_pickle_bad"][0]}', 'kind:pickle', None))
        for blob, rec in zip(job['blobs'], res['blobs']):
            prog, t = blob['prog'], blob['target']
            if rec['outcome'] != 'ok':
                out.append((f'class statement that succeeded in the sending process ends {rec["outcome"]} here', 'schema:nondeterministic', None))
                continue
            for key, c in rec.items():
                if key == 'outcome' or (isinstance(c, dict) and cs.copy_ok(c)):
                    continue
                codec = key.split('/')[-1]
                sig = 'cloudpickle-by-value' if codec == 'cloudpickle' else 'schema:pickle-fresh'
                names = [n for n, _ in cs.spec_fields(prog, t)]
                if codec != 'cloudpickle' and isinstance(c, dict) and copy_ok_but_access(c):
                    if len(set(names)) != len(names):
                        sig = 'schema-duplicate-name'
                if sig == 'schema:pickle-fresh' and self._key_twins(prog, ['ok' if cs.spec_fields(prog, k) is not None else 'skipped' for k in range(len(prog))]):
                    sig = 'equal-tables-different-keys'
                out.append((f'{key} unpickled in another interpreter vs the object built there: {_brief(c)} '
                            f'[{blob["label"]}, class {t} {prog[t][1]}]', sig, ('blob', blob)))
        return out

    def _fresh(self, hier: list) -> None:
        jobs = self._fresh_jobs(hier)
        results = cs.run_fresh(jobs)
        lines, index = [], []
        first: dict = {}
        for job, res in zip(jobs, results):
            found = self._oracle_fresh(job, res)
            prims = [op[1] for op in job['ops'] if op[0] == 'kind' and isinstance(op[1], str)]
            self.case(('fresh', job['ops']), f'fresh interpreter: {len(job["ops"])} creations, {len(job["blobs"])} shipped objects', nontrivial=True)
            for b in job['blobs']:
                self.case(('shipped', b['prog'], b['target']), 'hier shipped to a fresh interpreter', nontrivial=True)
            lines.append(sexp.dumps(('kindorder', tuple(prims))))
            impl = [[got.get('cls', '').lower(), got.get('id')] for op, got in zip(job['ops'], res['ops']) if op[0] == 'kind' and isinstance(op[1], str)]
            index.append(('order', job, impl))
            for op, got in zip(job['ops'], res['ops']):
                if op[0] in ('reflect', 'literal'):
                    lines.append(sexp.dumps(('reflect', op[1])))
                    index.append(('reflect', op, 'none' if 'raises' in got else _listify(got.get('got'))))
            for what, sig, where in found:
                blob = where[1] if isinstance(where, tuple) else None
                witness = {'kind': 'fresh', 'job': {'ops': job['ops'] if blob is None else (), 'blobs': ()},
                           'shipped': None if blob is None else {'prog': blob['prog'], 'target': blob['target'], 'label': blob['label']}}
                if sig not in first:
                    first[sig] = (len(self.violations), job, where)
                self.violate(what, witness, sig)
        for (what, ref, impl), answer in zip(index, self.model(lines)):
            a = sexp.loads(answer)
            if what == 'order':
                mod = [[c, int(i)] for c, i in a] if isinstance(a, list) else a
                if mod != impl:
                    self.diverge('kind singletons over a creation order', {'fresh': {'ops': ref['ops']}}, impl, mod)
            elif _listify(a) != impl:
                self.diverge('kind.reflect', {'reflect': ref[1]}, impl, a)
        self._shrink_fresh(first)

    def _shrink_fresh(self, first: dict) -> None:
        """Creation orders: keep the failing creation and drop the others while the same violation stays."""
        for sig, (idx, job, where) in list(first.items())[:4]:
            if not isinstance(where, int) or sig in self._known_signatures():
                continue
            ops = list(job['ops'][:where + 1])
            for _ in range(3):
                cands = [ops[:k] + ops[k + 1:] for k in range(len(ops) - 1)]
                if not cands:
                    break
                cands = cands[:24]
                results = cs.run_fresh([{'ops': tuple(c), 'blobs': ()} for c in cands])
                hit = None
                for c, res in zip(cands, results):
                    if 'error' in res:
                        continue
                    found = [f for f in self._oracle_fresh({'ops': tuple(c), 'blobs': ()}, res) if f[1] == sig and f[2] == len(c) - 1]
                    if found:
                        hit = (c, found[0][0])
                        break
                if hit is None:
                    break
                ops = hit[0]
                self.violations[idx] = fw.Violation(hit[1], {'kind': 'fresh', 'job': {'ops': tuple(ops), 'blobs': ()}, 'shipped': None}, sig, None)


    # ---- meetings: objects made independently in several interpreters are brought together in one more -------------
    def _meet_scenarios(self) -> list:
        """[{'makers': [recipes...], 'local': recipes}] — per maker: two anonymous references to one table, a query and a
        self-join over them, a named reference, the (dynamically created) table, a statement every maker builds alike
        and one only every other maker builds (a one-leaf variant)."""
        r = self.rng
        gen = g.Gen(r)
        out = []
        for _ in range(3 if self.quick else 24):
            table = r.choice((g.STUDENT, g.SCHOOL))
            shared = gen.statement(1)
            muts = g.leaf_mutations(shared, r, limit=1)
            variant = muts[0][1] if muts else shared

            def recipes(m, table=table, shared=shared, variant=variant):
                a0, a1 = ('anonref', table, (m, 0)), ('anonref', table, (m, 1))
                first = g.fields_of(table)[0][0]
                out = [a0, a1,
                       ('query', a0, (('elem', a0, first),), None, (), None, (), None),
                       ('join', a0, a1, 'inner', ('expr', 'eq', ('elem', a0, first), ('elem', a1, first))),
                       ('ref', table, 'r'), table, shared]
                if m in (1, 'L'):
                    out.append(variant)
                if r.random() < 0.5:
                    out.append(('anonref', ('query', table, (('elem', table, first),), None, (), None, (), None), (m, 2)))
                return tuple(out)

            out.append({'makers': tuple(recipes(m) for m in range(r.choice((2, 2, 3)))), 'local': recipes('L')})
        return out

    def _run_meetings(self, scenarios: list, made=None) -> list:
        """makers first (all scenarios at once, a new interpreter each), then one meeting interpreter per scenario"""
        if made is None:
            flat = [{'make': rec} for sc in scenarios for rec in sc['makers']]
            answers = iter(cs.run_fresh(flat))
            made = [[next(answers) for _ in sc['makers']] for sc in scenarios]
        jobs = []
        for sc, results in zip(scenarios, made):
            items = []
            for m, (rec, res) in enumerate(zip(sc['makers'], results)):
                if 'error' in res:
                    raise fw.MachineryError(f'maker interpreter failed: {res["error"][-300:]}')
                for ast, blobs in zip(rec, res['made']):
                    items.append({'origin': m, 'ast': ast, 'blobs': blobs})
            jobs.append({'meet': {'items': tuple(items), 'local': sc['local']}})
        results = cs.run_fresh(jobs)
        for res in results:
            if 'error' in res:
                raise fw.MachineryError(f'meeting interpreter failed: {res["error"][-300:]}')
        return [(job['meet'], res['meet']) for job, res in zip(jobs, results)]

    def _oracle_meet(self, spec: dict, res: dict) -> list:
        """[(what, signature, (i, j) | None)] — equal structures stay equal, distinct creations stay distinct"""
        out = []
        recipes = [it['ast'] for it in spec['items']] + list(spec['local'])
        origin = [f'maker {it["origin"]}' for it in spec['items']] + ['the meeting process'] * len(spec['local'])
        for codec in ('pickle', 'cloudpickle'):
            got = res[codec]
            known = 'cloudpickle-by-value' if codec == 'cloudpickle' else None
            for k, err in got['errors']:
                if err.startswith('build:'):  # the DSL refused the recipe: nothing was made
                    continue
                out.append((f'object {k} ({origin[k]}) does not arrive through {codec}: {err}', known or 'meet:load', None))
            for i, j, obs in got['bad']:
                same = recipes[i] == recipes[j]
                if not same and cs.forget_idents(recipes[i]) == cs.forget_idents(recipes[j]):
                    out.append((f'two different anonymous references ({origin[i]} / {origin[j]}; {codec}) are one object after they '
                                f'met: ==, == reversed, hash equal, in dict, in set = {list(obs)}', 'anonymous-reference-collapse', (i, j)))
                elif same:
                    out.append((f'the same structure made by {origin[i]} and {origin[j]} ({codec}): ==, == reversed, hash equal, in '
                                f'dict, in set = {list(obs)}', known or 'meet:equal', (i, j)))
                else:
                    out.append((f'different structures made by {origin[i]} and {origin[j]} ({codec}) are confused: ==, == reversed, '
                                f'hash equal, in dict, in set = {list(obs)}', known or 'meet:distinct', (i, j)))
            for i, j, obs in got['joins']:
                out.append((f'self-join between the anonymous references of {origin[i]} and {origin[j]} ({codec}): left == right, '
                            f'distinct features / expected, distinct join columns, selected columns equal = {obs}',
                            known or 'anonymous-reference-collapse', (i, j)))
        return out

    def _meetings(self) -> None:
        scenarios = self._meet_scenarios()
        lines, index = [], []
        first: dict = {}
        for sc, (spec, res) in zip(scenarios, self._run_meetings(scenarios)):
            self.case(('meet', sc['makers'], sc['local']), f'meeting of {len(sc["makers"])} makers + local objects', nontrivial=True)
            for what, sig, where in self._oracle_meet(spec, res):
                if sig not in first:
                    first[sig] = (len(self.violations), sc, spec, where)
                self.violate(what, {'kind': 'meet', 'makers': sc['makers'], 'local': sc['local']}, sig)
            # model: `==` / hash of the anonymous references as they arrived (their real names)
            asts = {i: tuplify(a) for i, a in res['pickle']['asts'] if not isinstance(a, str)}
            ids = sorted(asts)
            badpairs = {(i, j): obs for i, j, obs in res['pickle']['bad']}
            recipes = [it['ast'] for it in spec['items']] + list(spec['local'])
            for a in range(len(ids)):
                for b in range(a + 1, len(ids)):
                    i, j = ids[a], ids[b]
                    lines.append(sexp.dumps(g.with_let(('eqs', g.short(asts[i]), g.short(asts[j])))))
                    if (i, j) in badpairs:
                        obs = badpairs[(i, j)]
                        impl = [obs[0], 'true' if obs[2] is True else 'false']
                    else:
                        same = recipes[i] == recipes[j]
                        impl = ['true', 'true'] if same else ['false', None]
                    index.append((sc, i, j, impl))
        for (sc, i, j, impl), answer in zip(index, self.model(lines) if lines else []):
            a = sexp.loads(answer)
            if not (isinstance(a, list) and a[0] == 'eq' and a[1] == impl[0] and (impl[1] is None or a[2] == impl[1])):
                self.diverge('== / hash of anonymous references after they met', {'meet': {'makers': sc['makers'], 'local': sc['local']},
                                                                                'objects': [i, j]}, impl, a)
        self._shrink_meet(first)

    def _shrink_meet(self, first: dict) -> None:
        """keep the two objects of the first confused pair only (each in its own maker / the meeting process)"""
        for sig, (idx, sc, spec, where) in list(first.items())[:3]:
            if where is None or sig in self._known_signatures():
                continue
            recipes = [(it['origin'], it['ast']) for it in spec['items']] + [('L', a) for a in spec['local']]
            (oi, ai), (oj, aj) = recipes[where[0]], recipes[where[1]]
            makers = [[], []]
            local = []
            for slot, (o, a) in enumerate(((oi, ai), (oj, aj))):
                if o == 'L':
                    local.append(a)
                else:
                    makers[slot].append(a)
            makers = tuple(tuple(m) for m in makers if m)
            while len(makers) < 2:
                makers = makers + ((('ref', g.SCHOOL, 'r'),),)
            small = {'makers': makers, 'local': tuple(local)}
            try:
                (spec2, res2), = self._run_meetings([small])
            except fw.MachineryError:
                continue
            hit = [f for f in self._oracle_meet(spec2, res2) if f[1] == sig]
            if hit:
                self.violations[idx] = fw.Violation(hit[0][0] + ' (shrunk)', {'kind': 'meet', **small}, sig, None)

    # ---- oracle ---------------------------------------------------------------------------------------------
    @staticmethod
    def _cause_of(sort: str, ax, ay) -> typing.Optional[str]:
        """Known root cause explaining why two *different* ASTs may be confused (None: nothing known)."""
        if canon_literals(ax) == canon_literals(ay):
            return 'literal-hash-collision'
        if canon_tables(ax) == canon_tables(ay):
            return 'table-eq-ignores-name'
        if sort == 'feature' and ((ay[0] == 'alias' and ay[1] == ax) or (ax[0] == 'alias' and ax[1] == ay)):
            return 'operable-eq-ignores-alias'
        return None

    def _cause(self, pair: dict) -> typing.Optional[str]:
        return self._cause_of(pair['sort'], pair['x'], pair['y'])

    @staticmethod
    def _pickle_sig(ast, obs: dict) -> str:
        got = obs.get('pickle_got')
        if got is not None and got != ast and canon_literals(got) == canon_literals(ast):
            return 'literal-hash-collision'  # the unpickled copy reads the clauses of an equal-hash neighbour
        if 'mappingproxy' in (obs.get('pickle_msg') or ''):
            return 'pickle-after-use'
        if has_compound(ast):
            return 'compound-kind-pickle'
        return 'pickle'

    def _oracle(self, pair: dict, obs: dict) -> list:
        """[(what, signature)] — the property evaluated on the observations of the real code."""
        out = []
        same = pair['x'] == pair['y']
        sort = pair['sort']
        window = has_window(pair['x']) or has_window(pair['y'])

        def bad(what, sig):
            # a Window keeps the *generator* of its orderings (readable once, identity hash, not picklable) and
            # `RowNumber` has identity equality: one root cause for everything a rebuilt window gets wrong
            if window and sig.split(':')[0] in ('rebuilt', 'built-object-differs', 'item-access', 'pickle', 'parse-nondeterministic'):
                sig = 'window-identity'
            out.append((f'{what} [{pair["label"]}, {sort}]', sig))

        keys = ('eq', 'eq_rev', 'in_dict', 'in_set') + (('equal_bool',) if obs.get('equal_bool') is not None else ())
        if same:
            for key in keys:
                if obs[key] != 'true':
                    bad(f'the same structure built twice: {key} is {obs[key]}', f'rebuilt:{key}')
            if obs.get('ne') not in (None, 'false'):
                bad(f'the same structure built twice: != is {obs["ne"]}', 'rebuilt:ne')
            if obs['hash_eq'] is not True:
                bad('the same structure built twice hashes differently', 'rebuilt:hash')
        else:
            cause = self._cause(pair)
            for key in keys:
                if obs[key] == 'true':
                    sig = cause or f'distinct:{key}'
                    if cause == 'table-eq-ignores-name' and key not in ('eq', 'eq_rev', 'equal_bool'):
                        sig = f'table-confused:{key}'
                    if cause == 'operable-eq-ignores-alias' and key not in ('eq', 'eq_rev'):
                        sig = f'alias-confused:{key}'
                    bad(f'different structures: {key} is true', sig)
            if obs.get('ne') == 'false':
                bad('different structures: != is false', cause or 'distinct:ne')
        # what was built is what was asked for (element access goes through the cached source[name])
        for tag in ('x', 'y'):
            if obs[f'ast_{tag}'] is not True:
                got = obs.get(f'ast_{tag}_got')
                sig = 'literal-hash-collision' if got is not None and canon_literals(got) == canon_literals(pair[tag]) \
                    else 'built-object-differs'
                bad(f'the object built for {tag} is not the requested structure (cached item access returned a feature '
                    f'of another source)', sig)
        # pickling
        if obs['pickle'] != 'ok' or obs.get('pickle_eq') != 'true' or obs.get('pickle_hash') is not True or obs.get('pickle_in') != 'true':
            bad(f'pickle round trip: {obs["pickle"]}, == {obs.get("pickle_eq")}, hash equal {obs.get("pickle_hash")}',
                self._pickle_sig(pair['x'], obs))
        elif obs.get('pickle_used') not in (None, 'ok'):
            bad(f'pickle round trip after the statement was used (schema / features / parser): {obs["pickle_used"]} '
                f'{obs.get("pickle_msg", "")}', self._pickle_sig(pair['x'], obs))
        if sort == 'source':
            for tag in ('x', 'y'):
                items = obs.get(f'items_{tag}')
                if items:
                    other = pair['y' if tag == 'x' else 'x']
                    sig = 'literal-hash-collision' if canon_literals(other) == canon_literals(pair[tag]) and not same else 'item-access'
                    bad(f'{tag}[name] returned another feature for {items[:3]}', sig)
            sch = obs.get('schema')
            if isinstance(sch, dict):
                if sch['same'] and not (sch['eq'] == 'true' and sch['hash_eq'] and sch['in_dict'] == 'true'):
                    bad(f'equal schemas: == {sch["eq"]}, hash equal {sch["hash_eq"]}', 'schema:equal')
                if not sch['same'] and (sch['eq'] == 'true' or sch['in_dict'] == 'true'):
                    bad('different schemas compare equal', 'schema:distinct')
                if sch['pickle_eq'] != 'true' or not sch['pickle_hash']:
                    bad('schema does not survive pickling', 'compound-kind-pickle' if has_compound(pair['x']) else 'schema:pickle')
            elif isinstance(sch, str) and has_compound(pair['x']):
                bad(f'schema comparison / pickling {sch}', 'compound-kind-pickle')
            prs = obs.get('parse')
            if isinstance(prs, dict):
                cause = None if same else self._cause(pair)
                if not prs['parser']:
                    bad('parser output changes when the parser instance has parsed the other statement before', cause or 'parser-cache')
                if not prs['reader']:
                    bad('Reader._parse_statement returns the other statement\'s parse', cause or 'reader-cache')
                if same and prs['distinct']:
                    bad('the same statement parses differently', 'parse-nondeterministic')
            elif isinstance(prs, str) and prs.startswith('raises'):
                bad(f'parsing with shared caches {prs} although it works without', 'parser-cache-raises')
        return out

    def _oracle_family(self, fam: dict, obs: dict) -> list:
        """Every key of a dict of structurally distinct keys is found again through a rebuilt copy — itself, not a neighbour."""
        out = []
        keys, sort = fam['keys'], fam['sort']

        def bad(what, sig):
            out.append((f'{what} [{fam["label"]}, {sort}]', sig))

        def collide():
            for a in range(len(keys)):
                for b in range(a + 1, len(keys)):
                    c = self._cause_of(sort, keys[a], keys[b])
                    if c:
                        return c
            return None

        if obs.get('size') != len(keys) or obs.get('set_size', len(keys)) != len(keys):
            bad(f'{len(keys)} structurally different keys make a dict of {obs.get("size")} / a set of {obs.get("set_size")}',
                collide() or 'family:merged')
        for j, got in enumerate(obs.get('found', [])):
            if got == j:
                continue
            if got == 'none':
                bad(f'key {j} is not found again through a rebuilt copy', 'family:lost-key')
            elif isinstance(got, int):
                cause = self._cause_of(sort, keys[j], keys[got])
                sig = {'table-eq-ignores-name': 'table-confused:in_dict', 'operable-eq-ignores-alias': 'alias-confused:in_dict'}.get(cause, cause)
                bad(f'looking up key {j} returns the entry of key {got}', sig or 'family:confused')
            else:
                bad(f'looking up key {j} {got}', 'family:raises')
        for j, got in enumerate(obs.get('member', [])):
            if got != 'true':
                bad(f'key {j} is not a member of the set of all keys: {got}', 'family:lost-key')
        cache = obs.get('cache')
        if isinstance(cache, dict):
            for which, what in (('reader', 'one Reader instance (_parse_statement cache)'), ('parser', 'one parser instance')):
                if cache[which]:
                    j = cache[which][0]
                    bad(f'statement {j} of a family of {cache["parsed"]} statements parsed through {what} is answered with another '
                        f'statement\'s parse', collide() or f'{which}-cache')
        if obs.get('items'):
            j, names = obs['items'][0]
            bad(f'key {j}: source[name] returns another feature for {names} once the whole family exists', collide() or 'item-access')
        return out

    # ---- correspondence ---------------------------------------------------------------------------------------
    def _inthash(self):
        r = self.rng
        ns = [0, 1, -1, -2, M61, -M61, M61 + 1, -(M61 + 1), 2 ** 61, -(2 ** 61), 2 ** 62, 2 ** 63, -(2 ** 63), 2 ** 64, 10 ** 30]
        while len(ns) < 10000:
            bits = r.choice((8, 16, 31, 60, 61, 62, 64, 100, 200))
            n = r.getrandbits(bits)
            ns.append(-n if r.random() < 0.5 else n)
            if r.random() < 0.1:
                ns.append(r.randint(-3, 3) + r.randint(-4, 4) * M61)
        answers = self.model([sexp.dumps(('inthash', n)) for n in ns])
        for n, a in zip(ns, answers):
            self.case(('inthash', n), 'inthash', nontrivial=abs(n) > 1)
            if int(a) != hash(n):
                self.diverge('pyIntHash vs hash(n)', {'n': n}, hash(n), a)

    def _observe_all(self, pairs: list, chunk: int = 40) -> list:
        chunk = max(1, min(chunk, -(-len(pairs) // 16))) if pairs else 1
        chunks = [pairs[i:i + chunk] for i in range(0, len(pairs), chunk)]
        procs = min(16, os.cpu_count() or 2, max(1, len(chunks)))
        ctx = multiprocessing.get_context('fork')
        with ctx.Pool(procs, maxtasksperchild=20) as pool:
            results = pool.map(_observe_chunk, chunks, chunksize=1)
        return [o for chunk in results for o in chunk]

    @staticmethod
    def _witness(case: dict) -> dict:
        if 'keys' in case:
            return {'kind': 'family', 'sort': case['sort'], 'label': case['label'], 'keys': case['keys']}
        return {'kind': 'pair', **_jsonable(case)}

    def _driver_sanity(self):
        """The driver tells the colliding literals apart although their hashes agree (a stale / wrong driver binary would
        silently agree with a regressed implementation otherwise)."""
        got = self.model([sexp.dumps(('eqf', ('lit', ('int', -1)), ('lit', ('int', -2)))),
                          sexp.dumps(('eqf', ('lit', ('int', 7)), ('lit', ('int', 7)))),
                          sexp.dumps(('dictf', (('lit', ('int', -1)), ('lit', ('int', -2))), ('lit', ('int', -2)))),
                          sexp.dumps(('eqf', ('lit', ('int', 7)), ('nonsense',)))])
        want = ['(eq false true true)', '(eq true true true)', '(hit 1)', 'bad-op']
        if got != want:
            raise fw.MachineryError(f'model driver self-test failed: {got} != {want}')
        self.notes.append('driver self-test: colliding literals told apart, malformed line rejected')

    def correspondence(self):
        import time

        t0 = time.time()
        self._driver_sanity()
        self._inthash()
        pairs = self._pairs()
        fams = self._families()
        observations = self._observe_all(pairs + fams)
        fam_obs = observations[len(pairs):]
        observations = observations[:len(pairs)]
        # ---- pairs
        lines, index = [], []
        for i, (pair, obs) in enumerate(zip(pairs, observations)):
            if not obs['built'] or has_float_collision(pair['x'], pair['y']):
                continue
            op = SORT_OP[pair['sort']]
            lines.append(sexp.dumps(g.with_let((op, g.short(pair['x']), g.short(pair['y'])))))
            lines.append(sexp.dumps(g.with_let((op, g.short(pair['y']), g.short(pair['x'])))))
            index.append(i)
        answers = self.model(lines)
        modelled = {i: (sexp.loads(answers[2 * j]), sexp.loads(answers[2 * j + 1])) for j, i in enumerate(index)}
        first: dict = {}  # signature -> first violating case (shrunk below)
        for i, (pair, obs) in enumerate(zip(pairs, observations)):
            nodes = sum(1 for _ in _nodes(pair['x']))
            key = (pair['sort'], pair['x'], pair['y'])
            if not obs['built']:
                self.case(key, f'{pair["sort"]} {pair["label"].split(":")[0]} not-built:{obs["error"]}', nontrivial=False)
                continue
            self.case(key, f'{pair["sort"]} {pair["label"]}', nontrivial=nodes >= 3,
                      sample={'label': pair['label'], 'x': sexp.dumps(g.short(pair['x']))[:200],
                              'y': sexp.dumps(g.short(pair['y']))[:200], 'eq': obs['eq'], 'hash_eq': obs['hash_eq']}
                      if i % 97 == 0 else None)
            if i in modelled:
                fwd, rev = modelled[i]
                want = lambda o: 'raises' if o.startswith('raises') else o  # noqa: E731
                impl = [want(obs['eq']), want(obs['eq_rev']), 'true' if obs['hash_eq'] is True else 'false',
                        'true' if obs['pickle'] == 'ok' else 'false']
                if isinstance(fwd, list) and isinstance(rev, list) and fwd[0] == 'eq':
                    mod = [fwd[1], rev[1], fwd[2], fwd[3]]
                    if obs.get('equal_bool') is not None:  # `Equal.__bool__` is the same function of the two operands
                        impl.append(want(obs['equal_bool']))
                        mod.append(fwd[1])
                else:
                    mod = [fwd, rev]
                if impl != mod:
                    self.diverge('== / hash / pickle of a pair', {'pair': _jsonable(pair)}, impl, mod)
            for what, sig in self._oracle(pair, obs):
                detail = {k: v for k, v in obs.items() if not k.endswith('_got')}
                if sig not in first:
                    first[sig] = len(self.violations)
                self.violate(what, self._witness(pair), sig, detail=detail)
        # ---- families
        lines, index = [], []
        fams = [dict(fam, keys=tuple(fam['keys'][u] for u in obs['used'])) if obs['built'] else fam for fam, obs in zip(fams, fam_obs)]
        for i, (fam, obs) in enumerate(zip(fams, fam_obs)):
            if not obs['built']:
                continue
            op = 'dict' + SORT_OP[fam['sort']][-1]
            short = tuple(g.short(k) for k in fam['keys'])
            for k in short:
                lines.append(sexp.dumps(g.with_let((op, short, k))))
            index.append(i)
        answers = iter(self.model(lines))
        for i, (fam, obs) in enumerate(zip(fams, fam_obs)):
            key = ('family', fam['sort'], fam['keys'])
            if not obs['built']:
                self.case(key, f'{fam["sort"]} family not-built:{obs["error"]}', nontrivial=False)
                continue
            self.case(key, f'{fam["sort"]} {fam["label"]} of {len(fam["keys"])}', nontrivial=True)
            mod = []
            for _ in fam['keys']:
                a = sexp.loads(next(answers))
                mod.append(int(a[1]) if isinstance(a, list) and a[0] == 'hit' else a)
            impl = ['raises' if isinstance(f, str) and f.startswith('raises') else f for f in obs.get('found', [])]
            if impl != mod:
                self.diverge('dict lookup over a family of keys', {'family': self._witness(fam)}, impl, mod)
            for what, sig in self._oracle_family(fam, obs):
                if sig not in first:
                    first[sig] = len(self.violations)
                self.violate(what, self._witness(fam), sig, detail=obs)
        self._shrink_first(first)
        t1 = time.time()
        hier = self._hierarchies()
        t2 = time.time()
        self._fresh(hier)
        t3 = time.time()
        self._meetings()
        self.notes.append(f'wall: pairs / families {t1 - t0:.0f}s, class hierarchies {t2 - t1:.0f}s, fresh interpreters {t3 - t2:.0f}s, '
                          f'meetings {time.time() - t3:.0f}s')

    # ---- shrinking / search ---------------------------------------------------------------------------------------
    @staticmethod
    def _subpairs(sort: str, x, y):
        """Aligned sub-terms of a pair that still differ (or, for an identical pair, every sub-term), smallest first."""
        out = []

        def sort_of(node):
            return 'source' if node[0] in ('table', 'ref', 'join', 'set', 'query') else None if node[0] in ('ord', 'rows') else 'feature'

        def walk(a, b):
            if not (isinstance(a, tuple) and isinstance(b, tuple) and a and b and isinstance(a[0], str) and isinstance(b[0], str)):
                if isinstance(a, tuple) and isinstance(b, tuple) and len(a) == len(b):
                    for u, v in zip(a, b):
                        walk(u, v)
                return
            if a[0] in ('table', 'ref', 'join', 'set', 'query', 'lit', 'elem', 'alias', 'expr', 'cast', 'window') and sort_of(a) == sort_of(b):
                if (a != b) == (x != y):
                    out.append((sort_of(a), a, b))
            if len(a) == len(b) and a[0] == b[0] and a[0] not in ('table', 'lit'):
                for u, v in zip(a[1:], b[1:]):
                    walk(u, v)

        walk(x, y)
        out = [(s, a, b) for s, a, b in out if (a, b) != (x, y) and s is not None]
        out.sort(key=lambda c: sum(1 for _ in _nodes(c[1])))
        return out

    def _shrink_first(self, first: dict) -> None:
        """Replace the first reported witness of every *unknown* signature by the smallest aligned sub-pair that still
        violates with the same signature (the known root causes already come with minimal corpus witnesses)."""
        todo = [(sig, idx) for sig, idx in first.items() if self.violations[idx].witness.get('kind') == 'pair'
                and sum(1 for _ in _nodes(tuplify(self.violations[idx].witness['x']))) > 6][:6]
        if not todo:
            return
        cands, owner = [], []
        for sig, idx in todo:
            w = self.violations[idx].witness
            for s, a, b in self._subpairs(w['sort'], tuplify(w['x']), tuplify(w['y']))[:10]:
                cands.append({'sort': s, 'label': w['label'] + ' (shrunk)', 'x': a, 'y': b})
                owner.append((sig, idx))
        done = set()
        for cand, obs, (sig, idx) in zip(cands, self._observe_all(cands) if cands else [], owner):
            if sig in done or not obs['built']:
                continue
            for what, s2 in self._oracle(cand, obs):
                if s2 == sig:
                    self.violations[idx] = fw.Violation(what, self._witness(cand), sig, {k: v for k, v in obs.items() if not k.endswith('_got')})
                    done.add(sig)
                    break

    def search(self, reason):
        # widen around the diverging cases: every one-leaf mutation of both sides, oracle on the real code
        seeds = [d.case['pair'] for d in self.divergences if isinstance(d.case, dict) and 'pair' in d.case][:40]
        for d in self.divergences:
            if isinstance(d.case, dict) and 'family' in d.case and len(seeds) < 60:
                keys = [tuplify(k) for k in d.case['family']['keys']]
                for a in keys[1:3]:
                    seeds.append({'sort': d.case['family']['sort'], 'label': 'family-member', 'x': keys[0], 'y': a})
        pairs = []
        for s in seeds:
            s = {'sort': s['sort'], 'label': s['label'], 'x': tuplify(s['x']), 'y': tuplify(s['y'])}
            pairs.append(s)
            if s['sort'] != 'kind':
                for side in ('x', 'y'):
                    for label, mut in g.leaf_mutations(s[side], self.rng, limit=6):
                        pairs.append({'sort': s['sort'], 'label': 'mutation:' + label, 'x': s[side], 'y': mut})
                        pairs.append({'sort': s['sort'], 'label': 'identical', 'x': mut, 'y': mut})
        first: dict = {}
        for pair, obs in zip(pairs, self._observe_all(pairs) if pairs else []):
            if obs['built']:
                for what, sig in self._oracle(pair, obs):
                    if sig not in first and sig not in {v.signature for v in self.violations}:
                        first[sig] = len(self.violations)
                    self.violate(what, self._witness(pair), sig)
        self._shrink_first(first)
        self.notes.append(f'failing-input search ({reason}): {len(pairs)} pairs around {len(seeds)} diverging cases')
        # hierarchies: the diverging programs, their sub-programs and one-leaf variants, oracle on the real code
        hseeds = [d.case['hier'] for d in self.divergences if isinstance(d.case, dict) and 'hier' in d.case][:20]
        cases = []
        for h in hseeds:
            prog = tuplify(h['prog'])
            cases.append({'label': 'hier:search', 'prog': prog})
            cases += [{'label': 'hier:search', 'prog': p, 'target': t} for p, t in _smaller_programs(prog, len(prog) - 1)[:12]]
            cases += [{'label': 'hier:search:' + label, 'prog': m} for label, m in cs.mutations(prog, self.rng, limit=6)]
        hfirst: dict = {}
        known = {v.signature for v in self.violations}
        for case, obs in zip(cases, self._observe_all(cases) if cases else []):
            for what, sig, i in self._oracle_hier(case, obs):
                if sig not in hfirst and sig not in known:
                    hfirst[sig] = (len(self.violations), case, i)
                self.violate(what, {'kind': 'hier', 'label': case['label'], 'prog': case['prog'], 'cls': i}, sig)
        self._shrink_hier(hfirst)
        if cases:
            self.notes.append(f'failing-input search ({reason}): {len(cases)} class hierarchies around {len(hseeds)} diverging ones')

    def _replay_observe(self, case: dict) -> dict:
        """Observation of a witness in a fresh worker process; the witnesses of all listed findings are observed in
        one go the first time one is asked for."""
        if not hasattr(self, '_replay_obs'):
            self._replay_obs = {}
            try:
                entries = fw._load_findings(self.ID)  # pylint: disable=protected-access
            except Exception:  # pylint: disable=broad-except
                entries = []
            cases = [c for c in (self._replay_case(e.get('witness') or {}) for e in entries) if c is not None]
            if cases:
                for c, o in zip(cases, self._observe_all(cases, chunk=1)):
                    self._replay_obs[repr(sorted(c.items(), key=lambda kv: kv[0]))] = o
        key = repr(sorted(case.items(), key=lambda kv: kv[0]))
        if key not in self._replay_obs:
            self._replay_obs[key] = self._observe_all([case])[0]
        return self._replay_obs[key]

    @staticmethod
    def _replay_case(w: dict) -> typing.Optional[dict]:
        if w.get('kind') == 'family':
            return {'sort': w['sort'], 'label': w.get('label', 'replay'), 'keys': tuple(tuplify(k) for k in w['keys'])}
        if w.get('kind') == 'pair':
            return {'sort': w['sort'], 'label': w.get('label', 'replay'), 'x': tuplify(w['x']), 'y': tuplify(w['y'])}
        if w.get('kind') == 'hier':
            case = {'label': w.get('label', 'replay'), 'prog': tuplify(w['prog'])}
            if w.get('cls') is not None:
                case['target'] = w['cls']
            return case
        if w.get('kind') == 'fresh' and w.get('shipped'):
            sh = w['shipped']
            return {'label': sh.get('label', 'replay'), 'prog': tuplify(sh['prog']), 'target': sh['target']}
        return None

    def replay_finding(self, entry):
        w = entry['witness']
        wanted = entry.get('signature')
        case = self._replay_case(w)
        if w.get('kind') == 'family':
            obs = self._replay_observe(case)
            if not obs['built']:
                return fw.Violation(f'witness does not build: {obs["error"]}', w, 'witness-not-built')
            fam = dict(case, keys=tuple(case['keys'][u] for u in obs['used']))
            found = self._oracle_family(fam, obs)
        elif w.get('kind') == 'pair':
            obs = self._replay_observe(case)  # in a fresh process: no leftovers of the run in the caches
            if not obs['built']:
                return fw.Violation(f'witness does not build: {obs["error"]}', w, 'witness-not-built')
            found = self._oracle(case, obs)
        elif w.get('kind') == 'hier':
            obs = self._replay_observe(case)
            found = [(what, sig) for what, sig, _ in self._oracle_hier(case, obs)]
        elif w.get('kind') == 'meet':
            sc = {'makers': tuplify(w['makers']), 'local': tuplify(w['local'])}
            (spec, res), = self._run_meetings([sc])
            found = [(what, sig) for what, sig, _ in self._oracle_meet(spec, res)]
        elif w.get('kind') == 'fresh':
            job = {'ops': tuplify(w['job']['ops']), 'blobs': ()}
            if case is not None:
                obs = self._replay_observe(case)
                rec = obs['classes'][case['target']]
                if rec is None or not rec.get('blobs'):
                    return fw.Violation('witness does not build', w, 'witness-not-built')
                job['blobs'] = ({'prog': case['prog'], 'target': case['target'], 'objs': rec['blobs'], 'label': case['label']},)
            res = cs.run_fresh([job])[0]
            found = [(what, sig) for what, sig, _ in self._oracle_fresh(job, res)]
        else:
            return None
        for what, sig in found:
            if wanted is None or sig == wanted:
                return fw.Violation(what, w, sig)
        return None


def copy_ok_but_access(c: dict) -> bool:
    """the copy is the same object in every respect except attribute / item access"""
    return bool(c.get('access')) and cs.copy_ok(dict(c, access=None))


def _brief(c) -> str:
    if not isinstance(c, dict):
        return str(c)
    return ', '.join(f'{k} {v}' for k, v in c.items() if k != 'got' and not (k == 'access' and not v))[:300] + \
        (f'; reads {str(c["got"])[:200]}' if 'got' in c else '')


def _listify(x):
    return [_listify(i) for i in x] if isinstance(x, (list, tuple)) else x


def _jsonable_hier(case: dict) -> dict:
    return {'label': case['label'], 'prog': case['prog']}


def _prog_size(prog) -> int:
    return sum(3 + 2 * len(ns) + len(bases) for _, _, bases, ns in prog)


def _restrict(prog, keep: list):
    """the sub-program of the classes `keep` (closed under bases), re-indexed"""
    pos = {old: new for new, old in enumerate(keep)}
    return tuple((via, name, tuple(pos[b] for b in bases), ns) for via, name, bases, ns in (prog[k] for k in keep))


def _smaller_programs(prog, target: int) -> list:
    """[(program, target)] strictly smaller than `prog`, the target class kept"""
    out = []
    need = set()

    def close(i):
        if i not in need:
            need.add(i)
            for b in prog[i][2]:
                close(b)

    close(target)
    if len(need) < len(prog):
        keep = sorted(need)
        out.append((_restrict(prog, keep), keep.index(target)))
    for i in range(len(prog)):
        if i != target and not any(i in bases for _, _, bases, _ in prog):
            keep = [k for k in range(len(prog)) if k != i]
            out.append((_restrict(prog, keep), keep.index(target)))
        via, name, bases, ns = prog[i]
        for j in range(len(ns)):
            out.append((prog[:i] + ((via, name, bases, ns[:j] + ns[j + 1:]),) + prog[i + 1:], target))
        for b in range(len(bases)):
            out.append((prog[:i] + ((via, name, bases[:b] + bases[b + 1:], ns),) + prog[i + 1:], target))
    return out[:48]


def _nodes(ast):
    if isinstance(ast, tuple):
        yield ast
        for a in ast:
            yield from _nodes(a)


def _jsonable(pair: dict) -> dict:
    return {'sort': pair['sort'], 'label': pair['label'], 'x': pair['x'], 'y': pair['y']}


if __name__ == '__main__':
    raise SystemExit(fw.run(C08))
