"""C11 — graph construction API (flow.Worker / Future / Segment / Trunk / Composition) vs lean/ForML/Model/Graph.lean.

A *case* is a sequence of construction calls over a small universe of nodes.  Every call is executed on the
real forml objects; after every call the harness dumps every node's output subscriptions, every future's
registrations and every worker's input/trained/derived/group, and the exception class/message.  The same
op list goes to the Lean model (`step`), whose state dump is compared textually, call by call.

The oracle does not use the model: it evaluates the five invariants of the statement, atomicity of failing
calls, the error class, the cycle clause, the placeholder clauses (segment and composition) and the disjointness of
a copy on the dumped real graph, and (for the transparency stream) compares the worker-to-worker connections with
the path closure of the requested wiring.

Ops (JSON lists; a *seg* is [h, t|None] = flow.Segment(h, t)):
  ['mkworker', stateful, szin, szout] ['mkfuture', szin, szout] ['fork', n]
  ['sub', s, j, p, i]  = s[j].subscribe(p[i])      ['train', n, tp, ti, lp, li] = n.train(tp[ti], lp[li])
  ['pub', p, i, s, k]  = p[i].publish(s, Apply(k))  (the publishing side of the port API: a Future subscriber
                         registers the publisher under an Apply-typed index)
  ['pubp', p, i, s, c] = p[i].publish(s, port)      the raw port API for every port kind: c = 0 Train(), 1 Label(),
                         k+2 Apply(k) (Worker.train always makes both of Train and Label; this makes them one by one,
                         in any order, on workers and through Futures)
  ['segment', h, t|None] = flow.Segment(h, t)      ['validate', h, t|None] = Segment(h, t).accept(Validator())
  ['copy', h, t|None] = Segment(h, t).copy()       (new nodes are numbered in the order of their originals)
  ['extend', h, t|None, seg|None, x|None] = Segment(h, t).extend(Segment(*seg), x)
  ['trunk', seg|None, seg|None, seg|None] = flow.Trunk(apply, train, label)   (a missing mode becomes a new Future)
  ['textend', [seg, seg, seg], seg|None, seg|None, seg|None] = flow.Trunk(*base).extend(apply, train, label)
  ['compose', [[seg, seg, seg], ...]] = flow.Composition(op1, op2, ...) where op_k.compose() returns flow.Trunk(*k-th)
  legacy spellings (witnesses of earlier rounds, real code only): ['extend', h, t, r]  ['compose', ah, at, th, tt]
"""
from __future__ import annotations

import collections
import itertools
import multiprocessing
import os
import random
import sys
import typing

from core import framework as fw
from core import sexp

MAXN = 6  # nodes created by the plain creation calls (copies / default trunk futures may take it to MAXTOTAL)
MAXTOTAL = 14
KNOWN_SIGS: set = set()  # signatures of the listed findings (set by the check before any worker is forked)
T, L = 0, 1  # port codes: Train 0, Label 1, Apply(i) i+2

MESSAGES = [
    ('Invalid node shape', 'shape'), ('Double subscription', 'double'), ('Apply/Train collision', 'collision'),
    ('Publishing node trained', 'publishing-trained'), ('Future node subscribing', 'future-subscribing'),
    ('Self subscription', 'self'), ('Trained node publishing', 'trained-publishing'),
    ('Stateless node training', 'stateless'), ('Fork train collision', 'fork-train'), ('Cyclic flow', 'cyclic'),
    ('Ambiguous tail', 'ambiguous'), ('Disconnected tail', 'disconnected'), ('Simple head required', 'simple-head'),
    ('Simple tail required', 'simple-tail'), ('Future nodes in segment', 'futures'),
]
KIND_CLASS = {'shape': 'ValueError', 'recursion': 'RecursionError', 'unpack': 'ValueError', 'no-path': 'KeyError'}
TRACING = ('cyclic', 'ambiguous', 'disconnected', 'simple-head', 'simple-tail', 'class:Cyclic')  # refusals of a tracing


# =============================================================================================
# op plumbing
# =============================================================================================
class Drop(Exception):
    """raised by a renumbering function for a node that no longer exists"""


def norm(op):
    """legacy spellings -> current ones"""
    if op[0] == 'extend' and len(op) == 4:
        return ['extend', op[1], op[2], [op[3], None], None]
    return op


def walk(op, f):
    """The op with every node index x replaced by f(x)."""
    k = op[0]

    def opt(x):
        return None if x is None else f(x)

    def seg(s):
        return None if s is None else [f(s[0]), opt(s[1])]

    if k in ('mkworker', 'mkfuture'):
        return list(op)
    if k == 'fork':
        return ['fork', f(op[1])]
    if k in ('sub', 'pub', 'pubp'):
        return [k, f(op[1]), op[2], f(op[3]), op[4]]
    if k == 'train':
        return ['train', f(op[1]), f(op[2]), op[3], f(op[4]), op[5]]
    if k in ('segment', 'validate', 'copy'):
        return [k, f(op[1]), opt(op[2])]
    if k == 'extend':
        op = norm(op)
        return ['extend', f(op[1]), opt(op[2]), seg(op[3]), opt(op[4])]
    if k == 'trunk':
        return ['trunk', seg(op[1]), seg(op[2]), seg(op[3])]
    if k == 'textend':
        return ['textend', [seg(s) for s in op[1]], seg(op[2]), seg(op[3]), seg(op[4])]
    if k == 'compose':
        if len(op) == 5:
            return ['compose', f(op[1]), opt(op[2]), f(op[3]), opt(op[4])]
        return ['compose', [[seg(s) for s in t] for t in op[1]]]
    raise fw.MachineryError(f'unknown op {op}')


def refs(op) -> list:
    out = []

    def f(x):
        out.append(x)
        return x

    walk(op, f)
    return out


def op_sexp(op):
    """the line-protocol form of an op"""
    if op[0] == 'compose':
        return ['compose'] + list(op[1])
    return op


def modelled(op) -> bool:
    return not (op[0] == 'compose' and len(op) == 5)


# =============================================================================================
# implementation adapter (runs in the parent or in pool workers)
# =============================================================================================
_ENV: dict = {}


def _env():
    if not _ENV:
        repo = os.environ.get('FORML_REPO', '/repo')
        if repo not in sys.path:
            sys.path.insert(0, repo)
        import logging
        import warnings
        warnings.simplefilter('ignore')
        logging.disable(logging.CRITICAL)
        sys.unraisablehook = lambda *a: None  # Subscription.__del__ of a node unknown to _PORTS raises AttributeError
        from forml import flow
        from forml.flow._graph import atomic, port, span
        from forml.flow._suite import assembly, clean

        class Stateless(flow.Actor):
            def apply(self, *features):
                return features

        class Stateful(flow.Actor):
            def apply(self, *features):
                return features

            def train(self, features, labels):
                pass

            def get_state(self):
                return b''

            def set_state(self, state):
                pass

        _ENV.update(flow=flow, atomic=atomic, port=port, span=span, clean=clean, assembly=assembly,
                    stateless=Stateless.builder(), stateful=Stateful.builder(),
                    topo=flow.TopologyError)
    return _ENV


def _pcode(p, env) -> int:
    if isinstance(p, env['port'].Train):
        return T
    if isinstance(p, env['port'].Label):
        return L
    return int(p) + 2


class Real:
    """One sequence on the real objects."""

    def __init__(self):
        self.env = _env()
        self.nodes: list = []
        self.ports = self.env['port'].Subscription._PORTS  # pylint: disable=protected-access
        self.saved = dict(self.ports)
        self.ports.clear()
        self.approx = False  # the numbering of copied nodes could not be taken from Traversal.copy

    def close(self):
        # break the reference cycles (worker <-> group, node -> subscription -> node) so that every Subscription
        # dies now (its __del__ touches _PORTS) and not at some later garbage collection
        for n in self.nodes:
            for p in n._output:  # pylint: disable=protected-access
                p._subscriptions.clear()  # pylint: disable=protected-access
            if hasattr(n, '_group'):
                n._group.clear()  # pylint: disable=protected-access
            if hasattr(n, '_input'):
                n._input.clear()  # pylint: disable=protected-access
        self.nodes.clear()
        self.ports.clear()
        self.ports.update(self.saved)

    def idx(self, node) -> int:
        for i, n in enumerate(self.nodes):
            if n is node:
                return i
        return -1

    def dump(self):
        """[outs, regs, workers] of the nodes the harness holds (what a refused copy left behind in the worker
        groups is counted by `orphans`, not dumped)."""
        env = self.env
        fut = env['atomic'].Future
        outs = [[[[self.idx(s.node), _pcode(s.port, env)] for s in p] for p in n.output] for n in self.nodes]
        regs = [[i, int(index), self.idx(p._node), p._index]  # pylint: disable=protected-access
                for i, n in enumerate(self.nodes) if isinstance(n, fut)
                for p, index in n._input.items()]  # pylint: disable=protected-access
        workers = [[i, bool(n.trained), bool(n.derived), sorted(j for j in (self.idx(m) for m in n.group) if j >= 0),
                    sorted(_pcode(p, env) for p in n.input)]
                   for i, n in enumerate(self.nodes) if not isinstance(n, fut)]
        return [outs, regs, workers]

    def orphans(self) -> int:
        """members of the worker groups that no call ever handed out"""
        fut = self.env['atomic'].Future
        seen, count = set(), 0
        for n in self.nodes:
            if isinstance(n, fut) or id(n._group) in seen:  # pylint: disable=protected-access
                continue
            seen.add(id(n._group))  # pylint: disable=protected-access
            count += sum(1 for m in n.group if self.idx(m) < 0)
        return count

    def future_in_ports(self) -> bool:
        """does a Future have an entry in the `_PORTS` registry?  (It compares equal to the worker it stands for, so
        its entry captures that worker's ports while they look alike: finding C11-F5.  The model keys the registry by
        identity, a sequence is compared up to the call that makes such an entry.)"""
        fut = self.env['atomic'].Future
        return any(isinstance(k, fut) for k in list(self.ports))

    # ---- helpers -------------------------------------------------------------------------------
    def seg(self, s):
        flow = self.env['flow']
        return flow.Segment(self.nodes[s[0]], None if s[1] is None else self.nodes[s[1]])

    def pair(self, segment):
        return [self.idx(segment._head), self.idx(segment._tail)]  # pylint: disable=protected-access

    def adopt(self, *found):
        for n in found:
            if self.idx(n) < 0:
                self.nodes.append(n)

    def _copy(self, segment):  # pylint: disable=too-many-locals
        """Segment.copy(); the copies are numbered in the order of their originals (taken from the mapping returned
        by Traversal.copy; should that function no longer be used: breadth first from the new head)."""
        span = self.env['span']
        orig = span.Traversal.copy
        box = []

        def spy(trav, tail):
            mapping = orig(trav, tail)
            box.append(mapping)
            return mapping

        span.Traversal.copy = spy
        try:
            new = segment.copy()
        finally:
            span.Traversal.copy = orig
        if box and isinstance(box[-1], typing.Mapping):
            for _, c in sorted(((self.idx(o), c) for o, c in box[-1].items()), key=lambda t: t[0]):
                self.adopt(c)
        self._adopt_reachable(new._head)  # pylint: disable=protected-access
        return new

    def _adopt_reachable(self, head):
        todo = [head]
        while todo:
            n = todo.pop(0)
            if self.idx(n) < 0:
                self.approx = True
                self.nodes.append(n)
            for p in n.output:
                for s in p:
                    if self.idx(s.node) < 0 and all(s.node is not t for t in todo):
                        todo.append(s.node)

    def call(self, op):
        """Execute one op; returns the result record ['ok'] | ['node', i] | ['segs', [h, t], ...] | ['err', kind]
        and the exception class name."""
        env = self.env
        flow, nodes = env['flow'], self.nodes
        op = norm(op)
        if any(not isinstance(x, int) or x < 0 or x >= len(nodes) for x in refs(op)):
            return ['err', 'no-node'], 'NoNode'
        try:
            k = op[0]
            if k == 'mkworker':
                nodes.append(flow.Worker(env['stateful'] if op[1] else env['stateless'], op[2], op[3]))
                return ['node', len(nodes) - 1], None
            if k == 'mkfuture':
                nodes.append(flow.Future(op[1], op[2]))
                return ['node', len(nodes) - 1], None
            if k == 'fork':
                nodes.append(nodes[op[1]].fork())
                return ['node', len(nodes) - 1], None
            if k == 'sub':
                nodes[op[1]][op[2]].subscribe(nodes[op[3]][op[4]])
                return ['ok'], None
            if k == 'pub':
                nodes[op[1]][op[2]].publish(nodes[op[3]], env['port'].Apply(op[4]))
                return ['ok'], None
            if k == 'pubp':
                prt = env['port'].Train() if op[4] == T else env['port'].Label() if op[4] == L else env['port'].Apply(op[4] - 2)
                nodes[op[1]][op[2]].publish(nodes[op[3]], prt)
                return ['ok'], None
            if k == 'train':
                nodes[op[1]].train(nodes[op[2]][op[3]], nodes[op[4]][op[5]])
                return ['ok'], None
            if k in ('segment', 'validate'):
                seg = self.seg(op[1:3])
                if k == 'validate':
                    seg.accept(env['clean'].Validator())
                return ['node', self.idx(seg._tail)], None  # pylint: disable=protected-access
            if k == 'copy':
                new = self._copy(self.seg(op[1:3]))
                return ['segs', self.pair(new)], None
            if k == 'extend':
                seg = self.seg(op[1:3])
                right = None if op[3] is None else self.seg(op[3]) if op[3][1] is not None else nodes[op[3][0]]
                new = seg.extend(right, None if op[4] is None else nodes[op[4]])
                return ['node', self.idx(new._tail)], None  # pylint: disable=protected-access
            if k == 'trunk':
                segs = [None if s is None else self.seg(s) for s in op[1:4]]
                trunk = flow.Trunk(*segs)
                self.adopt(*(s._head for s in trunk))  # pylint: disable=protected-access
                return ['segs'] + [self.pair(s) for s in trunk], None
            if k == 'textend':
                base = flow.Trunk(*[self.seg(s) for s in op[1]])
                ext = [None if s is None else self.seg(s) for s in op[2:5]]
                trunk = base.extend(*ext)
                return ['segs'] + [self.pair(s) for s in trunk], None
            if k == 'compose':
                real = self
                if len(op) == 5:
                    specs = [[[op[1], op[2]], [op[3], op[4]], None]]
                else:
                    specs = op[1]

                def operator(spec):
                    class Source(flow.Operator):
                        def compose(self, scope):  # pylint: disable=unused-argument
                            return flow.Trunk(*[None if s is None else real.seg(s) for s in spec])

                    return Source()

                comp = env['assembly'].Composition(*[operator(s) for s in specs])
                return ['segs', self.pair(comp.apply), self.pair(comp.train)], None
            raise fw.MachineryError(f'unknown op {op}')
        except fw.MachineryError:
            raise
        except Exception as e:  # pylint: disable=broad-except
            msg = str(e)
            cls = type(e)
            kind = next((kd for prefix, kd in MESSAGES if msg.startswith(prefix)), None)
            if kind is None:
                kind = 'recursion' if cls is RecursionError else f'class:{cls.__name__}'
            topo = issubclass(cls, env['topo'])
            name = 'TopologyError' if topo else cls.__name__
            del e
            return ['err', kind], name


# =============================================================================================
# oracle (spec-shaped, on the dumped real graph only)
# =============================================================================================
def _is_worker(dump, n) -> bool:
    return any(w[0] == n for w in dump[2])


def _edges(dump):
    """[(pub, out, sub, code)] of the dumped graph."""
    return [(n, i, s[0], s[1]) for n, outs in enumerate(dump[0]) for i, p in enumerate(outs) for s in p]


def invariants(dump) -> list[tuple[str, str]]:
    """The five invariants of the statement; returns [(signature, what)]."""
    bad = []
    edges = _edges(dump)
    workers = {w[0]: w for w in dump[2]}
    # I1 every input port has at most one (worker) publisher
    pubs: dict = {}
    for n, i, s, c in edges:
        if n in workers:
            pubs.setdefault((s, c), set()).add((n, i))
    shared = collections.Counter((r[0], r[1]) for r in dump[1])
    for (s, c), ps in pubs.items():
        if len(ps) > 1:
            # root cause D12: one placeholder input port with several registered publishers (each of them is
            # connected to every subscriber of that port); anything else is a different defect
            sig = 'I1-two-publishers-shared-future-port' if any(v > 1 for v in shared.values()) else 'I1-two-publishers'
            bad.append((sig, f'input port {c} of node {s} has {len(ps)} publishers {sorted(ps)}'))
            break
    # I2 no node feeds itself
    for n, i, s, c in edges:
        if n == s:
            bad.append(('I2-self-loop', f'node {n} feeds itself'))
            break
    # I3 apply xor train (by topology and by Worker.input)
    for w in workers.values():
        codes = {c for _, _, s, c in edges if s == w[0]} | set(w[4])
        if any(c >= 2 for c in codes) and any(c < 2 for c in codes):
            bad.append(('I3-apply-and-train', f'worker {w[0]} is subscribed on ports {sorted(codes)}'))
            break
    # (I3 rests on it) Worker.input lists exactly the ports that have a publisher
    for w in workers.values():
        have = {c for _, _, s, c in edges if s == w[0]}
        if have != set(w[4]):
            bad.append(('input-registry', f'worker {w[0]}: Worker.input = {sorted(w[4])}, ports with a publisher = {sorted(have)}'))
            break
    # I4 at most one trained member per group (by topology and by Worker.trained)
    trained = {w[0] for w in workers.values() if w[1]} | {s for _, _, s, c in edges if c < 2}
    for w in workers.values():
        members = [m for m in w[3] if m in trained]
        if len(members) > 1:
            bad.append(('I4-group-trained-twice', f'group {w[3]} has trained members {members}'))
            break
    # I5 trained workers publish nothing
    for n in sorted(trained):
        if any(p for p in dump[0][n]):
            bad.append(('I5-trained-publishes', f'trained worker {n} publishes'))
            break
    return bad


def _succ(dump, n, trained):
    """mapper subscribers of n (trained workers are not part of the apply flow)."""
    return {s for p in dump[0][n] for s, _ in p if s not in trained}


def cycle_from(dump, head) -> bool:
    """Is a subscription cycle reachable from head (through non-trained subscribers)?"""
    trained = {w[0] for w in dump[2] if w[1]}
    colour: dict = {}

    def dfs(n):
        colour[n] = 1
        for m in _succ(dump, n, trained):
            if colour.get(m) == 1 or (m not in colour and dfs(m)):
                return True
        colour[n] = 2
        return False

    return dfs(head)


def reachable(dump, head) -> set:
    trained = {w[0] for w in dump[2] if w[1]}
    seen, todo = {head}, [head]
    while todo:
        for m in _succ(dump, todo.pop(), trained):
            if m not in seen:
                seen.add(m)
                todo.append(m)
    return seen


def _aliased(dump, h, tl) -> bool:
    return tl >= 0 and len(dump[0][h]) == len(dump[0][tl]) > 0 and dump[0][h] == dump[0][tl]


def judge(op, res, cls, before, after, orph=(0, 0), fports=False) -> list[tuple[str, str]]:
    """All oracle clauses for one call. `before`/`after` are dumps, `orph` the orphan counts before and after, `fports`
    whether a Future has an entry in the `_PORTS` registry; returns [(signature, what)]."""
    out = []
    op = norm(op)
    kind = op[0]
    if res[0] == 'err' and res[1] == 'no-node':
        return out  # not a forml call
    route = kind if kind in ('copy', 'extend', 'trunk', 'textend', 'compose') else \
        'future' if _touches_future(op, before) else 'direct'
    if res[0] == 'err':
        if cls not in ('TopologyError', 'ValueError', 'AssertionError'):  # AssertionError: port index out of shape
            # a segment (Future head, the worker registered on it as tail) should not exist in the first place
            # (finding C11-F2); what a call makes of such a segment has the same root cause
            f2 = any(not _is_worker(before, h) and t is not None and t != h and _aliased(before, h, t) for h, t in _segs(op))
            out.append(('placeholder-accepted-head-aliases-tail' if f2 else f'error-class-{cls}',
                        f'{op} raised {cls} instead of the topology error'))
        if before != after:
            # Segment.extend = subscribe, then trace: when the tracing refuses the result (cycle, ambiguous or
            # non-simple tail) the subscription that did not break any invariant legitimately stays; likewise the
            # wiring a refused composition made before its validation
            legit = kind in ('extend', 'textend', 'compose') and (res[1] in TRACING or (kind == 'compose' and res[1] == 'futures'))
            if not legit:
                stage = ''
                if kind == 'train' and route == 'direct':
                    stage = '-label-stage'
                sig = 'not-atomic-future-route' if route == 'future' else f'not-atomic-{kind}-direct{stage}' \
                    if route == 'direct' else f'not-atomic-{kind}'
                out.append((sig, f'{op} raised {res[1]} but changed the graph'))
        elif orph[1] > orph[0]:
            out.append((f'not-atomic-{kind}-orphan-forks',
                        f'{op} raised {res[1]} and left {orph[1] - orph[0]} fork(s) behind in the worker groups'))
    elif orph[1] > orph[0]:
        out.append((f'{kind}-orphan-forks', f'{op} left {orph[1] - orph[0]} unreferenced fork(s) in the worker groups'))
    for sig, what in invariants(after):
        if not any(s == sig for s, _ in invariants(before)):
            # (the shared-placeholder-port root cause is the same whatever call delivers the subscriber)
            full = sig if sig == 'I1-two-publishers-shared-future-port' else f'{sig}-{route}'
            if kind == 'pubp' and op[4] < 2 and sig == 'I4-group-trained-twice':
                # Subscription.__new__ has no group rule, Worker.train alone checks it (finding C11-F6)
                full = 'I4-raw-port-api-skips-group-rule'
            if fports and sig in ('I1-two-publishers', 'I3-apply-and-train', 'input-registry'):
                # the exclusivity checks read `_PORTS[subscriber]`; with a Future among its keys that look-up may land
                # on the Future's entry (Node.__eq__ aliasing): one root cause
                full = 'ports-registry-future-entry'
            out.append((full, f'after {op} ({res}): {what}'))
    if kind == 'compose' and res[0] == 'segs':
        # "a composition still containing placeholders is refused": each path on its own
        for path, (h, tl) in (('apply', res[1]), ('train', res[2])):
            if h >= 0 and not _is_worker(after, h) and tl != h:
                sig = 'placeholder-accepted-head-aliases-tail' if _aliased(after, h, tl) else f'composition-placeholder-accepted-{path}'
                out.append((sig, f'{op} accepted a composition whose {path} segment is headed by a Future'))
    if kind == 'copy' and res[0] == 'segs':
        # the copy is a region of its own: nothing of the existing graph changes but the worker groups, no
        # subscription links an old node with a new one
        n0 = len(before[0])
        if after[0][:n0] != before[0] or after[1][:len(before[1])] != before[1] or \
                [[w[0], w[1], w[4]] for w in after[2] if w[0] < n0] != [[w[0], w[1], w[4]] for w in before[2]]:
            out.append(('copy-touches-original', f'{op} changed the subscriptions of the copied graph'))
        if any(s < n0 for n in range(n0, len(after[0])) for p in after[0][n] for s, _ in p) or any(r[2] < n0 <= r[0] or r[0] < n0 <= r[2] for r in after[1]):
            out.append(('copy-not-disjoint', f'{op} made a copy subscribed to / registered with the original nodes'))
    if kind in ('segment', 'validate'):
        h, t = op[1], op[2]
        if res[0] == 'node':
            if t is None and cycle_from(after, h):
                out.append(('cycle-not-rejected', f'{op} succeeded although a cycle is reachable from {h}'))
            if t is None and res[1] not in reachable(after, h):
                out.append(('tail-not-reachable', f'{op} returned tail {res[1]} not reachable from {h}'))
            if kind == 'validate' and not _is_worker(after, h) and res[1] != h:
                # (a Future that is head and tail at once is ignored by design: 'Potential tail Future node is ignored')
                sig = 'placeholder-accepted-head-aliases-tail' if _aliased(after, h, res[1]) else 'placeholder-accepted'
                out.append((sig, f'{op} accepted a segment headed by a Future'))
    return out


def _segs(op) -> list:
    """the (head, tail) descriptions of the segments a call builds first"""
    k = op[0]
    if k in ('copy', 'segment', 'validate'):
        return [(op[1], op[2])]
    if k == 'extend':
        return [(op[1], op[2])] + ([tuple(op[3])] if op[3] is not None else [])
    if k == 'trunk':
        return [tuple(s) for s in op[1:4] if s is not None]
    if k == 'textend':
        return [tuple(s) for s in op[1]] + [tuple(s) for s in op[2:5] if s is not None]
    if k == 'compose':
        return [(op[1], op[2]), (op[3], op[4])] if len(op) == 5 else [tuple(s) for t in op[1] for s in t]
    return []


def _touches_future(op, dump) -> bool:
    if op[0] in ('sub', 'pub', 'pubp'):
        ns = [op[1], op[3]]
    elif op[0] == 'train':
        ns = [op[1], op[2], op[4]]
    else:
        return False
    return any(n < len(dump[0]) and not _is_worker(dump, n) for n in ns)


# =============================================================================================
# generator (online: consults the dumped real state to aim 70 % of the calls at legal ones)
# =============================================================================================
def gen_op(rng: random.Random, real: Real, dump, last_failed, extra_ops: bool, allow_regcycle: bool):
    nodes = real.nodes
    n = len(nodes)
    fut = real.env['atomic'].Future
    workers = [i for i, x in enumerate(nodes) if not isinstance(x, fut)]
    futures = [i for i, x in enumerate(nodes) if isinstance(x, fut)]
    winfo = {w[0]: w for w in dump[2]}

    def mk():
        r = rng.random()
        if r < 0.25:
            k = rng.choice([1, 1, 1, 2, 2, 3])
            return ['mkfuture', k, k]
        if r < 0.45 and workers:
            return ['fork', rng.choice(workers + futures)]
        szin, szout = rng.choice([(1, 1), (1, 1), (1, 1), (2, 1), (1, 2), (0, 1), (1, 0), (2, 2)])
        return ['mkworker', rng.random() < 0.6, szin, szout]

    if n < 3 or (n < MAXN and rng.random() < 0.12):
        if rng.random() < 0.04:
            return ['mkworker', True, 0, 0]  # invalid shape
        if futures and rng.random() < 0.08:
            f = rng.choice(futures)  # a placeholder published to itself (refused) before the other nodes exist
            return ['pub', f, 0, f, 0]
        return mk()
    if last_failed is not None and rng.random() < 0.25:
        return last_failed  # retry after a failure
    legal = rng.random() < 0.7
    r = rng.random()

    def out_idx(p):
        return rng.randrange(nodes[p].szout) if nodes[p].szout else 0

    def in_idx(s):
        return rng.randrange(nodes[s].szin) if nodes[s].szin else 0

    def api(op):
        """the same connection through either side of the port API"""
        return ['pub', op[3], op[4], op[1], op[2]] if rng.random() < 0.4 else op

    def regcycle(f, p):
        """would registering p on f close a registration cycle among futures?"""
        if p == f:
            return True
        up = {}
        for r_ in dump[1]:
            up.setdefault(r_[0], set()).add(r_[2])
        seen, todo = set(), [p]
        while todo:
            x = todo.pop()
            for y in up.get(x, ()):
                if y == f:
                    return True
                if y not in seen:
                    seen.add(y)
                    todo.append(y)
        return False

    heads = [i for i in range(n) if nodes[i].szin <= 1 and not (i in winfo and winfo[i][1])]

    def seg(h=None):
        """a segment description: auto-traced, or with a tail taken from what the head reaches, or a random one"""
        if h is None:
            h = rng.choice(heads) if heads and legal else rng.randrange(n)
        q = rng.random()
        if q < 0.6:
            return [h, None]
        if q < 0.9:
            return [h, rng.choice(sorted(reachable(dump, h)))]
        return [h, rng.randrange(n)]

    def one_sided():
        """three heads, a placeholder that has subscribers on exactly one of them (if there is such a placeholder)"""
        fheads = [f for f in futures if any(dump[0][f]) and nodes[f].szin <= 1]
        wheads = [w for w in workers if nodes[w].szin <= 1 and not winfo[w][1]]
        if not fheads or not wheads:
            return None
        hs = [rng.choice(wheads) for _ in range(3)]
        hs[rng.randrange(3)] = rng.choice(fheads)
        return [[h, None] for h in hs]

    if extra_ops and r < 0.10:
        # out-of-shape and legacy forms: oracle only
        if rng.random() < 0.5:
            return ['extend', rng.randrange(n), None if rng.random() < 0.7 else rng.randrange(n), rng.randrange(n)]
        return ['compose', rng.randrange(n), None if rng.random() < 0.7 else rng.randrange(n),
                rng.randrange(n), None if rng.random() < 0.7 else rng.randrange(n)]
    if r < 0.05 and n <= 9:
        return ['copy'] + seg()
    if r < 0.12:
        q = rng.random()
        left = seg()
        if q < 0.7:
            cands = [x for x in range(n) if nodes[x].szin == 1 and x != left[0] and
                     (x in futures or not winfo[x][4])] if legal else []
            right = seg(rng.choice(cands)) if cands else seg(rng.randrange(n))
            if rng.random() < 0.5:
                right[1] = None
            return ['extend'] + left + [right, None if rng.random() < 0.85 else rng.randrange(n)]
        return ['extend'] + left + [None, None if q < 0.85 else rng.randrange(n)]
    if r < 0.15 and n <= MAXTOTAL - 3:
        modes = [None if rng.random() < 0.35 else seg() for _ in range(3)]
        return ['trunk'] + modes
    if r < 0.19:
        base = [seg() for _ in range(3)]
        ext = [None if rng.random() < 0.4 else seg() for _ in range(3)]
        for e in ext:
            if e is not None and rng.random() < 0.7:
                e[1] = None
        return ['textend', base] + ext
    if r < 0.24:
        first = one_sided() if rng.random() < 0.5 else None
        trunks = [first or [seg() for _ in range(3)]]
        for _ in range(rng.choice([0, 0, 1, 1, 2])):
            trunks.append([seg() for _ in range(3)])
        return ['compose', trunks]
    if r < 0.33:
        h = rng.randrange(n)
        t = None if rng.random() < 0.6 else rng.randrange(n)
        return [rng.choice(['segment', 'segment', 'validate']), h, t]
    if r < 0.47 and workers and rng.random() < 0.45:
        # the raw port API: one of Train / Label (or an Apply port) at a time, to a worker or to a placeholder
        code = rng.choice([T, T, L, L, L, 2])
        pubs = [p for p in range(n) if p in futures or (not winfo[p][1] and nodes[p].szout)] if legal else \
            [p for p in range(n) if nodes[p].szout]
        if pubs:
            p = rng.choice(pubs)
            if rng.random() < 0.2 and futures:
                fs = [f for f in futures if f != p and (code != L or nodes[f].szout > 1)]
                if fs:
                    return ['pubp', p, out_idx(p), rng.choice(fs), code]
            cands = [w for w in workers if w != p and code not in winfo[w][4] and not any(dump[0][w])
                     and not any(c >= 2 for c in winfo[w][4])
                     and not any(winfo[m][1] for m in winfo[w][3] if m != w)] if legal else workers
            if cands:
                return ['pubp', p, out_idx(p), rng.choice(cands), code]
    if r < 0.47 and workers:
        # train
        if legal:
            cands = [w for w in workers
                     if not winfo[w][4] and not any(dump[0][w]) and not any(winfo[m][1] for m in winfo[w][3])]
            pubs = [p for p in range(n) if p in futures or (not winfo[p][1] and nodes[p].szout)]
            if cands and pubs:
                w = rng.choice(cands)
                tp, lp = rng.choice(pubs), rng.choice(pubs)
                return ['train', w, tp, out_idx(tp), lp, out_idx(lp)]
        w = rng.choice(workers)
        pubs = [p for p in range(n) if nodes[p].szout]
        if pubs:
            tp, lp = rng.choice(pubs), rng.choice(pubs)
            return ['train', w, tp, out_idx(tp), lp, out_idx(lp)]
    # subscribe
    if legal:
        for _ in range(8):
            s = rng.randrange(n)
            p = rng.randrange(n)
            if s == p or not nodes[p].szout or not nodes[s].szin:
                continue
            if p in workers and winfo[p][1]:
                continue
            j = in_idx(s)
            if s in workers:
                if winfo[s][1] or (j + 2) in winfo[s][4]:
                    continue
            else:
                if any(r_[0] == s and r_[1] == j for r_ in dump[1]) or regcycle(s, p):
                    continue
            return api(['sub', s, j, p, out_idx(p)])
    for _ in range(20):
        s, p = rng.randrange(n), rng.randrange(n)
        if not nodes[p].szout or not nodes[s].szin:
            continue
        if s in futures and not allow_regcycle and regcycle(s, p):
            continue
        return api(['sub', s, in_idx(s), p, out_idx(p)])
    return ['segment', rng.randrange(n), None]


class Prog:
    """Builder of a fixed op list that keeps track of the node numbering (every creation is expected to succeed)."""

    def __init__(self):
        self.ops: list = []
        self.n = 0
        self.shape: dict = {}

    def worker(self, stateful=False, szin=1, szout=1):
        self.ops.append(['mkworker', stateful, szin, szout])
        self.shape[self.n] = ('w', szin, szout)
        self.n += 1
        return self.n - 1

    def future(self, k=1):
        self.ops.append(['mkfuture', k, k])
        self.shape[self.n] = ('f', k, k)
        self.n += 1
        return self.n - 1

    def fork(self, x):
        self.ops.append(['fork', x])
        self.shape[self.n] = self.shape[x]
        self.n += 1
        return self.n - 1

    def link(self, rng, p, i, s, j):
        """p[i] -> s[j] through either side of the port API"""
        self.ops.append(['sub', s, j, p, i] if rng.random() < 0.5 else ['pub', p, i, s, j])

    def trunk(self, modes):
        """Trunk with default futures for the missing modes; returns the resolved heads"""
        self.ops.append(['trunk'] + [None if m is None else [m, None] for m in modes])
        heads = []
        for m in modes:
            if m is None:
                self.shape[self.n] = ('f', 1, 1)
                heads.append(self.n)
                self.n += 1
            else:
                heads.append(m)
        return heads


def chain_case(rng: random.Random):
    """A chain of 2..5 placeholders (1..3 lanes each) between workers, wired in a random order through either side of
    the port API; then calls that have to be refused deep inside the chain (a loop closed through the whole chain, a
    trained worker feeding it, a taken input port), each followed by legal calls that would expose what a refused
    call left behind; `tail` random calls are generated online after it."""
    p = Prog()
    k = rng.randint(2, 5)
    lanes = rng.choice([1, 1, 1, 2, 2, 3])
    if rng.random() < 0.35:
        # the placeholders exist (and have refused a few calls among themselves) before the workers are created
        futs = [p.future(lanes) for _ in range(k)]
        for _ in range(rng.randint(1, 2)):
            a, b = rng.choice(futs), rng.choice(futs)
            ln = rng.randrange(lanes)
            p.ops.append(['pub', a, ln, a, ln] if rng.random() < 0.6 else ['sub', a, ln, a, ln] if rng.random() < 0.5
                         else ['pub', a, ln, b, ln])
        src = [p.worker(rng.random() < 0.3, 1, 1) for _ in range(lanes)]
    else:
        src = [p.worker(rng.random() < 0.3, 1, 1) for _ in range(lanes)]
        futs = [p.future(lanes) for _ in range(k)]
    sinks = [p.worker(False, 1, 1) for _ in range(lanes)]
    links = []
    perm = [list(range(lanes)) for _ in range(k + 1)]
    for q in perm:
        if rng.random() < 0.4:
            rng.shuffle(q)  # crossing lanes
    for ln in range(lanes):
        links.append((src[ln], 0, futs[0], perm[0][ln]))
        for a in range(k - 1):
            links.append((futs[a], ln, futs[a + 1], perm[a + 1][ln]))
        if rng.random() < 0.8:
            links.append((futs[-1], ln, sinks[ln], 0))
    rng.shuffle(links)
    hold = [links.pop() for _ in range(rng.choice([0, 0, 1, 2])) if links]  # connected after the refused calls
    for a, i, b, j in links:
        p.link(rng, a, i, b, j)
    for _ in range(rng.randint(1, 3)):
        q = rng.random()
        ln = rng.randrange(lanes)
        if q < 0.4:
            # a loop through the chain: some placeholder (or the sink) feeds the source of its own lane
            a = rng.choice(futs + [sinks[ln]])
            p.link(rng, a, ln if a in futs else 0, src[ln], 0)
        elif q < 0.6:
            # a placeholder of the chain registered on a placeholder downstream of it (registration cycle)
            a, b = sorted(rng.sample(range(k), 2)) if k > 1 else (0, 0)
            p.link(rng, futs[b], ln, futs[a], rng.randrange(lanes))
        elif q < 0.8:
            # a trainer fed by the end of the chain, then the trained node publishing into the chain
            t = p.worker(rng.random() < 0.8, 1, 1)
            tp, ti, lp, li = futs[-1], ln, futs[rng.randrange(k)], rng.randrange(lanes)
            how = rng.random()
            if how < 0.4:
                p.ops.append(['train', t, tp, ti, lp, li])
            else:
                # through the raw port API: both ports in either order, or just one of them
                raw = [['pubp', tp, ti, t, T], ['pubp', lp, li, t, L]]
                rng.shuffle(raw)
                p.ops += raw if how < 0.7 else raw[:1]
            p.link(rng, t, 0, futs[0], rng.randrange(lanes))
            if rng.random() < 0.5:
                f2 = p.fork(t)  # another member of the group must not become trained
                p.ops.append(['pubp', tp, ti, f2, rng.choice([T, L])] if rng.random() < 0.6 else ['train', f2, tp, ti, lp, li])
        else:
            # an input port that is taken
            p.link(rng, futs[rng.randrange(k)], ln, sinks[rng.randrange(lanes)], 0)
        for a, i, b, j in hold[:1]:
            p.link(rng, a, i, b, j)
        hold = hold[1:]
        if rng.random() < 0.6:
            w = p.worker(False, 1, 1)
            p.link(rng, rng.choice(futs), rng.randrange(lanes), w, 0)
        if rng.random() < 0.3:
            w = p.worker(False, 1, 1)
            p.link(rng, w, 0, rng.choice(futs), rng.randrange(lanes))  # a second publisher (C11-F1 class)
    for a, i, b, j in hold:
        p.link(rng, a, i, b, j)
    if rng.random() < 0.5:
        # around the head of the chain: a feeder for a source, one more direct subscriber of that source, then a
        # second feeder for the same input port (to be refused)
        ln = rng.randrange(lanes)
        steps = [lambda: p.link(rng, p.worker(False, 1, 1), 0, src[ln], 0),
                 lambda: p.link(rng, src[ln], 0, p.worker(False, 1, 1), 0)]
        if rng.random() < 0.3:
            steps.reverse()
        for st in steps:
            st()
        p.link(rng, p.worker(False, 1, 1), 0, src[ln], 0)
    if rng.random() < 0.5:
        p.ops.append([rng.choice(['segment', 'validate', 'copy']), src[0], None])
    return p.ops


def pipeline_case(rng: random.Random):
    """A composition the way operators build it: a source trunk (complete, or with some of its apply / train /
    label modes left to the default placeholder) followed by 0..3 operator trunks (placeholder heads of the
    operator's scope extended by its workers: mapper in both modes, in one mode only, or a trainer), then
    flow.Composition over them - to be refused exactly when the apply or the train path is still headed by a
    placeholder."""
    p = Prog()
    kinds = rng.choice([(1, 1, 1), (1, 1, 1), (1, 0, 0), (0, 1, 1), (1, 1, 0), (0, 0, 0), (1, 0, 1), (0, 1, 0)])
    src = p.worker(False, rng.choice([0, 1]), 1)
    modes = [None, None, None]
    for m in range(3):
        if kinds[m]:
            modes[m] = src if m == 0 else p.fork(src) if rng.random() < 0.7 else p.worker(False, 1, 1)
    heads = p.trunk(modes)
    trunks = [[[h, None] for h in heads]]
    for _ in range(rng.choice([0, 1, 1, 2, 2, 3])):
        scope = p.trunk([None, None, None])  # Origin().expand()
        q = rng.random()
        if q < 0.45:  # mapper in both modes
            w = p.worker(False, 1, 1)
            ext = [[w, None], [p.fork(w), None], None]
        elif q < 0.6:  # apply only / train only / label
            w = p.worker(False, 1, 1)
            ext = [None, None, None]
            ext[rng.randrange(3)] = [w, None]
        else:  # a trainer: applier in the apply path, its fork trained from the train and label paths
            w = p.worker(True, 1, 1)
            trainer = p.fork(w)
            if rng.random() < 0.6:
                p.ops.append(['train', trainer, scope[1], 0, scope[2], 0])
            else:
                raw = [['pubp', scope[1], 0, trainer, T], ['pubp', scope[2], 0, trainer, L]]
                rng.shuffle(raw)
                p.ops += raw
            ext = [[w, None], [p.fork(w), None] if rng.random() < 0.7 else None, None]
        p.ops.append(['textend', [[h, None] for h in scope]] + ext)
        trunks.append([[h, None] for h in scope])
    if rng.random() < 0.15 and len(trunks) > 1:
        rng.shuffle(trunks)
    p.ops.append(['compose', trunks])
    return p.ops


def run_sequence(spec, length: int = 0, extra_ops: bool = False, allow_regcycle: bool = False):
    """Run a fixed op list, or generate `length` ops online from a seed, or (a tuple) a fixed prefix followed by
    `length` ops generated online from a seed.
    Returns (ops, records, verdicts): records = [[res, outs, regs, workers]], verdicts = [(i, sig, what)]."""
    real = Real()
    try:
        if isinstance(spec, int):
            prefix, seed = [], spec
        elif isinstance(spec, tuple):
            prefix, seed = spec
        else:
            prefix, seed = spec, None
        rng = None if seed is None else random.Random(seed)
        ops, records, verdicts = [], [], []
        before = real.dump()
        orph = real.orphans()
        last_failed = None
        total = len(prefix) + (length if seed is not None else 0)
        for i in range(total):
            if len(real.nodes) > MAXTOTAL + 6:
                break
            op = prefix[i] if i < len(prefix) else gen_op(rng, real, before, last_failed, extra_ops, allow_regcycle)
            res, cls = real.call(op)
            after = real.dump()
            orph2 = real.orphans()
            ops.append(op)
            records.append([res] + after)
            # the first failing call is the witness, what follows may be a consequence of it; listed findings do
            # not stop the judging (a later, different failure of the same sequence must still be reported)
            if all(v[1] in KNOWN_SIGS for v in verdicts):
                for sig, what in judge(op, res, cls, before, after, (orph, orph2), real.future_in_ports()):
                    if sig in ('not-atomic-textend', 'not-atomic-compose'):
                        sig, what = _staged(ops, res, after, sig, what)
                    if not any(v[1] == sig for v in verdicts):
                        verdicts.append((i, sig, what))
            last_failed = op if res[0] == 'err' and res[1] != 'no-node' else None
            before, orph = after, orph2
            if real.approx or real.future_in_ports():
                records[-1][0] = ['approx'] + records[-1][0]
        _republish_probe(real, ops, records, verdicts)
        return ops, records, verdicts
    finally:
        real.close()


def _republish_probe(real: Real, ops, records, verdicts) -> None:
    """The modelling assumption behind `publishTo` (Lean: C11_collapse_reachable / C11_republish_idempotent) on the
    real objects: at the end of a sequence inside the modelled domain, `Future._collapse()` - i.e. the public
    `Publishable.republish` of every (registered publisher, held subscription) pair - raises nothing and leaves the
    graph exactly as it is.  Only placeholders that have at least one such pair are probed."""
    if verdicts or not ops or any(r[0] and r[0][0] == 'approx' for r in records):
        return
    fut = real.env['atomic'].Future
    todo = [(k, n) for k, n in enumerate(real.nodes) if isinstance(n, fut)
            and any(int(i) < len(n._output) and len(n._output[int(i)]._subscriptions) > 0  # pylint: disable=protected-access
                    for i in n._input.values())]  # pylint: disable=protected-access
    if not todo:
        return
    base = real.dump()
    for k, n in todo:
        try:
            n._collapse()  # pylint: disable=protected-access
        except Exception as err:  # pylint: disable=broad-except
            verdicts.append((len(ops) - 1, 'republish-not-idempotent',
                             f'after {ops}: Future._collapse() of node {k} (re-publishing pairs that were published '
                             f'before) raised {type(err).__name__}: {err}'))
            return
    now = real.dump()
    if now != base:
        verdicts.append((len(ops) - 1, 'republish-not-idempotent',
                         f'after {ops}: Future._collapse() of nodes {[k for k, _ in todo]} (re-publishing pairs that '
                         f'were published before) changed the graph: {base} -> {now}'))


def _staged(ops, res, after, sig, what):
    """A trunk call (Trunk.extend, flow.Composition) that raised and changed the graph: replay the sequence with the
    call replaced by the single-segment calls it stands for (every segment involved built first, then
    `Segment.extend` mode by mode: apply, train, label).  When that gives the same graph - every completed stage
    kept, the refused stage leaving nothing - the change is the missing roll-back between the stages (one root
    cause, `...-later-stage`); anything else keeps the signature of an unexplained change."""
    real = Real()
    try:
        for op in ops[:-1]:
            real.call(op)
            real.dump()  # (as the run being explained did: reading Worker.input makes the worker's registry entry)
            real.orphans()
        op = norm(ops[-1])
        done, last = 0, None

        def stage(left, right):
            """one Segment.extend; returns the new segment, or None when it was refused without a trace"""
            nonlocal done, last
            b = real.dump()
            try:
                new = left.extend(right)
            except Exception as e:  # pylint: disable=broad-except
                msg = str(e)
                last = next((kd for prefix, kd in MESSAGES if msg.startswith(prefix)), f'class:{type(e).__name__}')
                if real.dump() != b and last not in TRACING:
                    last = 'stage-not-atomic'
                return None
            done += 1
            return new

        try:
            if op[0] == 'textend':
                cur = [real.seg(x) for x in op[1]]
                ext = [None if x is None else real.seg(x) for x in op[2:5]]
                for m in range(3):
                    if ext[m] is not None and last is None:
                        cur[m] = stage(cur[m], ext[m])
            elif op[0] == 'compose' and len(op) == 2:
                cur = [real.seg(x) for x in op[1][0]]
                for spec in op[1][1:]:
                    if last is not None:
                        break
                    ext = [real.seg(x) for x in spec]
                    for m in range(3):
                        if last is None:
                            cur[m] = stage(cur[m], ext[m])
        except Exception:  # pylint: disable=broad-except
            return sig, what
        if last is not None and last == res[1] and done > 0 and real.dump() == after:
            return 'not-atomic-trunk-extend-later-stage', what + f' (the {done} stage(s) completed before the refused one stay)'
        return sig, what
    finally:
        real.close()


def _batch(args):
    kind, items = args
    out = []
    for it in items:
        if kind == 'seed':
            seed, length, extra, regc = it
            ops, recs, verd = run_sequence(seed, length, extra, regc)
            out.append((ops, sexp.dumps(recs), verd))
        elif kind == 'prefix':
            prefix, seed, length = it
            ops, recs, verd = run_sequence((prefix, seed), length)
            out.append((ops, sexp.dumps(recs), verd))
        elif kind == 'final':
            ops, recs, verd = run_sequence(it)
            out.append((ops, sexp.dumps([[r[0] for r in recs], recs[-1][1:]]), verd))
        else:
            ops, recs, verd = run_sequence(it)
            out.append((ops, sexp.dumps(recs), verd))
    return out


# =============================================================================================
# shrinking of a failing sequence (on the real code)
# =============================================================================================
def _created(ops) -> list:
    """number of nodes after each op of the sequence (on the real code)"""
    real = Real()
    try:
        out = []
        for op in ops:
            real.call(op)
            out.append(len(real.nodes))
        return out
    finally:
        real.close()


def _without(ops, j, counts):
    """the sequence with op j removed: later ops naming a node it created are dropped, the others renumbered"""
    lo = counts[j - 1] if j else 0
    hi = counts[j]

    def f(x):
        if lo <= x < hi:
            raise Drop()
        return x - (hi - lo) if x >= hi else x

    out = list(ops[:j])
    for op in ops[j + 1:]:
        try:
            out.append(walk(op, f))
        except Drop:
            continue
    return out


def fails_with(ops, sig) -> typing.Optional[int]:
    """index of the call at which the oracle gives `sig` on the real code"""
    _, _, verdicts = run_sequence(ops)
    return next((i for i, s, _ in verdicts if s == sig), None)


def shrink(ops, sig, budget: int = 400):
    """Greedy one-at-a-time removal (with renumbering) as long as the oracle still gives the same signature."""
    at = fails_with(ops, sig)
    if at is None:
        return ops
    ops = ops[: at + 1]
    changed = True
    while changed and budget > 0:
        changed = False
        counts = _created(ops)
        for j in range(len(ops) - 2, -1, -1):
            if budget <= 0:
                break
            cand = _without(ops, j, counts)
            budget -= 1
            at = fails_with(cand, sig)
            if at is not None:
                ops = cand[: at + 1]
                changed = True
                break
    # simplify what is left: smaller shapes, stateless workers
    for j, op in enumerate(ops):
        for simpler in ([['mkworker', False, 1, 1], ['mkworker', True, 1, 1]] if op[0] == 'mkworker' else
                        [['mkfuture', 1, 1]] if op[0] == 'mkfuture' else []):
            if simpler != op and budget > 0:
                cand = ops[:j] + [simpler] + ops[j + 1:]
                budget -= 1
                if fails_with(cand, sig) == len(cand) - 1:
                    ops = cand
                    break
    return ops


# =============================================================================================
# the check
# =============================================================================================
CORPUS = [
    # D12: two publishers registered on one future port, then a subscriber
    [['mkworker', False, 1, 1], ['mkworker', False, 1, 1], ['mkfuture', 1, 1], ['mkworker', False, 1, 1],
     ['sub', 2, 0, 0, 0], ['sub', 2, 0, 1, 0], ['sub', 3, 0, 2, 0]],
    # D13: label publish fails after the train publish succeeded
    [['mkworker', True, 1, 1], ['mkworker', False, 1, 1], ['train', 0, 1, 0, 0, 0]],
    # failing call routed through a placeholder keeps the registration / the dangling subscription
    [['mkworker', False, 1, 1], ['mkfuture', 1, 1], ['sub', 1, 0, 0, 0], ['sub', 0, 0, 1, 0]],
    [['mkworker', True, 1, 1], ['mkworker', False, 1, 1], ['mkfuture', 1, 1], ['mkworker', False, 1, 1],
     ['sub', 2, 0, 0, 0], ['train', 0, 1, 0, 1, 0], ['sub', 3, 0, 2, 0]],
    # a chain of placeholders wired through the publishing API, then calls refused deep in the chain (self, trained)
    [['mkworker', True, 1, 1], ['mkfuture', 1, 1], ['mkfuture', 1, 1], ['mkworker', False, 1, 1],
     ['pub', 0, 0, 1, 0], ['pub', 1, 0, 2, 0], ['sub', 0, 0, 2, 0], ['pub', 2, 0, 0, 0], ['sub', 3, 0, 2, 0],
     ['train', 0, 2, 0, 3, 0], ['pub', 1, 0, 1, 0], ['pub', 2, 0, 2, 0]],
    [['mkworker', False, 1, 1], ['mkfuture', 2, 2], ['mkfuture', 2, 2], ['mkworker', False, 2, 1],
     ['pub', 0, 0, 1, 1], ['pub', 1, 1, 2, 0], ['sub', 3, 0, 2, 0], ['sub', 3, 1, 2, 1], ['sub', 0, 0, 2, 0],
     ['pub', 2, 0, 0, 0]],
    # a placeholder registered on itself: RecursionError
    [['mkworker', False, 1, 1], ['mkfuture', 1, 1], ['sub', 0, 0, 1, 0], ['sub', 1, 0, 1, 0]],
    # chains of placeholders, both orders
    [['mkworker', False, 1, 1], ['mkfuture', 1, 1], ['mkfuture', 1, 1], ['mkworker', False, 1, 1],
     ['sub', 3, 0, 2, 0], ['sub', 2, 0, 1, 0], ['sub', 1, 0, 0, 0], ['segment', 0, None], ['validate', 1, None]],
    [['mkworker', False, 1, 1], ['mkfuture', 1, 1], ['mkfuture', 1, 1], ['mkworker', False, 1, 1],
     ['sub', 1, 0, 0, 0], ['sub', 2, 0, 1, 0], ['sub', 3, 0, 2, 0], ['segment', 0, 3], ['segment', 0, 2]],
    # cycle, diamond (ambiguous), disconnected, simple head/tail
    [['mkworker', False, 1, 1], ['mkworker', False, 1, 1], ['sub', 1, 0, 0, 0], ['sub', 0, 0, 1, 0],
     ['segment', 0, None], ['segment', 0, 1], ['validate', 0, None]],
    [['mkworker', False, 1, 2], ['mkworker', False, 1, 1], ['mkworker', False, 1, 1], ['mkworker', False, 2, 1],
     ['sub', 1, 0, 0, 0], ['sub', 2, 0, 0, 1], ['sub', 3, 0, 1, 0], ['sub', 3, 1, 2, 0],
     ['segment', 0, None], ['segment', 0, 3], ['segment', 3, None], ['segment', 1, 2], ['segment', 1, 0],
     ['copy', 0, 3], ['copy', 1, None], ['extend', 0, 3, None, None], ['extend', 1, None, None, 3]],
    # train / fork rules
    [['mkworker', True, 1, 1], ['fork', 0], ['mkworker', False, 1, 1], ['train', 0, 2, 0, 2, 0],
     ['train', 1, 2, 0, 2, 0], ['sub', 2, 0, 0, 0], ['sub', 0, 0, 2, 0], ['sub', 1, 0, 2, 0], ['train', 2, 1, 0, 1, 0],
     ['segment', 2, None], ['validate', 2, 1], ['copy', 2, None]],
    [['mkworker', True, 0, 0], ['mkworker', True, 1, 1], ['mkworker', False, 1, 1], ['sub', 0, 0, 1, 0],
     ['train', 0, 1, 0, 1, 0], ['sub', 0, 0, 1, 0], ['sub', 1, 0, 0, 0], ['train', 0, 1, 0, 1, 0]],
    # copy: a chain with a trained side branch and a placeholder head; a dangling placeholder tail stands for its
    # publisher; a region in which two ports hold one subscription is refused (and leaves forks behind: C11-F4)
    [['mkfuture', 1, 1], ['mkworker', False, 1, 1], ['mkworker', False, 1, 1], ['mkworker', True, 1, 1],
     ['sub', 1, 0, 0, 0], ['sub', 2, 0, 1, 0], ['train', 3, 1, 0, 0, 0], ['copy', 0, None], ['copy', 1, 2],
     ['mkfuture', 1, 1], ['sub', 9, 0, 2, 0], ['copy', 1, 9], ['segment', 4, None], ['validate', 5, None]],
    [['mkworker', False, 1, 2], ['mkworker', False, 1, 1], ['mkworker', False, 1, 1], ['mkfuture', 1, 1],
     ['mkworker', False, 1, 1], ['sub', 1, 0, 0, 0], ['sub', 2, 0, 0, 1], ['sub', 3, 0, 1, 0], ['sub', 3, 0, 2, 0],
     ['sub', 4, 0, 3, 0], ['copy', 0, 4], ['copy', 1, None]],
    # extend: node and segment forms, explicit tail, a refused subscription, a tracing refusal after the subscription
    [['mkworker', False, 1, 1], ['mkworker', False, 1, 1], ['mkworker', False, 1, 1], ['mkfuture', 1, 1],
     ['extend', 0, None, [1, None], None], ['extend', 0, None, [1, None], None], ['extend', 0, 1, [3, None], None],
     ['extend', 0, None, [2, 2], 2], ['extend', 0, None, None, None], ['extend', 0, None, None, 1],
     ['extend', 1, None, [0, None], None], ['extend', 2, None, [2, None], None]],
    # trunk / trunk extend / composition: default placeholders, a later stage refused (C11-F3), one-sided placeholders
    [['mkworker', False, 0, 1], ['fork', 0], ['mkworker', False, 1, 1], ['trunk', [0, None], [1, None], None],
     ['mkworker', False, 1, 1], ['fork', 4], ['textend', [[0, None], [1, None], [3, None]], [4, None], [5, None], None],
     ['compose', [[[0, None], [1, None], [3, None]]]], ['trunk', [0, None], None, None],
     ['compose', [[[0, None], [6, None], [7, None]]]], ['compose', [[[6, None], [0, None], [7, None]]]],
     ['mkworker', False, 1, 1], ['sub', 8, 0, 6, 0], ['compose', [[[0, None], [6, None], [7, None]]]],
     ['compose', [[[6, None], [1, None], [7, None]]]]],
    [['mkworker', False, 0, 1], ['mkworker', False, 1, 1], ['mkworker', False, 1, 1], ['mkworker', False, 1, 1],
     ['sub', 3, 0, 1, 0], ['textend', [[0, None], [1, None], [2, None]], [2, None], [3, None], None],
     ['mkworker', False, 1, 1], ['textend', [[0, None], [1, None], [4, None]], [4, None], [3, None], None]],
    [['mkworker', False, 0, 1], ['fork', 0], ['fork', 0], ['trunk', None, None, None], ['mkworker', True, 1, 1],
     ['fork', 6], ['fork', 6], ['train', 7, 4, 0, 5, 0], ['textend', [[3, None], [4, None], [5, None]], [6, None], [8, None], None],
     ['compose', [[[0, None], [1, None], [2, None]], [[3, None], [4, None], [5, None]]]],
     ['compose', [[[0, None], [1, None], [2, None]], [[3, None], [4, None], [5, None]]]]],
]


CORPUS += [
    # the raw port API: a worker subscribed on its Label port only is trained - it must not publish (directly, through
    # a placeholder, as a registered publisher), no Apply port, no second Label; Train after Label completes it
    [['mkworker', False, 1, 1], ['mkworker', True, 1, 1], ['mkfuture', 1, 1], ['mkworker', False, 1, 1],
     ['pubp', 0, 0, 1, L], ['pub', 1, 0, 3, 0], ['sub', 3, 0, 1, 0], ['sub', 2, 0, 1, 0], ['sub', 3, 0, 2, 0],
     ['pubp', 0, 0, 1, 2], ['pubp', 0, 0, 1, L], ['pubp', 0, 0, 1, T], ['segment', 0, None], ['validate', 0, None]],
    # Train only, through a placeholder registered afterwards; a subscriber that publishes cannot become trained
    [['mkworker', False, 1, 1], ['mkfuture', 2, 2], ['mkworker', True, 1, 1], ['mkworker', False, 1, 1],
     ['pubp', 1, 0, 2, T], ['pubp', 0, 0, 1, T], ['pubp', 0, 0, 1, L], ['pubp', 1, 1, 2, L], ['sub', 3, 0, 0, 0],
     ['pubp', 3, 0, 0, L], ['pubp', 2, 0, 3, 0]],
    # the group rule through the raw port API: a second member of the group (C11-F6), then Worker.train of a third
    [['mkworker', False, 1, 1], ['mkworker', True, 1, 1], ['fork', 1], ['fork', 1], ['pubp', 0, 0, 1, L],
     ['train', 2, 0, 0, 0, 0], ['pubp', 0, 0, 2, T], ['train', 3, 0, 0, 0, 0], ['pubp', 0, 0, 1, T]],
]


# sequences with calls that are not modelled (oracle only)
ORACLE_CORPUS = [
    # a refused self-publish gives the placeholder an entry in _PORTS; a worker that later looks like it (its
    # registered publisher) gets its port recorded there, and loses it when the two stop looking alike (C11-F5)
    [['mkfuture', 1, 1], ['pub', 0, 0, 0, 0], ['mkworker', False, 1, 1], ['sub', 0, 0, 1, 0], ['mkworker', False, 1, 1],
     ['sub', 2, 0, 0, 0], ['mkworker', False, 1, 1], ['sub', 1, 0, 3, 0], ['mkworker', False, 1, 1], ['sub', 4, 0, 1, 0],
     ['mkworker', False, 1, 1], ['sub', 1, 0, 5, 0]],
    # a composition with a placeholder heading exactly one path (train, then apply), then a clean one
    [['mkworker', False, 0, 1], ['mkworker', False, 1, 1], ['sub', 1, 0, 0, 0], ['mkfuture', 1, 1],
     ['mkworker', False, 1, 1], ['sub', 3, 0, 2, 0], ['compose', 0, None, 2, None], ['compose', 2, None, 0, None],
     ['compose', 0, None, 0, 1], ['compose', 2, 2, 0, None]],
    # a lone placeholder path is accepted by design; a placeholder in the middle is collapsed away
    [['mkworker', False, 0, 1], ['mkfuture', 1, 1], ['mkworker', False, 1, 1], ['compose', 0, None, 1, None],
     ['sub', 1, 0, 0, 0], ['sub', 2, 0, 1, 0], ['compose', 0, None, 0, 2], ['compose', 1, None, 0, None]],
]


class C11(fw.Check):
    ID = 'C11'
    LEAN_MODULES = ['ForML.Props.C11']
    DRIVER = 'drv_c11'
    RULE = ('op sequences over a universe of <= 6 created nodes (workers 1:1/2:1/1:2/2:2/0:1/1:0 stateful or not, forks, futures '
            '1:1/2:2/3:3; copies and default trunk placeholders take it to <= 14): create/fork, s[j].subscribe(p[i]) or '
            'p[i].publish(s, Apply(j)) (either side of the port API), p[i].publish(s, Train() | Label() | Apply(j)) (the raw '
            'port API, one port kind at a time, to workers and to placeholders; 45 % of the training calls), '
            'n.train(a[i], b[k]), Segment(h[,t]), '
            'Segment.accept(Validator), Segment.copy, Segment.extend (node / segment / explicit tail / retrace), '
            'Trunk(apply, train, label) with default placeholders, Trunk.extend, flow.Composition over 1..3 operator trunks; '
            'generated online against the real graph: 70 % of the calls are aimed at legal ones, 30 % uniformly random '
            '(mostly illegal), failed calls are retried with probability 1/4; hand-written corpus and the witnesses of '
            'findings.d first; thorough adds every sequence of <= 4 state-changing calls from a 22-call alphabet on a fixed '
            '4-node universe (all results + final state compared). Transparency stream: random legal wirings through 1..3 '
            'futures executed in several (thorough: up to all) orders, worker-to-worker connections compared with the path '
            'closure of the requested wiring. Chain stream: 2..5 placeholders of 1..3 lanes between workers wired in a '
            'random order through either side of the port API (a third of them: the placeholders first, refusing calls among '
            'themselves, the workers afterwards), calls refused deep in the chain (loop through the chain, registration '
            'cycle, trained publisher, taken port), legal follow-ups, a feeder / one more subscriber / a second feeder around '
            'a source, random continuation. Pipeline stream: '
            'source trunk with any subset of its modes left to the default placeholder + 0..3 operator trunks (mapper in '
            'both / one mode, trainer) + flow.Composition, random continuation. Oracle-only stream (not modelled): '
            'out-of-shape port indices, cycles of placeholders. Every call of every sequence is one evaluation; a sequence '
            'is distinct by its op list and non-trivial when it contains at least three kinds of calls.')
    TRUSTED = [
        'Python object identity and uuid4 are modelled by list indices; Subscription.__del__ / GC driven clean-up of '
        '_PORTS is not modelled (all nodes are kept alive during a sequence, _PORTS is cleared/restored around it)',
        'Node.__eq__/__hash__ Future/Worker aliasing inside sets of Traversal is modelled as the code computes it '
        '(eqNode/memNode); inside Traversal.copy (copies dict, seen set) it is not: the model abstains when two '
        'different nodes involved in a copy compare equal (such sequences are compared up to that call)',
        'the Publisher-collision check of Future.register (same proxy object registered twice) is not reachable '
        'through node[i] (a fresh proxy per call) and is not modelled',
        'Future._collapse re-publishes every (registered publisher, held subscription) pair; the model forwards the '
        'new subscription only (re-publishing an already published pair is a no-op in every reachable state: proved '
        'of the model - C11_republish_idempotent, C11_collapse_reachable, up to the fuel bound - and probed on the real '
        'objects by _collapse() at the end of every sequence inside the modelled domain, signature '
        'republish-not-idempotent)',
        'the model follows the code with fixes/C11-atomic-topology-errors.diff applied',
        'Segment.copy: the model makes every check before it creates a fork (the code forks and subscribes lazily; what a '
        'refused copy leaves behind in the worker groups is finding C11-F4 and is not part of the compared state), a '
        'refused copy is compared by exception class only, and the final re-tracing Segment(copy of head, copy of tail) '
        'is reduced to its shape check; the numbering of the copies is taken from the mapping Traversal.copy returns',
        'the model keys the _PORTS registry by identity (a Future never has an entry - true of the code with '
        'fixes/C11-ports-registry-future-entry.diff; finding C11-F5 otherwise): a sequence is compared up to the call that '
        'gives a Future a registry entry; the harness reads Worker.input after every call, which creates the entry of '
        'every worker it holds',
        'two refusals are compared by exception class (which topology message comes first is incidental)',
    ]
    ASSUMPTIONS = ['port indices are within the node shape (Node._publish asserts the output index; input indices are '
                   'not validated by forml at construction time) - a sequence is compared up to the first call answered '
                   'with AssertionError; out-of-shape indices are exercised under the oracle only',
                   'futures are square (szin == szout), as created by forml itself']

    def __init__(self, tier, seed):
        super().__init__(tier, seed)
        KNOWN_SIGS.clear()
        KNOWN_SIGS.update(e['signature'] for e in fw._load_findings(self.ID)  # pylint: disable=protected-access
                          if e.get('status') == 'finding')
        self._shrunk: dict = {}

    # ---- plumbing ---------------------------------------------------------------------------
    def _pool_map(self, kind, items, chunk=200):
        chunks = [(kind, items[i:i + chunk]) for i in range(0, len(items), chunk)]
        if len(items) < 400:
            return [r for c in chunks for r in _batch(c)]
        procs = min(14, max(2, (os.cpu_count() or 4) - 2))
        ctx = multiprocessing.get_context('fork')
        with ctx.Pool(procs, maxtasksperchild=20) as pool:
            return [r for rs in pool.map(_batch, chunks) for r in rs]

    def _report(self, ops, i, sig, what):
        """One oracle verdict -> violation; the first witness of every signature that is not a listed finding is
        shrunk on the real code."""
        witness = ops[: i + 1]
        if sig not in KNOWN_SIGS:
            if sig not in self._shrunk:
                small = shrink(witness, sig)
                self._shrunk[sig] = small
                if small != witness:
                    _, _, verdicts = run_sequence(small)
                    hit = next((v for v in verdicts if v[1] == sig), None)
                    if hit is not None:
                        witness, what = small[: hit[0] + 1], hit[2]
            else:
                return  # one witness per root cause
        self.violate(what, {'ops': witness}, sig)

    def _account(self, ops, verdicts, stream):
        """Feed evidence + turn oracle verdicts into violations (witness = the op prefix)."""
        for i, sig, what in verdicts:
            self._report(ops, i, sig, what)
        nerr = len({i for i, s, _ in verdicts if s.startswith('not-atomic')})
        kinds = sorted({op[0] for op in ops})
        self.evaluations += len(ops) - 1
        self.case(repr(ops), f'{stream} len={min(len(ops), 16)}',
                  nontrivial=len(kinds) >= 3, sample={'ops': ops[:10]} if nerr == 0 and len(self.samples) < 6 else None)

    def _compare(self, results, mode, stream):
        """results = [(ops, real_text, verdicts)] ; model comparison is textual, parsed only on a mismatch."""
        lines = [sexp.dumps([mode] + [op_sexp(op) for op in ops]) for ops, _, _ in results]
        answers = self.model(lines)
        for (ops, real, verdicts), ans in zip(results, answers):
            self._account(ops, verdicts, stream)
            if ans == real:
                continue
            self._explain(ops, real, ans, mode)

    def _explain(self, ops, real, ans, mode):
        try:
            r, m = sexp.num(sexp.loads(real)), sexp.num(sexp.loads(ans))
        except ValueError:
            self.diverge('model answer unparsable', {'ops': ops}, real[:200], ans[:200])
            return
        if mode == 'seqf':
            rr, mr = r[0], m[0] if isinstance(m, list) and m else m
            if not isinstance(mr, list) or len(rr) != len(mr):
                self.diverge('model answer shape', {'ops': ops}, len(rr), mr)
                return
            for i, (ra, rb) in enumerate(zip(rr, mr)):
                if self._outside(ra, rb, ops[i]):
                    self.histogram['compared up to a call outside the modelled domain'] += 1
                    return
                if not self._same_res(ops[i], ra, rb):
                    self.diverge(f'result of call {i} {ops[i]}', {'ops': ops[: i + 1]}, ra, rb)
                    return
            if r[1] != m[1]:
                self.diverge('final state', {'ops': ops}, r[1], m[1])
            return
        if not isinstance(m, list) or len(m) != len(r):
            self.diverge('model answer shape', {'ops': ops}, len(r), m if not isinstance(m, list) else len(m))
            return
        for i, (a, b) in enumerate(zip(r, m)):
            if self._outside(a[0], b[0], ops[i]):
                self.histogram['compared up to a call outside the modelled domain'] += 1
                return
            if not self._same_res(ops[i], a[0], b[0]) or a[1:] != b[1:]:
                self.diverge(f'state after call {i} {ops[i]}', {'ops': ops[: i + 1]}, a, b)
                return

    @staticmethod
    def _outside(ra, rb, op=None) -> bool:
        """outside the modelled domain: the sequence is compared up to this call"""
        if op is not None and op[0] == 'pubp' and op[4] < 2 and ra[0] == 'ok' and rb == ['err', 'fork-train']:
            return True  # the model has the group rule of fixes/C11-group-rule-in-subscription.diff (finding C11-F6)
        return ra[0] == 'approx' or (ra[0] == 'err' and ra[1] == 'class:AssertionError') or \
            (rb[0] == 'err' and rb[1] == 'aliased')

    @staticmethod
    def _same_res(op, ra, rb) -> bool:
        if ra == rb:
            return True
        if ra[0] != 'err' or rb[0] != 'err':
            return False
        ca = ra[1][6:] if str(ra[1]).startswith('class:') else KIND_CLASS.get(ra[1], 'TopologyError')
        ca = 'TopologyError' if ca == 'Cyclic' else ca
        cb = KIND_CLASS.get(rb[1], 'TopologyError')
        # both refuse: the property speaks of "the topology error", not of which of its messages - exception class
        # only (which check fires first is incidental: a refused copy makes them lazily, the model up front; a
        # refactoring may reorder them)
        return ca == cb

    # ---- streams ------------------------------------------------------------------------------
    def _corpus(self):
        res = self._pool_map('fixed', CORPUS + [e['witness']['ops'] for e in fw._load_findings(self.ID)  # pylint: disable=protected-access
                                                if isinstance(e.get('witness'), dict) and 'ops' in e['witness']
                                                and all(modelled(op) for op in e['witness']['ops'])])
        self._compare(res, 'seq', 'corpus')

    def _random(self):
        nseq = self.n(2000, 24000)
        items = [(self.rng.getrandbits(48), self.rng.choice([8, 10, 12, 14, 16]), False, False) for _ in range(nseq)]
        self._compare(self._pool_map('seed', items), 'seq', 'random')

    def _chains(self, scale=1):
        nseq = self.n(300, 4000) * scale
        items = [(chain_case(self.rng), self.rng.getrandbits(48), self.rng.choice([0, 2, 4, 6])) for _ in range(nseq)]
        self._compare(self._pool_map('prefix', items), 'seq', 'chains of placeholders')

    def _pipelines(self, scale=1):
        nseq = self.n(300, 4000) * scale
        items = [(pipeline_case(self.rng), self.rng.getrandbits(48), self.rng.choice([0, 0, 2, 4])) for _ in range(nseq)]
        self._compare(self._pool_map('prefix', items), 'seq', 'pipelines / compositions')

    def _oracle_only(self):
        """out-of-shape indices, legacy forms and registration cycles among futures: oracle only."""
        nseq = self.n(300, 3000)
        items = [(self.rng.getrandbits(48), self.rng.choice([8, 12, 16]), True, True) for _ in range(nseq)]
        for ops, _, verdicts in self._pool_map('fixed', ORACLE_CORPUS) + self._pool_map('seed', items):
            self._account(ops, verdicts, 'oracle-only(out-of-shape/legacy/reg-cycles)')

    def _exhaustive(self):
        universe = [['mkworker', True, 1, 1], ['mkworker', False, 1, 1], ['mkfuture', 1, 1], ['fork', 0]]
        # (the future registering itself, a registration cycle, is a corpus case: tracing calls made after it end in
        # Python's RecursionError inside Future.subscribed, which the model does not follow)
        alphabet = [['sub', s, 0, p, 0] for s in range(4) for p in range(4) if (s, p) != (2, 2)]
        alphabet += [['pub', 1, 0, 2, 0], ['pub', 2, 0, 3, 0], ['pub', 2, 0, 0, 0]]
        alphabet += [['train', 0, 1, 0, 1, 0], ['train', 0, 2, 0, 1, 0], ['train', 3, 1, 0, 2, 0], ['train', 0, 1, 0, 0, 0]]
        alphabet += [['extend', 1, None, [3, None], None], ['extend', 2, None, [1, None], None]]
        alphabet += [['pubp', 1, 0, 0, L], ['pubp', 1, 0, 3, T], ['pubp', 2, 0, 0, T]]
        probes = [['segment', 1, None], ['validate', 2, None], ['copy', 2, None],
                  ['compose', [[[1, None], [2, None], [3, None]]]]]
        depth = 4 if not self.quick else 3 if self.escalation > 1 else 2  # (a depth, not a count: no scaling)
        items = []
        for k in range(1, depth + 1):
            for seq in itertools.product(alphabet, repeat=k):
                items.append(universe + list(seq) + probes)
        self.notes.append(f'exhaustive: {len(items)} sequences of <= {depth} calls over {len(alphabet)} calls on 4 nodes')
        res = self._pool_map('final', items, chunk=1500)
        self._compare(res, 'seqf', f'exhaustive<= {depth}')

    # -- transparency: any number of futures, any order -------------------------------------------
    def _wiring(self, rng):
        """A legal wiring: workers + 1..3 futures (1:1), links pub->sub with futures in between, acyclic, every
        future port and every worker input port with a single publisher."""
        nw, nf = rng.randint(2, 4), rng.randint(1, 3)
        if nw + nf > MAXN:
            nw = MAXN - nf
        creates = [['mkworker', False, 1, 1] for _ in range(nw)] + [['mkfuture', 1, 1] for _ in range(nf)]
        order = list(range(nw + nf))
        rng.shuffle(order)  # topological order: links only go forward
        rank = {n: i for i, n in enumerate(order)}
        links = []
        for s in range(nw + nf):
            cands = [p for p in range(nw + nf) if rank[p] < rank[s]]
            if cands and rng.random() < 0.85:
                links.append((rng.choice(cands), s))
        return creates, links, nw

    @staticmethod
    def _closure(links, nw):
        """worker-to-worker connections of the direct wiring (futures substituted away)."""
        up: dict = {}
        for p, s in links:
            up.setdefault(s, set()).add(p)

        def sources(n):
            return {n} if n < nw else {w for p in up.get(n, ()) for w in sources(p)}

        return sorted({(w, s) for p, s in links if s < nw for w in sources(p)})

    def _transparency(self):
        nw_cases = self.n(150, 1500)
        jobs, meta = [], []
        for _ in range(nw_cases):
            creates, links, nw = self._wiring(self.rng)
            if not links:
                continue
            perms = list(itertools.permutations(links))
            if len(perms) > self.n(4, 24):
                perms = [tuple(self.rng.sample(links, len(links))) for _ in range(self.n(4, 24))]
            for perm in perms:
                jobs.append(creates + [['sub', s, 0, p, 0] if self.rng.random() < 0.6 else ['pub', p, 0, s, 0]
                                       for p, s in perm])
                meta.append((links, nw))
        res = self._pool_map('fixed', jobs)
        self._compare(res, 'seq', 'transparency')
        for (ops, real, _), (links, nw) in zip(res, meta):
            recs = sexp.num(sexp.loads(real))
            final = recs[-1]
            got = sorted({(n, s[0]) for n, outs in enumerate(final[1]) if n < nw for p in outs for s in p})
            want = self._closure(links, nw)
            failed = [i for i, r in enumerate(recs) if r[0][0] == 'err']
            if failed:
                self.violate(f'legal wiring through placeholders: call {ops[failed[0]]} failed ({recs[failed[0]][0]})',
                             {'ops': ops[: failed[0] + 1]}, 'transparency-legal-call-fails')
            elif got != want:
                self.violate(f'wiring through placeholders gives connections {got}, the direct wiring is {want}',
                             {'ops': ops}, 'transparency-edges-differ')

    def correspondence(self):
        self._corpus()
        self._random()
        self._chains()
        self._pipelines()
        self._transparency()
        self._exhaustive()
        self._oracle_only()

    # ---- search / replay ------------------------------------------------------------------------
    def _probe_alphabet(self, real: Real, dump):
        """Every call worth making on the graph as it stands: all connections between existing ports through either
        side of the port API, trainings, tracings, copies, compositions over every triple of heads."""
        nodes = real.nodes
        n = len(nodes)
        out = []
        for s in range(n):
            for p in range(n):
                for j in range(max(1, min(nodes[s].szin, 2))):
                    for i in range(min(nodes[p].szout, 2)):
                        out.append(['sub', s, j, p, i])
                        out.append(['pub', p, i, s, j])
        workers = [w[0] for w in dump[2]]
        pubs = [p for p in range(n) if nodes[p].szout]
        for w in workers:
            for tp in pubs:
                out += [['pubp', tp, 0, w, T], ['pubp', tp, 0, w, L]]
        for w in workers:
            for tp in pubs:
                for lp in pubs[:3]:
                    out.append(['train', w, tp, 0, lp, 0])
        heads = [h for h in range(n) if nodes[h].szin <= 1]
        for h in heads:
            out += [['segment', h, None], ['validate', h, None], ['copy', h, None]]
            for r in range(n):
                out.append(['extend', h, None, [r, None], None])
        for a in heads:
            for t in heads:
                out.append(['compose', [[[a, None], [t, None], [a, None]]]])
        return out

    def _continuations(self, prefix, depth2: int):
        """the oracle on every one-call continuation of the prefix and on `depth2` random two/three-call ones"""
        real = Real()
        try:
            for op in prefix:
                real.call(op)
            alphabet = self._probe_alphabet(real, real.dump())
        finally:
            real.close()
        cap = self.n(300, 3000)
        if len(alphabet) > cap:
            # the calls naming a node of the last calls of the prefix first, a sample of the others
            near = {x for op in prefix[-3:] for x in refs(op)}
            local = [op for op in alphabet if near & set(refs(op))]
            other = [op for op in alphabet if not near & set(refs(op))]
            self.rng.shuffle(local)
            self.rng.shuffle(other)
            alphabet = (local + other)[:cap]
        fresh = [['mkworker', False, 1, 1], ['mkworker', True, 1, 1], ['mkfuture', 1, 1]]
        seqs = [prefix + [op] for op in alphabet]
        for _ in range(depth2):
            k = self.rng.choice([2, 2, 3])
            tail = [self.rng.choice(alphabet) for _ in range(k)] if alphabet else []
            if self.rng.random() < 0.3:
                tail.insert(0, self.rng.choice(fresh))
            seqs.append(prefix + tail)
        found = 0
        for ops, _, verdicts in self._pool_map('fixed', seqs):
            for i, sig, what in verdicts:
                self._report(ops, i, sig, what)
                found += 1
        return len(seqs), found

    def search(self, reason):
        """A proof obligation or the correspondence broke: look for a call sequence on which the oracle fails on the
        real code.  (1) every diverging prefix (and its proper prefixes ending in a refused call): all one-call
        continuations + random longer ones; (2) the chain and pipeline generators at four times their volume with
        random continuations; (3) long random sequences.  Every witness is shrunk."""
        if any(v.signature not in KNOWN_SIGS for v in self.violations):
            self.notes.append(f'failing-input search ({reason}): not needed, the oracle already failed on '
                              f'{len({v.signature for v in self.violations if v.signature not in KNOWN_SIGS})} kind(s) of '
                              'generated sequences (shrunk)')
            return
        before = len(self.violations)
        seeds, seen = [], set()
        for d in self.divergences:
            if isinstance(d.case, dict) and 'ops' in d.case and repr(d.case['ops']) not in seen:
                seen.add(repr(d.case['ops']))
                seeds.append(d.case['ops'])
        tried = 0
        seeds.sort(key=len)
        for ops in seeds[:self.n(6, 24)]:
            nseq, _ = self._continuations(ops, self.n(100, 1500))
            tried += nseq
            if len(ops) > 1:
                nseq, _ = self._continuations(ops[:-1], self.n(50, 500))
                tried += nseq
            if len(self.violations) > before:
                break
        self.notes.append(f'failing-input search ({reason}): {tried} continuations of diverging prefixes')
        if len(self.violations) == before or not seeds:
            self._chains(scale=4)
            self._pipelines(scale=4)
            nseq = self.n(3000, 30000)
            items = [(self.rng.getrandbits(48), self.rng.choice([16, 20, 24]), False, True) for _ in range(nseq)]
            for ops, _, verdicts in self._pool_map('seed', items):
                self._account(ops, verdicts, 'search: long random sequences')
            self.notes.append(f'failing-input search ({reason}): widened chain / pipeline / random streams')

    def replay_finding(self, entry):
        w = entry['witness']
        ops, _, verdicts = run_sequence(w['ops'])
        want = entry.get('signature')
        # the entry's own root cause, or anything that is not a listed finding (the witness of one finding may pass
        # through the state of another one)
        hits = [v for v in verdicts if want is None or v[1] == want] or [v for v in verdicts if v[1] not in KNOWN_SIGS]
        if hits:
            i, sig, what = hits[0]
            return fw.Violation(what, {'ops': ops[: i + 1]}, sig)
        return None


if __name__ == '__main__':
    raise SystemExit(fw.run(C11))
