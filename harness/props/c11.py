"""C11 — graph construction API (flow.Worker / Future / Segment) vs lean/ForML/Model/Graph.lean.

A *case* is a sequence of construction calls over a universe of <= 6 nodes.  Every call is executed on the
real forml objects; after every call the harness dumps every node's output subscriptions, every future's
registrations and every worker's input/trained/derived/group, and the exception class/message.  The same
op list goes to the Lean model (`step`), whose state dump is compared textually, call by call.

The oracle does not use the model: it evaluates the five invariants of the statement, atomicity of failing
calls, the error class, the cycle clause and the placeholder clause on the dumped real graph, and (for the
transparency stream) compares the worker-to-worker connections with the path closure of the requested wiring.

Ops (JSON lists): ['mkworker', stateful, szin, szout] ['mkfuture', szin, szout] ['fork', n]
  ['sub', s, j, p, i]  = s[j].subscribe(p[i])      ['train', n, tp, ti, lp, li] = n.train(tp[ti], lp[li])
  ['pub', p, i, s, k]  = p[i].publish(s, Apply(k))  (the publishing side of the port API: a Future subscriber
                         registers the publisher under an Apply-typed index)
  ['segment', h, t|None] = flow.Segment(h, t)      ['validate', h, t|None] = Segment(h, t).accept(Validator())
  oracle-only (not modelled): ['copy', h, t|None] = Segment(h, t).copy()   ['extend', h, t|None, r] = Segment(h, t).extend(r)
    ['compose', ah, at|None, th, tt|None] = flow.Composition(op) with op.compose() = Trunk(Segment(ah, at), Segment(th, tt))
"""
from __future__ import annotations

import collections
import itertools
import multiprocessing
import os
import random
import sys
import typing

from core import framework as fw
from core import sexp

MAXN = 6
KNOWN_SIGS: set = set()  # signatures of the listed findings (set by the check before any worker is forked)
T, L = 0, 1  # port codes: Train 0, Label 1, Apply(i) i+2

MESSAGES = [
    ('Invalid node shape', 'shape'), ('Double subscription', 'double'), ('Apply/Train collision', 'collision'),
    ('Publishing node trained', 'publishing-trained'), ('Future node subscribing', 'future-subscribing'),
    ('Self subscription', 'self'), ('Trained node publishing', 'trained-publishing'),
    ('Stateless node training', 'stateless'), ('Fork train collision', 'fork-train'), ('Cyclic flow', 'cyclic'),
    ('Ambiguous tail', 'ambiguous'), ('Disconnected tail', 'disconnected'), ('Simple head required', 'simple-head'),
    ('Simple tail required', 'simple-tail'), ('Future nodes in segment', 'futures'),
]
KIND_CLASS = {'shape': 'ValueError', 'recursion': 'RecursionError'}  # everything else: TopologyError


# =============================================================================================
# implementation adapter (runs in the parent or in pool workers)
# =============================================================================================
_ENV: dict = {}


def _env():
    if not _ENV:
        repo = os.environ.get('FORML_REPO', '/repo')
        if repo not in sys.path:
            sys.path.insert(0, repo)
        import logging
        logging.disable(logging.CRITICAL)
        sys.unraisablehook = lambda *a: None  # Subscription.__del__ of a node unknown to _PORTS raises AttributeError
        from forml import flow
        from forml.flow._graph import atomic, port, span
        from forml.flow._suite import assembly, clean

        class Stateless(flow.Actor):
            def apply(self, *features):
                return features

        class Stateful(flow.Actor):
            def apply(self, *features):
                return features

            def train(self, features, labels):
                pass

            def get_state(self):
                return b''

            def set_state(self, state):
                pass

        _ENV.update(flow=flow, atomic=atomic, port=port, span=span, clean=clean, assembly=assembly,
                    stateless=Stateless.builder(), stateful=Stateful.builder(),
                    topo=flow.TopologyError)
    return _ENV


def _pcode(p, env) -> int:
    if isinstance(p, env['port'].Train):
        return T
    if isinstance(p, env['port'].Label):
        return L
    return int(p) + 2


class Real:
    """One sequence on the real objects."""

    def __init__(self):
        self.env = _env()
        self.nodes: list = []
        self.ports = self.env['port'].Subscription._PORTS  # pylint: disable=protected-access
        self.saved = dict(self.ports)
        self.ports.clear()

    def close(self):
        # break the reference cycles (worker <-> group, node -> subscription -> node) so that every Subscription
        # dies now (its __del__ touches _PORTS) and not at some later garbage collection
        for n in self.nodes:
            for p in n._output:  # pylint: disable=protected-access
                p._subscriptions.clear()  # pylint: disable=protected-access
            if hasattr(n, '_group'):
                n._group.clear()  # pylint: disable=protected-access
            if hasattr(n, '_input'):
                n._input.clear()  # pylint: disable=protected-access
        self.nodes.clear()
        self.ports.clear()
        self.ports.update(self.saved)

    def idx(self, node) -> int:
        for i, n in enumerate(self.nodes):
            if n is node:
                return i
        return -1

    def dump(self):
        env = self.env
        fut = env['atomic'].Future
        outs = [[[[self.idx(s.node), _pcode(s.port, env)] for s in p] for p in n.output] for n in self.nodes]
        regs = [[i, int(index), self.idx(p._node), p._index]  # pylint: disable=protected-access
                for i, n in enumerate(self.nodes) if isinstance(n, fut)
                for p, index in n._input.items()]  # pylint: disable=protected-access
        workers = [[i, bool(n.trained), bool(n.derived), sorted(self.idx(m) for m in n.group),
                    sorted(_pcode(p, env) for p in n.input)]
                   for i, n in enumerate(self.nodes) if not isinstance(n, fut)]
        return [outs, regs, workers]

    def call(self, op):
        """Execute one op; returns the result record ['ok'] | ['node', i] | ['err', kind] and the exception class."""
        env = self.env
        flow, nodes = env['flow'], self.nodes
        try:
            k = op[0]
            if k == 'mkworker':
                nodes.append(flow.Worker(env['stateful'] if op[1] else env['stateless'], op[2], op[3]))
                return ['node', len(nodes) - 1], None
            if k == 'mkfuture':
                nodes.append(flow.Future(op[1], op[2]))
                return ['node', len(nodes) - 1], None
            if k == 'fork':
                nodes.append(nodes[op[1]].fork())
                return ['node', len(nodes) - 1], None
            if k == 'sub':
                nodes[op[1]][op[2]].subscribe(nodes[op[3]][op[4]])
                return ['ok'], None
            if k == 'pub':
                nodes[op[1]][op[2]].publish(nodes[op[3]], env['port'].Apply(op[4]))
                return ['ok'], None
            if k == 'compose':
                ah, at, th, tt = op[1:5]

                class Source(flow.Operator):
                    def compose(self, scope):  # pylint: disable=unused-argument
                        return flow.Trunk(flow.Segment(nodes[ah], None if at is None else nodes[at]),
                                          flow.Segment(nodes[th], None if tt is None else nodes[tt]))

                comp = env['assembly'].Composition(Source())
                return ['comp', [self.idx(comp.apply._head), self.idx(comp.apply._tail)],  # pylint: disable=protected-access
                        [self.idx(comp.train._head), self.idx(comp.train._tail)]], None  # pylint: disable=protected-access
            if k == 'train':
                nodes[op[1]].train(nodes[op[2]][op[3]], nodes[op[4]][op[5]])
                return ['ok'], None
            if k in ('segment', 'validate'):
                seg = flow.Segment(nodes[op[1]], None if op[2] is None else nodes[op[2]])
                if k == 'validate':
                    seg.accept(env['clean'].Validator())
                return ['node', self.idx(seg._tail)], None  # pylint: disable=protected-access
            if k == 'copy':
                seg = flow.Segment(nodes[op[1]], None if op[2] is None else nodes[op[2]])
                copies = env['span'].Traversal(seg._head).copy(seg._tail)  # pylint: disable=protected-access
                for c in copies.values():
                    if self.idx(c) < 0:
                        nodes.append(c)
                return ['ok'], None
            if k == 'extend':
                seg = flow.Segment(nodes[op[1]], None if op[2] is None else nodes[op[2]])
                new = seg.extend(nodes[op[3]])
                return ['node', self.idx(new._tail)], None  # pylint: disable=protected-access
            raise fw.MachineryError(f'unknown op {op}')
        except fw.MachineryError:
            raise
        except Exception as e:  # pylint: disable=broad-except
            msg = str(e)
            cls = type(e)
            kind = next((kd for prefix, kd in MESSAGES if msg.startswith(prefix)), None)
            if kind is None:
                kind = 'recursion' if cls is RecursionError else f'class:{cls.__name__}'
            topo = issubclass(cls, env['topo'])
            name = 'TopologyError' if topo else cls.__name__
            del e
            return ['err', kind], name


# =============================================================================================
# oracle (spec-shaped, on the dumped real graph only)
# =============================================================================================
def _is_worker(dump, n) -> bool:
    return any(w[0] == n for w in dump[2])


def _edges(dump):
    """[(pub, out, sub, code)] of the dumped graph."""
    return [(n, i, s[0], s[1]) for n, outs in enumerate(dump[0]) for i, p in enumerate(outs) for s in p]


def invariants(dump) -> list[tuple[str, str]]:
    """The five invariants of the statement; returns [(signature, what)]."""
    bad = []
    edges = _edges(dump)
    workers = {w[0]: w for w in dump[2]}
    # I1 every input port has at most one (worker) publisher
    pubs: dict = {}
    for n, i, s, c in edges:
        if n in workers:
            pubs.setdefault((s, c), set()).add((n, i))
    shared = collections.Counter((r[0], r[1]) for r in dump[1])
    for (s, c), ps in pubs.items():
        if len(ps) > 1:
            # root cause D12: one placeholder input port with several registered publishers (each of them is
            # connected to every subscriber of that port); anything else is a different defect
            sig = 'I1-two-publishers-shared-future-port' if any(v > 1 for v in shared.values()) else 'I1-two-publishers'
            bad.append((sig, f'input port {c} of node {s} has {len(ps)} publishers {sorted(ps)}'))
            break
    # I2 no node feeds itself
    for n, i, s, c in edges:
        if n == s:
            bad.append(('I2-self-loop', f'node {n} feeds itself'))
            break
    # I3 apply xor train (by topology and by Worker.input)
    for w in workers.values():
        codes = {c for _, _, s, c in edges if s == w[0]} | set(w[4])
        if any(c >= 2 for c in codes) and any(c < 2 for c in codes):
            bad.append(('I3-apply-and-train', f'worker {w[0]} is subscribed on ports {sorted(codes)}'))
            break
    # I4 at most one trained member per group (by topology and by Worker.trained)
    trained = {w[0] for w in workers.values() if w[1]} | {s for _, _, s, c in edges if c < 2}
    for w in workers.values():
        members = [m for m in w[3] if m in trained]
        if len(members) > 1:
            bad.append(('I4-group-trained-twice', f'group {w[3]} has trained members {members}'))
            break
    # I5 trained workers publish nothing
    for n in sorted(trained):
        if any(p for p in dump[0][n]):
            bad.append(('I5-trained-publishes', f'trained worker {n} publishes'))
            break
    return bad


def _succ(dump, n, trained):
    """mapper subscribers of n (trained workers are not part of the apply flow)."""
    return {s for p in dump[0][n] for s, _ in p if s not in trained}


def cycle_from(dump, head) -> bool:
    """Is a subscription cycle reachable from head (through non-trained subscribers)?"""
    trained = {w[0] for w in dump[2] if w[1]}
    colour: dict = {}

    def dfs(n):
        colour[n] = 1
        for m in _succ(dump, n, trained):
            if colour.get(m) == 1 or (m not in colour and dfs(m)):
                return True
        colour[n] = 2
        return False

    return dfs(head)


def reachable(dump, head) -> set:
    trained = {w[0] for w in dump[2] if w[1]}
    seen, todo = {head}, [head]
    while todo:
        for m in _succ(dump, todo.pop(), trained):
            if m not in seen:
                seen.add(m)
                todo.append(m)
    return seen


def judge(op, res, cls, before, after) -> list[tuple[str, str]]:
    """All oracle clauses for one call. `before`/`after` are dumps; returns [(signature, what)]."""
    out = []
    route = op[0] if op[0] in ('copy', 'extend') else 'future' if _touches_future(op, before) else 'direct'
    if res[0] == 'err' and op[0] == 'copy':
        return out  # a failing copy leaves forks behind in the worker groups; only successful copies are judged
    if res[0] == 'err':
        if cls not in ('TopologyError', 'ValueError', 'AssertionError'):  # AssertionError: port index out of shape
            out.append((f'error-class-{cls}', f'{op} raised {cls} instead of the topology error'))
        # Segment.extend = subscribe, then trace: when the tracing refuses the result (cycle, ambiguous or
        # non-simple tail) the subscription that did not break any invariant legitimately stays
        traced = op[0] == 'extend' and res[1] in ('cyclic', 'ambiguous', 'disconnected', 'simple-head', 'simple-tail')
        if before != after and not traced:
            stage = ''
            if op[0] == 'train' and route == 'direct':
                stage = '-label-stage'
            sig = 'not-atomic-future-route' if route == 'future' else f'not-atomic-{op[0]}-direct{stage}'
            out.append((sig, f'{op} raised {res[1]} but changed the graph'))
    for sig, what in invariants(after):
        if not any(s == sig for s, _ in invariants(before)):
            # (the shared-placeholder-port root cause is the same whatever call delivers the subscriber)
            full = sig if sig == 'I1-two-publishers-shared-future-port' else f'{sig}-{route}'
            out.append((full, f'after {op} ({res}): {what}'))
    if op[0] == 'compose' and res[0] == 'comp':
        # "a composition still containing placeholders is refused": each path on its own
        for path, (h, tl) in (('apply', res[1]), ('train', res[2])):
            if h >= 0 and not _is_worker(after, h) and tl != h:
                aliased = tl >= 0 and len(after[0][h]) == len(after[0][tl]) > 0 and after[0][h] == after[0][tl]
                sig = 'placeholder-accepted-head-aliases-tail' if aliased else f'composition-placeholder-accepted-{path}'
                out.append((sig, f'{op} accepted a composition whose {path} segment is headed by a Future'))
    if op[0] in ('segment', 'validate'):
        h, t = op[1], op[2]
        if res[0] == 'node':
            if t is None and cycle_from(after, h):
                out.append(('cycle-not-rejected', f'{op} succeeded although a cycle is reachable from {h}'))
            if t is None and res[1] not in reachable(after, h):
                out.append(('tail-not-reachable', f'{op} returned tail {res[1]} not reachable from {h}'))
            if op[0] == 'validate' and not _is_worker(after, h) and res[1] != h:
                # (a Future that is head and tail at once is ignored by design: 'Potential tail Future node is ignored')
                tl = res[1]
                aliased = len(after[0][h]) == len(after[0][tl]) > 0 and after[0][h] == after[0][tl]
                sig = 'placeholder-accepted-head-aliases-tail' if aliased else 'placeholder-accepted'
                out.append((sig, f'{op} accepted a segment headed by a Future'))
    return out


def _touches_future(op, dump) -> bool:
    if op[0] in ('sub', 'pub'):
        ns = [op[1], op[3]]
    elif op[0] == 'train':
        ns = [op[1], op[2], op[4]]
    else:
        return False
    if any(n < len(dump[0]) and not _is_worker(dump, n) for n in ns):
        return True
    # a worker publisher/subscriber that is (transitively) registered on a placeholder
    return False


# =============================================================================================
# generator (online: consults the dumped real state to aim 70 % of the calls at legal ones)
# =============================================================================================
def _shapes(dump, real):
    return [(n.szin, n.szout) for n in real.nodes]


def gen_op(rng: random.Random, real: Real, dump, last_failed, extra_ops: bool, allow_regcycle: bool):
    nodes = real.nodes
    n = len(nodes)
    fut = real.env['atomic'].Future
    workers = [i for i, x in enumerate(nodes) if not isinstance(x, fut)]
    futures = [i for i, x in enumerate(nodes) if isinstance(x, fut)]
    winfo = {w[0]: w for w in dump[2]}

    def mk():
        r = rng.random()
        if r < 0.25:
            k = rng.choice([1, 1, 2])
            return ['mkfuture', k, k]
        if r < 0.45 and workers:
            return ['fork', rng.choice(workers + futures)]
        szin, szout = rng.choice([(1, 1), (1, 1), (1, 1), (2, 1), (1, 2), (0, 1), (1, 0), (2, 2)])
        return ['mkworker', rng.random() < 0.6, szin, szout]

    if n < 3 or (n < MAXN and rng.random() < 0.12):
        if rng.random() < 0.04:
            return ['mkworker', True, 0, 0]  # invalid shape
        return mk()
    if last_failed is not None and rng.random() < 0.25:
        return last_failed  # retry after a failure
    legal = rng.random() < 0.7
    r = rng.random()

    def out_idx(p):
        return rng.randrange(nodes[p].szout) if nodes[p].szout else 0

    def in_idx(s):
        return rng.randrange(nodes[s].szin) if nodes[s].szin else 0

    def api(op):
        """the same connection through either side of the port API"""
        return ['pub', op[3], op[4], op[1], op[2]] if rng.random() < 0.4 else op

    def regcycle(f, p):
        """would registering p on f close a registration cycle among futures?"""
        if p == f:
            return True
        up = {}
        for r_ in dump[1]:
            up.setdefault(r_[0], set()).add(r_[2])
        seen, todo = set(), [p]
        while todo:
            x = todo.pop()
            for y in up.get(x, ()):
                if y == f:
                    return True
                if y not in seen:
                    seen.add(y)
                    todo.append(y)
        return False

    if extra_ops and r < 0.10:
        return ['copy', rng.randrange(n), None if rng.random() < 0.7 else rng.randrange(n)]
    if extra_ops and r < 0.22:
        return ['extend', rng.randrange(n), None if rng.random() < 0.7 else rng.randrange(n), rng.randrange(n)]
    if extra_ops and r < 0.36:
        # a composition with a placeholder (that has subscribers) heading exactly one of the two paths, or random paths
        fheads = [f for f in futures if any(dump[0][f])]
        wheads = [w for w in workers if nodes[w].szin <= 1 and not winfo[w][1]]
        if fheads and wheads and rng.random() < 0.6:
            f, w = rng.choice(fheads), rng.choice(wheads)
            return ['compose', w, None, f, None] if rng.random() < 0.5 else ['compose', f, None, w, None]
        return ['compose', rng.randrange(n), None if rng.random() < 0.7 else rng.randrange(n),
                rng.randrange(n), None if rng.random() < 0.7 else rng.randrange(n)]
    if r < 0.14:
        h = rng.randrange(n)
        t = None if rng.random() < 0.6 else rng.randrange(n)
        return [rng.choice(['segment', 'segment', 'validate']), h, t]
    if r < 0.32 and workers:
        # train
        if legal:
            cands = [w for w in workers
                     if not winfo[w][4] and not any(dump[0][w]) and not any(winfo[m][1] for m in winfo[w][3])]
            pubs = [p for p in range(n) if p in futures or (not winfo[p][1] and nodes[p].szout)]
            if cands and pubs:
                w = rng.choice(cands)
                tp, lp = rng.choice(pubs), rng.choice(pubs)
                return ['train', w, tp, out_idx(tp), lp, out_idx(lp)]
        w = rng.choice(workers)
        pubs = [p for p in range(n) if nodes[p].szout]
        if pubs:
            tp, lp = rng.choice(pubs), rng.choice(pubs)
            return ['train', w, tp, out_idx(tp), lp, out_idx(lp)]
    # subscribe
    if legal:
        for _ in range(8):
            s = rng.randrange(n)
            p = rng.randrange(n)
            if s == p or not nodes[p].szout or not nodes[s].szin:
                continue
            if p in workers and winfo[p][1]:
                continue
            j = in_idx(s)
            if s in workers:
                if winfo[s][1] or (j + 2) in winfo[s][4]:
                    continue
            else:
                if any(r_[0] == s and r_[1] == j for r_ in dump[1]) or regcycle(s, p):
                    continue
            return api(['sub', s, j, p, out_idx(p)])
    for _ in range(20):
        s, p = rng.randrange(n), rng.randrange(n)
        if not nodes[p].szout or not nodes[s].szin:
            continue
        if s in futures and not allow_regcycle and regcycle(s, p):
            continue
        return api(['sub', s, in_idx(s), p, out_idx(p)])
    return ['segment', rng.randrange(n), None]


def run_sequence(ops_or_seed, length: int = 0, extra_ops: bool = False, allow_regcycle: bool = False):
    """Run a fixed op list, or generate `length` ops online from a seed.
    Returns (ops, records, verdicts): records = [[res, outs, regs, workers]], verdicts = [(i, sig, what)]."""
    real = Real()
    try:
        fixed = not isinstance(ops_or_seed, int)
        rng = None if fixed else random.Random(ops_or_seed)
        ops, records, verdicts = [], [], []
        before = real.dump()
        last_failed = None
        total = len(ops_or_seed) if fixed else length
        for i in range(total):
            op = ops_or_seed[i] if fixed else gen_op(rng, real, before, last_failed, extra_ops, allow_regcycle)
            res, cls = real.call(op)
            after = real.dump()
            ops.append(op)
            records.append([res] + after)
            # the first failing call is the witness, what follows may be a consequence of it; listed findings do
            # not stop the judging (a later, different failure of the same sequence must still be reported)
            if all(v[1] in KNOWN_SIGS for v in verdicts):
                for sig, what in judge(op, res, cls, before, after):
                    if not any(v[1] == sig for v in verdicts):
                        verdicts.append((i, sig, what))
            last_failed = op if res[0] == 'err' else None
            before = after
        return ops, records, verdicts
    finally:
        real.close()


def _batch(args):
    kind, items = args
    out = []
    for it in items:
        if kind == 'seed':
            seed, length, extra, regc = it
            ops, recs, verd = run_sequence(seed, length, extra, regc)
            out.append((ops, sexp.dumps(recs), verd))
        elif kind == 'final':
            ops, recs, verd = run_sequence(it)
            out.append((ops, sexp.dumps([[r[0] for r in recs], recs[-1][1:]]), verd))
        else:
            ops, recs, verd = run_sequence(it)
            out.append((ops, sexp.dumps(recs), verd))
    return out


def op_sexp(op):
    return [('none' if x is None else x) for x in op]


# =============================================================================================
# the check
# =============================================================================================
CORPUS = [
    # D12: two publishers registered on one future port, then a subscriber
    [['mkworker', False, 1, 1], ['mkworker', False, 1, 1], ['mkfuture', 1, 1], ['mkworker', False, 1, 1],
     ['sub', 2, 0, 0, 0], ['sub', 2, 0, 1, 0], ['sub', 3, 0, 2, 0]],
    # D13: label publish fails after the train publish succeeded
    [['mkworker', True, 1, 1], ['mkworker', False, 1, 1], ['train', 0, 1, 0, 0, 0]],
    # failing call routed through a placeholder keeps the registration / the dangling subscription
    [['mkworker', False, 1, 1], ['mkfuture', 1, 1], ['sub', 1, 0, 0, 0], ['sub', 0, 0, 1, 0]],
    [['mkworker', True, 1, 1], ['mkworker', False, 1, 1], ['mkfuture', 1, 1], ['mkworker', False, 1, 1],
     ['sub', 2, 0, 0, 0], ['train', 0, 1, 0, 1, 0], ['sub', 3, 0, 2, 0]],
    # a chain of placeholders wired through the publishing API, then calls refused deep in the chain (self, trained)
    [['mkworker', True, 1, 1], ['mkfuture', 1, 1], ['mkfuture', 1, 1], ['mkworker', False, 1, 1],
     ['pub', 0, 0, 1, 0], ['pub', 1, 0, 2, 0], ['sub', 0, 0, 2, 0], ['pub', 2, 0, 0, 0], ['sub', 3, 0, 2, 0],
     ['train', 0, 2, 0, 3, 0], ['pub', 1, 0, 1, 0], ['pub', 2, 0, 2, 0]],
    [['mkworker', False, 1, 1], ['mkfuture', 2, 2], ['mkfuture', 2, 2], ['mkworker', False, 2, 1],
     ['pub', 0, 0, 1, 1], ['pub', 1, 1, 2, 0], ['sub', 3, 0, 2, 0], ['sub', 3, 1, 2, 1], ['sub', 0, 0, 2, 0],
     ['pub', 2, 0, 0, 0]],
    # a placeholder registered on itself: RecursionError
    [['mkworker', False, 1, 1], ['mkfuture', 1, 1], ['sub', 0, 0, 1, 0], ['sub', 1, 0, 1, 0]],
    # chains of placeholders, both orders
    [['mkworker', False, 1, 1], ['mkfuture', 1, 1], ['mkfuture', 1, 1], ['mkworker', False, 1, 1],
     ['sub', 3, 0, 2, 0], ['sub', 2, 0, 1, 0], ['sub', 1, 0, 0, 0], ['segment', 0, None], ['validate', 1, None]],
    [['mkworker', False, 1, 1], ['mkfuture', 1, 1], ['mkfuture', 1, 1], ['mkworker', False, 1, 1],
     ['sub', 1, 0, 0, 0], ['sub', 2, 0, 1, 0], ['sub', 3, 0, 2, 0], ['segment', 0, 3], ['segment', 0, 2]],
    # cycle, diamond (ambiguous), disconnected, simple head/tail
    [['mkworker', False, 1, 1], ['mkworker', False, 1, 1], ['sub', 1, 0, 0, 0], ['sub', 0, 0, 1, 0],
     ['segment', 0, None], ['segment', 0, 1], ['validate', 0, None]],
    [['mkworker', False, 1, 2], ['mkworker', False, 1, 1], ['mkworker', False, 1, 1], ['mkworker', False, 2, 1],
     ['sub', 1, 0, 0, 0], ['sub', 2, 0, 0, 1], ['sub', 3, 0, 1, 0], ['sub', 3, 1, 2, 0],
     ['segment', 0, None], ['segment', 0, 3], ['segment', 3, None], ['segment', 1, 2], ['segment', 1, 0]],
    # train / fork rules
    [['mkworker', True, 1, 1], ['fork', 0], ['mkworker', False, 1, 1], ['train', 0, 2, 0, 2, 0],
     ['train', 1, 2, 0, 2, 0], ['sub', 2, 0, 0, 0], ['sub', 0, 0, 2, 0], ['sub', 1, 0, 2, 0], ['train', 2, 1, 0, 1, 0],
     ['segment', 2, None], ['validate', 2, 1]],
    [['mkworker', True, 0, 0], ['mkworker', True, 1, 1], ['mkworker', False, 1, 1], ['sub', 0, 0, 1, 0],
     ['train', 0, 1, 0, 1, 0], ['sub', 0, 0, 1, 0], ['sub', 1, 0, 0, 0], ['train', 0, 1, 0, 1, 0]],
]


# sequences with calls that are not modelled (oracle only)
ORACLE_CORPUS = [
    # a composition with a placeholder heading exactly one path (train, then apply), then a clean one
    [['mkworker', False, 0, 1], ['mkworker', False, 1, 1], ['sub', 1, 0, 0, 0], ['mkfuture', 1, 1],
     ['mkworker', False, 1, 1], ['sub', 3, 0, 2, 0], ['compose', 0, None, 2, None], ['compose', 2, None, 0, None],
     ['compose', 0, None, 0, 1], ['compose', 2, 2, 0, None]],
    # a lone placeholder path is accepted by design; a placeholder in the middle is collapsed away
    [['mkworker', False, 0, 1], ['mkfuture', 1, 1], ['mkworker', False, 1, 1], ['compose', 0, None, 1, None],
     ['sub', 1, 0, 0, 0], ['sub', 2, 0, 1, 0], ['compose', 0, None, 0, 2], ['compose', 1, None, 0, None]],
]


class C11(fw.Check):
    ID = 'C11'
    LEAN_MODULES = ['ForML.Props.C11']
    DRIVER = 'drv_c11'
    RULE = ('op sequences over a universe of <= 6 nodes (workers 1:1/2:1/1:2/2:2/0:1/1:0 stateful or not, forks, futures '
            '1:1/2:2): create/fork, s[j].subscribe(p[i]) or p[i].publish(s, Apply(j)) (either side of the port API), n.train(a[i], b[k]), Segment(h[,t]), Segment.accept(Validator); '
            'generated online against the real graph: 70 % of the calls are aimed at legal ones, 30 % uniformly random '
            '(mostly illegal), failed calls are retried with probability 1/4; hand-written corpus and the witnesses of '
            'findings.d first; thorough adds every sequence of <= 4 state-changing calls from a 22-call alphabet on a fixed '
            '4-node universe (all results + final state compared). Transparency stream: random legal wirings through 1..3 '
            'futures executed in several (thorough: up to all) orders, worker-to-worker connections compared with the path '
            'closure of the requested wiring. Oracle-only stream (not modelled): Segment.copy, Segment.extend, flow.Composition over Trunk(apply, train) '
            'with a placeholder heading exactly one path, cycles of '
            'placeholders. Every call of every sequence is one evaluation; a sequence is distinct by its op list and '
            'non-trivial when it contains at least three kinds of calls.')
    TRUSTED = [
        'Python object identity and uuid4 are modelled by list indices; Subscription.__del__ / GC driven clean-up of '
        '_PORTS is not modelled (all nodes are kept alive during a sequence, _PORTS is cleared/restored around it)',
        'Node.__eq__/__hash__ Future/Worker aliasing inside sets of Traversal is modelled as the code computes it '
        '(eqNode/memNode)',
        'the Publisher-collision check of Future.register (same proxy object registered twice) is not reachable '
        'through node[i] (a fresh proxy per call) and is not modelled',
        'Future._collapse re-publishes every (registered publisher, held subscription) pair; the model forwards the '
        'new subscription only (re-publishing an already published pair is a no-op in every reachable state)',
        'the model follows the code with fixes/C11-atomic-topology-errors.diff applied',
    ]
    ASSUMPTIONS = ['port indices are within the node shape (Node._publish asserts the output index; input indices are '
                   'not validated by forml at construction time) - out-of-shape indices are exercised by the oracle-only '
                   'stream through Segment.extend only',
                   'futures are square (szin == szout), as created by forml itself']

    def __init__(self, tier, seed):
        super().__init__(tier, seed)
        KNOWN_SIGS.clear()
        KNOWN_SIGS.update(e['signature'] for e in fw._load_findings(self.ID)  # pylint: disable=protected-access
                          if e.get('status') == 'finding')

    # ---- plumbing ---------------------------------------------------------------------------
    def _pool_map(self, kind, items, chunk=200):
        chunks = [(kind, items[i:i + chunk]) for i in range(0, len(items), chunk)]
        if len(items) < 400:
            return [r for c in chunks for r in _batch(c)]
        procs = min(14, max(2, (os.cpu_count() or 4) - 2))
        ctx = multiprocessing.get_context('fork')
        with ctx.Pool(procs, maxtasksperchild=20) as pool:
            return [r for rs in pool.map(_batch, chunks) for r in rs]

    def _account(self, ops, verdicts, stream):
        """Feed evidence + turn oracle verdicts into violations (witness = the op prefix)."""
        for i, sig, what in verdicts:
            self.violate(what, {'ops': ops[: i + 1]}, sig)
        nerr = len({i for i, s, _ in verdicts if s.startswith('not-atomic')})
        kinds = sorted({op[0] for op in ops})
        self.evaluations += len(ops) - 1
        self.case(tuple(map(tuple, ops)), f'{stream} len={min(len(ops), 16)}',
                  nontrivial=len(kinds) >= 3, sample={'ops': ops[:10]} if nerr == 0 and len(self.samples) < 6 else None)

    def _compare(self, results, mode, stream):
        """results = [(ops, real_text, verdicts)] ; model comparison is textual, parsed only on a mismatch."""
        lines = [sexp.dumps([mode] + [op_sexp(op) for op in ops]) for ops, _, _ in results]
        answers = self.model(lines)
        for (ops, real, verdicts), ans in zip(results, answers):
            self._account(ops, verdicts, stream)
            if ans == real:
                continue
            self._explain(ops, real, ans, mode)

    def _explain(self, ops, real, ans, mode):
        try:
            r, m = sexp.num(sexp.loads(real)), sexp.num(sexp.loads(ans))
        except ValueError:
            self.diverge('model answer unparsable', {'ops': ops}, real[:200], ans[:200])
            return
        if mode == 'seqf':
            rr, mr = r[0], m[0] if isinstance(m, list) and m else m
            if self._res_differs(rr, mr) or r[1] != m[1]:
                self.diverge('results / final state', {'ops': ops}, r, m)
            return
        if not isinstance(m, list) or len(m) != len(r):
            self.diverge('model answer shape', {'ops': ops}, len(r), m if not isinstance(m, list) else len(m))
            return
        for i, (a, b) in enumerate(zip(r, m)):
            if self._res_differs([a[0]], [b[0]]) or a[1:] != b[1:]:
                self.diverge(f'state after call {i} {ops[i]}', {'ops': ops[: i + 1]}, a, b)
                return

    @staticmethod
    def _res_differs(rr, mr) -> bool:
        if len(rr) != len(mr):
            return True
        for a, b in zip(rr, mr):
            if a == b:
                continue
            # an unknown message of the implementation: compare the exception class only
            if a[0] == 'err' and b[0] == 'err' and str(a[1]).startswith('class:'):
                if a[1][6:] == KIND_CLASS.get(b[1], 'TopologyError') or (a[1][6:] == 'Cyclic' and b[1] == 'cyclic'):
                    continue
            return True
        return False

    # ---- streams ------------------------------------------------------------------------------
    def _corpus(self):
        res = self._pool_map('fixed', CORPUS + [e['witness']['ops'] for e in fw._load_findings(self.ID)  # pylint: disable=protected-access
                                                if isinstance(e.get('witness'), dict) and 'ops' in e['witness']])
        self._compare(res, 'seq', 'corpus')

    def _random(self):
        nseq = self.n(2000, 24000)
        items = [(self.rng.getrandbits(48), self.rng.choice([8, 10, 12, 14, 16]), False, False) for _ in range(nseq)]
        self._compare(self._pool_map('seed', items), 'seq', 'random')

    def _oracle_only(self):
        """Segment.copy / Segment.extend (not modelled) and registration cycles among futures: oracle only."""
        nseq = self.n(300, 3000)
        items = [(self.rng.getrandbits(48), self.rng.choice([8, 12, 16]), True, True) for _ in range(nseq)]
        for ops, _, verdicts in self._pool_map('fixed', ORACLE_CORPUS) + self._pool_map('seed', items):
            self._account(ops, verdicts, 'oracle-only(copy/extend/compose/reg-cycles)')

    def _exhaustive(self):
        universe = [['mkworker', True, 1, 1], ['mkworker', False, 1, 1], ['mkfuture', 1, 1], ['fork', 0]]
        # (the future registering itself, a registration cycle, is a corpus case: tracing calls made after it end in
        # Python's RecursionError inside Future.subscribed, which the model does not follow)
        alphabet = [['sub', s, 0, p, 0] for s in range(4) for p in range(4) if (s, p) != (2, 2)]
        alphabet += [['pub', 1, 0, 2, 0], ['pub', 2, 0, 3, 0], ['pub', 2, 0, 0, 0]]
        alphabet += [['train', 0, 1, 0, 1, 0], ['train', 0, 2, 0, 1, 0], ['train', 3, 1, 0, 2, 0], ['train', 0, 1, 0, 0, 0]]
        probes = [['segment', 1, None], ['validate', 2, None]]
        depth = self.n(2, 4)
        items = []
        for k in range(1, depth + 1):
            for seq in itertools.product(alphabet, repeat=k):
                items.append(universe + list(seq) + probes)
        self.notes.append(f'exhaustive: {len(items)} sequences of <= {depth} calls over {len(alphabet)} calls on 4 nodes')
        res = self._pool_map('final', items, chunk=1500)
        self._compare(res, 'seqf', f'exhaustive<= {depth}')

    # -- transparency: any number of futures, any order -------------------------------------------
    def _wiring(self, rng):
        """A legal wiring: workers + 1..3 futures (1:1), links pub->sub with futures in between, acyclic, every
        future port and every worker input port with a single publisher."""
        nw, nf = rng.randint(2, 4), rng.randint(1, 3)
        if nw + nf > MAXN:
            nw = MAXN - nf
        creates = [['mkworker', False, 1, 1] for _ in range(nw)] + [['mkfuture', 1, 1] for _ in range(nf)]
        order = list(range(nw + nf))
        rng.shuffle(order)  # topological order: links only go forward
        rank = {n: i for i, n in enumerate(order)}
        links = []
        for s in range(nw + nf):
            cands = [p for p in range(nw + nf) if rank[p] < rank[s]]
            if cands and rng.random() < 0.85:
                links.append((rng.choice(cands), s))
        return creates, links, nw

    @staticmethod
    def _closure(links, nw):
        """worker-to-worker connections of the direct wiring (futures substituted away)."""
        up: dict = {}
        for p, s in links:
            up.setdefault(s, set()).add(p)

        def sources(n):
            return {n} if n < nw else {w for p in up.get(n, ()) for w in sources(p)}

        return sorted({(w, s) for p, s in links if s < nw for w in sources(p)})

    def _transparency(self):
        nw_cases = self.n(150, 1500)
        jobs, meta = [], []
        for _ in range(nw_cases):
            creates, links, nw = self._wiring(self.rng)
            if not links:
                continue
            perms = list(itertools.permutations(links))
            if len(perms) > self.n(4, 24):
                perms = [tuple(self.rng.sample(links, len(links))) for _ in range(self.n(4, 24))]
            for perm in perms:
                jobs.append(creates + [['sub', s, 0, p, 0] if self.rng.random() < 0.6 else ['pub', p, 0, s, 0]
                                       for p, s in perm])
                meta.append((links, nw))
        res = self._pool_map('fixed', jobs)
        self._compare(res, 'seq', 'transparency')
        for (ops, real, _), (links, nw) in zip(res, meta):
            recs = sexp.num(sexp.loads(real))
            final = recs[-1]
            got = sorted({(n, s[0]) for n, outs in enumerate(final[1]) if n < nw for p in outs for s in p})
            want = self._closure(links, nw)
            failed = [i for i, r in enumerate(recs) if r[0][0] == 'err']
            if failed:
                self.violate(f'legal wiring through placeholders: call {ops[failed[0]]} failed ({recs[failed[0]][0]})',
                             {'ops': ops[: failed[0] + 1]}, 'transparency-legal-call-fails')
            elif got != want:
                self.violate(f'wiring through placeholders gives connections {got}, the direct wiring is {want}',
                             {'ops': ops}, 'transparency-edges-differ')

    def correspondence(self):
        self._corpus()
        self._random()
        self._transparency()
        self._exhaustive()
        self._oracle_only()

    # ---- search / replay ------------------------------------------------------------------------
    def search(self, reason):
        """Widen around the diverging sequences: random continuations of their prefixes, oracle on the real code."""
        seeds = [d.case['ops'] for d in self.divergences if isinstance(d.case, dict) and 'ops' in d.case][:20]
        tried = 0
        for ops in seeds:
            for _ in range(40):
                cut = self.rng.randrange(max(1, len(ops) - 3), len(ops) + 1)
                real = Real()
                try:
                    before = real.dump()
                    trace = []
                    rng = random.Random(self.rng.getrandbits(48))
                    for i in range(cut + 6):
                        op = ops[i] if i < cut else gen_op(rng, real, before, None, False, True)
                        res, cls = real.call(op)
                        after = real.dump()
                        trace.append(op)
                        for sig, what in judge(op, res, cls, before, after):
                            self.violate(what, {'ops': list(trace)}, sig)
                        before = after
                finally:
                    real.close()
                tried += 1
        self.notes.append(f'failing-input search ({reason}): {tried} continuations of {len(seeds)} diverging prefixes')

    def replay_finding(self, entry):
        w = entry['witness']
        ops, _, verdicts = run_sequence(w['ops'])
        want = entry.get('signature')
        hits = [v for v in verdicts if want is None or v[1] == want] or verdicts
        if hits:
            i, sig, what = hits[0]
            return fw.Violation(what, {'ops': ops[: i + 1]}, sig)
        return None


if __name__ == '__main__':
    raise SystemExit(fw.run(C11))
