"""Shared pipeline-expression generator over the real forml operator library (used by C03, C04, C12).

Everything here drives the *real* forml code; forml is imported lazily (the framework puts $FORML_REPO on
sys.path only inside `framework.run`).

AST (plain nested lists = S-expressions, the same text is sent to the Lean drivers)

    actor ::= [tag, stateful]                        tag: int, unique per actor *builder*; stateful: bool
    slot  ::= 'none' | actor
    expr  ::= ['wrap', label_slot, apply_slot, train_slot]       wrap.Operator.{label,apply,train,mapper}; slots with
                                                                 the same tag share one builder (= one worker group)
            | ['mapreduce', [actor, ...], reducer_tag]           payload.MapReduce(*mappers, reducer=...)
            | ['debug', apply_actor, train_actor]                payload.Dump(apply=..., train=...)  (transparent)
            | ['stack', [expr, ...], nsplits, splitter_tag, appender_tag, stacker_tag, reducer_tag]
                                                                 ensemble.FullStack(*bases, splitter=..., nsplits=...)
            | ['seq', left, right]                               left >> right  (explicit parenthesisation)
            | ['custom', actor]                                  operator written against the public composition API
                                                                 (docs/workflow/operator.rst `StatefulMapper`); same meaning
                                                                 as ['wrap', 'none', actor, actor] (see `to_library`)

Provenance terms (nested tuples built by the symbolic actors, `to_sexp` gives the canonical list form)

    ('input', n) | ('apply', tag, state|None, (args...)) | ('state', tag, prev|None, features, labels)
    | ('proj', i, term)

API summary
    Gen(rng)                      .expr(nleaves, ...) / .leaf(...)  random ASTs;  enumerate_exprs(...) exhaustive ASTs
    build(ast)                    -> real flow.Composable (fresh operator instances every call)
    source()                      -> io._input.extract.Operator yielding ('input',0) / ('input',1) / ('input',2)
    composition(ast)              -> flow.Composition(source(), build(ast))
    compile_segment(seg, assets)  -> Compiled(symbols, index)   (index: node uid / gid -> instruction)
    interpret(symbols)            -> {instruction: value}   memoising reference interpreter
    run_composition(comp)         -> Result(train, apply, states, persistent, stats)  (train run, then apply run fed
                                     with the states the train run produced, keyed by gid)
    Assets(states)                asset.State double (by gid)
    isolated()                    context manager: snapshot/restore Subscription._PORTS and Compound._TERMS
    run_batch(func, items, ...)   fork-pool runner, worker processes recycled every `recycle` items
    to_sexp(term), Interner       canonical forms / hash-consing of terms
    leaves(ast), tags(ast), shape(ast), tree_size(term)
"""
from __future__ import annotations

import collections
import contextlib
import itertools
import multiprocessing
import os
import sys
import typing

NONE = 'none'

# --------------------------------------------------------------------------------------------------
# symbolic actors
# --------------------------------------------------------------------------------------------------
_CACHE: dict = {}


def actors():
    """(Stateful, Stateless) symbolic actor classes (created once, after forml is importable)."""
    if 'actors' in _CACHE:
        return _CACHE['actors']
    from forml import flow

    class _Sym(flow.Actor):
        """Native actor whose outputs are provenance terms."""

        def __init__(self, tag: int, szout: int = 1, path=None):  # `path` only to satisfy payload.Dump
            self.tag = tag
            self.szout = szout
            self.path = path
            self.state = None

        def apply(self, *args):
            out = ('apply', self.tag, self.state, tuple(args))
            if self.szout == 1:
                return out
            return tuple(('proj', i, out) for i in range(self.szout))

        def get_params(self):
            return {}

        def set_params(self, **params):
            pass

    class Stateful(_Sym):
        def train(self, features, labels, /):
            self.state = ('state', self.tag, self.state, features, labels)

        def get_state(self):
            return self.state

        def set_state(self, state):
            self.state = state

    class Stateless(_Sym):
        pass

    class Source(flow.Actor):
        """0-in / 1-out source actor."""

        def __init__(self, n: int):
            self.n = n

        def apply(self, *args):
            assert not args
            return ('input', self.n)

    class Labels(flow.Actor):
        """Label extractor 1-in / 2-out: (train features, labels)."""

        def apply(self, raw):
            assert raw == ('input', -1)
            return ('input', 1), ('input', 2)

    assert Stateful.is_stateful() and not Stateless.is_stateful()
    _CACHE['actors'] = (Stateful, Stateless)
    _CACHE['source'] = (Source, Labels)
    return _CACHE['actors']


def actor_builder(actor, szout: int = 1, **kwargs):
    """flow.Builder of the symbolic actor described by the AST `actor` = [tag, stateful]."""
    tag, stateful = actor
    Stateful, Stateless = actors()
    cls = Stateful if stateful else Stateless
    if szout != 1:
        kwargs['szout'] = szout
    return cls.builder(tag=int(tag), **kwargs)


INPUT_APPLY, INPUT_TRAIN, INPUT_LABEL = ('input', 0), ('input', 1), ('input', 2)


def source():
    """Source operator with worker heads (a plain operator as source leaves Futures behind)."""
    from forml.io._input import extract

    actors()
    Source, Labels = _CACHE['source']
    return extract.Operator(Source.builder(0), Source.builder(-1), Labels.builder())


# --------------------------------------------------------------------------------------------------
# AST -> real operators
# --------------------------------------------------------------------------------------------------
def _wrap_operator(lab, app, trn):
    """Operator class produced through the public decorators of `wrap.Operator`; slots with the same tag
    are routed through the decorator-chaining path (inner operator's Origin builder is reused)."""
    from forml.pipeline import wrap

    Stateful, Stateless = actors()
    slots = [('label', lab), ('apply', app), ('train', trn)]
    groups: dict = collections.OrderedDict()
    for name, a in slots:
        if a == NONE:
            continue
        groups.setdefault((int(a[0]), bool(a[1])), []).append(name)
    if not groups:
        raise ValueError('empty wrap operator')
    cls = None
    for (tag, stateful), names in groups.items():
        actor = Stateful if stateful else Stateless
        if names == ['apply', 'train']:
            cls = (cls or wrap.Operator).mapper(actor, tag=tag)
            continue
        first = True
        for name in names:
            if first:
                cls = getattr(cls or wrap.Operator, name)(actor, tag=tag)  # new builder, becomes Origin
                first = False
            else:
                cls = getattr(wrap.Operator, name)(cls)  # chained: reuses cls.Origin
    return cls


def build(ast):
    """Fresh real composable for the AST."""
    from forml.pipeline import ensemble, payload

    kind = ast[0]
    if kind == 'wrap':
        return _wrap_operator(ast[1], ast[2], ast[3])()
    if kind == 'mapreduce':
        return payload.MapReduce(*(actor_builder(a) for a in ast[1]), reducer=actor_builder([ast[2], False]))
    if kind == 'debug':
        return payload.Dump(apply=actor_builder(ast[1], path='dump-$mode-$seq'), train=actor_builder(ast[2], path='dump-$mode-$seq'))
    if kind == 'stack':
        _, bases, nsplits, splitter, appender, stacker, reducer = ast
        return ensemble.FullStack(
            *(build(b) for b in bases),
            splitter=actor_builder([splitter, True], szout=2 * int(nsplits)),
            nsplits=int(nsplits),
            appender=actor_builder([appender, False]),
            stacker=actor_builder([stacker, False]),
            reducer=actor_builder([reducer, False]),
        )
    if kind == 'seq':
        return build(ast[1]) >> build(ast[2])
    if kind == 'custom':
        return _custom_mapper()(actor_builder(ast[1]))
    raise ValueError(f'unknown expression kind {kind!r}')


def _custom_mapper():
    """Mapper operator implemented directly on the public composition API, as documented in
    docs/workflow/operator.rst (`StatefulMapper`); a stateless actor is simply not trained."""
    if 'custom' in _CACHE:
        return _CACHE['custom']
    from forml import flow

    class ApiMapper(flow.Operator):
        def __init__(self, actor_builder):
            self._actor_builder = actor_builder

        def compose(self, scope):
            preceding = scope.expand()
            mapper_trainmode_train = flow.Worker(self._actor_builder, 1, 1)
            mapper_trainmode_apply = mapper_trainmode_train.fork()
            mapper_applymode_apply = mapper_trainmode_train.fork()
            if self._actor_builder.actor.is_stateful():
                mapper_trainmode_train.train(preceding.train.publisher, preceding.label.publisher)
            return preceding.extend(mapper_applymode_apply, mapper_trainmode_apply)

    _CACHE['custom'] = ApiMapper
    return ApiMapper


def to_library(ast):
    """The same expression with every API-level operator replaced by the library operator of equal meaning
    (what the Lean model and the oracles are given)."""
    k = ast[0]
    if k == 'custom':
        return ['wrap', NONE, list(ast[1]), list(ast[1])]
    if k == 'seq':
        return ['seq', to_library(ast[1]), to_library(ast[2])]
    if k == 'stack':
        return ['stack', [to_library(b) for b in ast[1]]] + list(ast[2:])
    return ast


def composition(ast):
    from forml import flow

    return flow.Composition(source(), build(ast))


# --------------------------------------------------------------------------------------------------
# compile + reference interpreter
# --------------------------------------------------------------------------------------------------
class Assets:
    """`asset.State` double: states by gid (what flow.compile needs: __contains__, offset, load, dump, commit)."""

    def __init__(self, states: typing.Optional[dict] = None, order: typing.Sequence = ()):
        self.states = dict(states or {})
        self.order = list(order) or list(self.states)
        self.dumped: list = []
        self.committed = None

    def __contains__(self, gid) -> bool:
        return gid in self.states

    def offset(self, gid) -> int:
        return self.order.index(gid)

    def load(self, gid):
        return self.states[gid]

    def dump(self, state):
        self.dumped.append(state)
        return len(self.dumped) - 1

    def commit(self, states):
        self.committed = tuple(states)


class Compiled(typing.NamedTuple):
    symbols: tuple
    index: dict  # node uid / gid -> instruction


def compile_segment(segment, assets=None) -> Compiled:
    """`flow.compile` keeping the key->instruction index (to find the tail's and the trainers' instructions)."""
    from forml.flow._code import compiler

    from forml import flow

    table = compiler.Table(assets)
    segment.accept(table)
    index = dict(table._index._instructions)  # pylint: disable=protected-access
    try:
        symbols = tuple(table)
    except AssertionError:
        # a segment consisting of the source worker alone has no linkage at all and `Table.__iter__` asserts
        # 'Not acyclic' (degenerate pipeline: nothing on this path); it is a single argument-less instruction
        if len(set(index.values())) != 1:
            raise
        symbols = (flow.Symbol(next(iter(index.values())), ()),)
    return Compiled(symbols, index)


def interpret(symbols) -> dict:
    """Memoising reference interpreter: every instruction is executed exactly once, arguments first."""
    up = {s.instruction: s.arguments for s in symbols}
    memo: dict = {}

    def ev(instr):
        # explicit stack (deep pipelines would otherwise hit the recursion limit)
        stack = [instr]
        while stack:
            top = stack[-1]
            if top in memo:
                stack.pop()
                continue
            pending = [a for a in up[top] if a not in memo]
            if pending:
                stack.extend(pending)
                continue
            memo[top] = top(*[memo[a] for a in up[top]])
            stack.pop()
        return memo[instr]

    for s in symbols:
        ev(s.instruction)
    return memo


def tail_value(segment, compiled: Compiled, values: dict):
    """Value published by the segment's tail. A tail that is still a Future (nothing was appended to the
    source's segment, `Composition` tolerates that) is looked through to its registered publisher."""
    from forml import flow

    node, index = segment._tail, 0  # pylint: disable=protected-access
    while isinstance(node, flow.Future):
        (pub,) = tuple(node._input)  # pylint: disable=protected-access
        node, index = pub._node, pub._index  # pylint: disable=protected-access
    value = values[compiled.index[node.uid]]
    return value if node.szout == 1 else value[index]


class Result(typing.NamedTuple):
    train: typing.Any  # train-mode output term (tail of the train segment)
    apply: typing.Any  # apply-mode output term, states loaded = the ones produced by the train run
    states: list  # [(tag, state term)] of every trained worker of the train segment (visit order)
    persistent: list  # actor tags of Composition.persistent (gid order), C04 uses it
    stats: dict


def node_tag(node) -> int:
    """Tag of the symbolic actor behind a worker (source workers: 0)."""
    return int(node.builder.kwargs.get('tag', 0))


def segment_workers(segment) -> list:
    from forml import flow

    seen = []

    class V(flow.Visitor):
        def visit_node(self, node):
            seen.append(node)

    segment.accept(V())
    return seen


def run_composition(comp, prior: typing.Optional[dict] = None) -> Result:
    """Train run (fresh, or re-training on `prior` states by gid), then apply run with the produced states."""
    train_nodes = segment_workers(comp.train)
    apply_nodes = segment_workers(comp.apply)
    tassets = Assets(prior or {}, list(comp.persistent)) if prior else None
    ctrain = compile_segment(comp.train, tassets)
    tvals = interpret(ctrain.symbols)
    train_out = tail_value(comp.train, ctrain, tvals)
    states, by_gid = [], {}
    for node in train_nodes:
        if node.trained:
            st = tvals[ctrain.index[node.uid]]
            states.append((node_tag(node), st))
            by_gid[node.gid] = st
    persistent = list(comp.persistent)
    aassets = Assets({g: by_gid[g] for g in persistent if g in by_gid}, persistent)
    capply = compile_segment(comp.apply, aassets)
    avals = interpret(capply.symbols)
    apply_out = tail_value(comp.apply, capply, avals)
    groups = collections.Counter(n.gid for n in train_nodes + apply_nodes)
    stats = {
        'train_workers': len(train_nodes),
        'apply_workers': len(apply_nodes),
        'trained': len(states),
        'groups': len(groups),
        'shared_nodes': len({n.uid for n in train_nodes} & {n.uid for n in apply_nodes}),
        'missing_states': sorted(str(g) for g in persistent if g not in by_gid),
    }
    tag_of = {n.gid: node_tag(n) for n in train_nodes + apply_nodes}
    return Result(train_out, apply_out, states, [tag_of[g] for g in persistent], stats)


# --------------------------------------------------------------------------------------------------
# process hygiene
# --------------------------------------------------------------------------------------------------
@contextlib.contextmanager
def isolated():
    """Snapshot/restore the process-global registries that graph construction fills and never empties
    (`Subscription._PORTS` degrades quadratically because all 1:1 nodes share one hash)."""
    from forml.flow._graph import port
    from forml.flow._suite import member

    ports = port.Subscription._PORTS  # pylint: disable=protected-access
    terms = member.Compound._TERMS  # pylint: disable=protected-access
    saved_ports = {k: set(v) for k, v in ports.items()}
    saved_terms = dict(terms)
    try:
        yield
    finally:
        # NB: _PORTS holds the nodes strongly, so the graphs of this case die only now; Subscription.__del__ then
        # trips over the missing key (AttributeError printed by CPython's unraisable hook) -> see quiet()
        ports.clear()
        ports.update(saved_ports)
        terms.clear()
        terms.update(saved_terms)


def _quiet_unraisable(unraisable):
    """`Subscription.__del__` raises AttributeError when its node is no longer registered; CPython prints such
    errors to stderr. Anything else is passed on."""
    if isinstance(unraisable.exc_value, AttributeError) and 'discard' in str(unraisable.exc_value):
        return
    sys.__unraisablehook__(unraisable)


def quiet() -> None:
    """Install the unraisable-hook filter in this process (pure observation, forml is not patched)."""
    sys.unraisablehook = _quiet_unraisable


def _chunk_worker(payload):
    func, chunk = payload
    quiet()
    out = []
    for item in chunk:
        try:
            with isolated():
                out.append(func(item))
        except Exception as err:  # pylint: disable=broad-except
            out.append(('exception', type(err).__name__, str(err)[:300]))
    return out


def run_batch(func: typing.Callable, items: typing.Sequence, procs: typing.Optional[int] = None, chunk: int = 25,
              recycle: int = 8) -> list:
    """Map `func` (module-level, picklable) over `items` in forked worker processes; every worker is recycled
    after `recycle` chunks of `chunk` items; each item runs inside `isolated()`. Order is preserved. An exception
    in `func` yields ('exception', class name, message) for that item."""
    items = list(items)
    if not items:
        return []
    procs = procs or min(12, max(1, (os.cpu_count() or 2) - 2))
    chunks = [(func, items[i:i + chunk]) for i in range(0, len(items), chunk)]
    if procs == 1 or len(items) <= chunk:
        return [r for c in chunks for r in _chunk_worker(c)]
    actors()  # import forml once in the parent: forked (and recycled) workers inherit it
    ctx = multiprocessing.get_context('fork')
    with ctx.Pool(processes=min(procs, len(chunks)), maxtasksperchild=recycle) as pool:
        return [r for part in pool.imap(_chunk_worker, chunks) for r in part]


# --------------------------------------------------------------------------------------------------
# terms
# --------------------------------------------------------------------------------------------------
def to_sexp(term):
    """Canonical list form of a provenance term (None -> 'none'); iterative-safe for deep terms."""
    if term is None:
        return NONE
    kind = term[0]
    if kind == 'input':
        return ['input', term[1]]
    if kind == 'apply':
        return ['apply', term[1], to_sexp(term[2]), [to_sexp(a) for a in term[3]]]
    if kind == 'state':
        return ['state', term[1], to_sexp(term[2]), to_sexp(term[3]), to_sexp(term[4])]
    if kind == 'proj':
        return ['proj', term[1], to_sexp(term[2])]
    raise ValueError(f'not a provenance term: {term!r:.80}')


class Interner:
    """Hash-consing of provenance terms (tuples) and of their list forms: equal terms <-> equal ids.
    Shared sub-objects are visited once (memo by object identity), so exponentially large *trees* that are small
    DAGs stay cheap."""

    def __init__(self):
        self.table: dict = {}
        self.sizes: list = []
        self._memo: dict = {}
        self._keep: list = []

    def _mk(self, key, size):
        i = self.table.get(key)
        if i is None:
            i = self.table[key] = len(self.sizes)
            self.sizes.append(size)
        return i

    def id(self, term) -> int:
        if term is None or term == NONE:
            return self._mk(('none',), 1)
        m = self._memo.get(id(term))
        if m is not None:
            return m
        kind = term[0]
        if kind == 'input':
            r = self._mk(('input', int(term[1])), 1)
        elif kind == 'apply':
            st = self.id(term[2])
            args = tuple(self.id(a) for a in term[3])
            r = self._mk(('apply', int(term[1]), st, args), 1 + self.sizes[st] + sum(self.sizes[a] for a in args))
        elif kind == 'state':
            p, x, y = self.id(term[2]), self.id(term[3]), self.id(term[4])
            r = self._mk(('state', int(term[1]), p, x, y), 1 + self.sizes[p] + self.sizes[x] + self.sizes[y])
        elif kind == 'proj':
            v = self.id(term[2])
            r = self._mk(('proj', int(term[1]), v), 1 + self.sizes[v])
        else:
            raise ValueError(f'not a provenance term: {term!r:.80}')
        self._memo[id(term)] = r
        self._keep.append(term)  # keep alive: ids are only unique among live objects
        return r

    def size(self, term) -> int:
        """Size of the term as a tree."""
        return self.sizes[self.id(term)]


def tree_size(term) -> int:
    return Interner().size(term)


# --------------------------------------------------------------------------------------------------
# AST utilities and generators
# --------------------------------------------------------------------------------------------------
def leaves(ast) -> int:
    """Number of operator leaves (bases of a stack count too)."""
    if ast[0] == 'seq':
        return leaves(ast[1]) + leaves(ast[2])
    if ast[0] == 'stack':
        return 1 + sum(leaves(b) for b in ast[1])
    return 1


def shape(ast) -> str:
    """Short shape key for histograms: constructor skeleton without tags."""
    k = ast[0]
    if k == 'seq':
        return f'({shape(ast[1])}>{shape(ast[2])})'
    if k == 'wrap':
        def s(slot):
            return '-' if slot == NONE else ('S' if slot[1] else 's')
        shared = ast[2] != NONE and ast[3] != NONE and ast[2][0] == ast[3][0]
        return f'w[{s(ast[1])}{s(ast[2])}{s(ast[3])}{"=" if shared else ""}]'
    if k == 'mapreduce':
        return 'mr[' + ''.join('S' if a[1] else 's' for a in ast[1]) + ']'
    if k == 'debug':
        return 'dbg'
    if k == 'custom':
        return 'api[' + ('S' if ast[1][1] else 's') + ']'
    if k == 'stack':
        return f'stk{ast[2]}[' + ','.join(shape(b) for b in ast[1]) + ']'
    raise ValueError(k)


def kinds(ast) -> set:
    if ast[0] == 'seq':
        return kinds(ast[1]) | kinds(ast[2])
    if ast[0] == 'stack':
        return {'stack'}.union(*(kinds(b) for b in ast[1]))
    return {ast[0]}


def retag(ast, counter=None):
    """Copy of the AST with tags renumbered 1.. in traversal order (sharing inside one wrap operator preserved)."""
    counter = counter or itertools.count(1)
    k = ast[0]
    if k == 'seq':
        left = retag(ast[1], counter)
        return ['seq', left, retag(ast[2], counter)]
    if k == 'wrap':
        m: dict = {}
        out = ['wrap']
        for slot in ast[1:4]:
            if slot == NONE:
                out.append(NONE)
            else:
                if slot[0] not in m:
                    m[slot[0]] = next(counter)
                out.append([m[slot[0]], bool(slot[1])])
        return out
    if k == 'mapreduce':
        ms = [[next(counter), bool(a[1])] for a in ast[1]]
        return ['mapreduce', ms, next(counter)]
    if k == 'debug':
        return ['debug', [next(counter), bool(ast[1][1])], [next(counter), bool(ast[2][1])]]
    if k == 'custom':
        return ['custom', [next(counter), bool(ast[1][1])]]
    if k == 'stack':
        tags = [next(counter) for _ in range(4)]
        return ['stack', [retag(b, counter) for b in ast[1]], int(ast[2])] + tags
    raise ValueError(k)


# wrap-operator leaf templates: (label, apply, train) with 'a'/'b'/'c' naming builders, upper-case = stateful
WRAP_TEMPLATES = {
    'mapper': ('-', 'a', 'a'), 'apply': ('-', 'a', '-'), 'train': ('-', '-', 'a'), 'label': ('a', '-', '-'),
    'label+mapper': ('a', 'b', 'b'), 'label+apply': ('a', 'b', '-'), 'label+train': ('a', '-', 'b'),
    'apply+train': ('-', 'a', 'b'), 'label+apply+train': ('a', 'b', 'c'),
    'label=apply': ('a', 'a', '-'), 'label=mapper': ('a', 'a', 'a'), 'label=train': ('a', '-', 'a'),
}
BASIC_WRAPS = ['mapper', 'apply', 'train', 'label']


def wrap_leaf(template: str, stateful: typing.Sequence[bool]):
    """Leaf from a template; `stateful[i]` is the flavour of the i-th distinct builder (tags are placeholders 1..)."""
    names: dict = {}
    out = ['wrap']
    for ch in WRAP_TEMPLATES[template]:
        if ch == '-':
            out.append(NONE)
        else:
            if ch not in names:
                names[ch] = len(names)
            i = names[ch]
            out.append([i + 1, bool(stateful[i])])
    return out


def wrap_leaves(templates: typing.Iterable[str] = tuple(BASIC_WRAPS)) -> list:
    """All wrap leaves of the given templates x stateful/stateless flavours of each builder."""
    out = []
    for t in templates:
        n = len({c for c in WRAP_TEMPLATES[t] if c != '-'})
        for flags in itertools.product([True, False], repeat=n):
            out.append(wrap_leaf(t, flags))
    return out


def parenthesisations(items: typing.Sequence) -> typing.Iterator:
    """All binary `seq` trees over the ordered leaf sequence (Catalan many)."""
    if len(items) == 1:
        yield items[0]
        return
    for i in range(1, len(items)):
        for left in parenthesisations(items[:i]):
            for right in parenthesisations(items[i:]):
                yield ['seq', left, right]


def enumerate_exprs(nleaves: int, alphabet: typing.Sequence) -> typing.Iterator:
    """Every sequence of `nleaves` leaves from the alphabet x every parenthesisation (tags renumbered)."""
    for seq in itertools.product(alphabet, repeat=nleaves):
        for tree in parenthesisations(list(seq)):
            yield retag(tree)


class Gen:
    """Random expression generator; all randomness from the supplied `random.Random`."""

    def __init__(self, rng, stack: bool = True, mapreduce: bool = True, debug: bool = True, exotic: bool = True):
        self.rng = rng
        self.allow_stack = stack
        self.allow_mapreduce = mapreduce
        self.allow_debug = debug
        self.exotic = exotic

    def actor(self, stateful: typing.Optional[bool] = None):
        return [0, self.rng.random() < 0.6 if stateful is None else stateful]

    def leaf(self, budget: int = 1, depth: int = 0):
        """One operator leaf; a stack may consume up to `budget` leaves for its bases."""
        rng = self.rng
        r = rng.random()
        if self.allow_stack and budget >= 2 and depth < 2 and r < 0.2:
            nb = rng.choice([1, 1, 2]) if budget >= 3 else 1
            sizes = [1] * nb
            for _ in range(min(budget - 1 - nb, rng.choice([0, 0, 1, 2]))):
                sizes[rng.randrange(nb)] += 1
            bases = [self.expr(s, depth + 1, stack=depth < 1) for s in sizes]
            return ['stack', bases, rng.choice([2, 2, 3]), 0, 0, 0, 0]
        if self.allow_mapreduce and 0.2 <= r < 0.3:
            return ['mapreduce', [self.actor() for _ in range(rng.choice([1, 2, 2, 3]))], 0]
        if self.allow_debug and 0.3 <= r < 0.38:
            return ['debug', self.actor(), self.actor(True)]
        names = list(WRAP_TEMPLATES) if self.exotic and rng.random() < 0.25 else BASIC_WRAPS + ['mapper', 'mapper', 'label+mapper']
        t = rng.choice(names)
        n = len({c for c in WRAP_TEMPLATES[t] if c != '-'})
        return wrap_leaf(t, [rng.random() < 0.65 for _ in range(n)])

    def expr(self, nleaves: int, depth: int = 0, stack: bool = True):
        """Random tree with `nleaves` leaves: random split points = random parenthesisation."""
        saved = self.allow_stack
        self.allow_stack = saved and stack
        try:
            tree = self._tree(nleaves, depth)
        finally:
            self.allow_stack = saved
        return retag(tree) if depth == 0 else tree

    def _tree(self, n: int, depth: int):
        if n == 1:
            return self.leaf(1, depth)
        if n >= 2 and self.allow_stack and self.rng.random() < 0.15:
            return self.leaf(n, depth)
        k = self.rng.randint(1, n - 1)
        return ['seq', self._tree(k, depth), self._tree(n - k, depth)]
