"""C03 <-> C01 bridge, executable tie: the train / apply segments of the real `flow.Composition(source, expr)` exported
from the live objects, and the model's `toSegment` (driver op `bridge`), both brought to one canonical form.

Canonical form (independent of uids, gids and of the order in which subscriptions were made - the compiled table does
not depend on the visit order, theorem C01_order_irrelevant): a worker is described by its actor tag, statefulness,
shape, whether it is trained and, per input port, the port kind / index, the publisher's output port and the
description of the publisher (a DAG hash: the provenance of the node); a segment by the multiset of its member
descriptions, head, tail, the partition into groups (multiset of member descriptions per group) and the groups trained
elsewhere; `Composition.persistent` by the list of group descriptions in list order.
"""
from __future__ import annotations

import hashlib

SRC_APPLY, SRC_TRAIN, SRC_LABEL = 901, 902, 903  # actor symbols given to the model for the three source actors


def _h(obj) -> str:
    return hashlib.sha1(repr(obj).encode()).hexdigest()[:16]


def canon_segment(workers, edges, head, tail, elsewhere) -> dict:
    """workers: [(uid, gid, tag, stateful, szin, szout)], edges: [(pub, pubPort, sub, kind 'a'|'t'|'l', idx)]."""
    by_uid = {w[0]: w for w in workers}
    ins: dict = {u: [] for u in by_uid}
    dangling = 0
    for pub, pport, sub, kind, idx in edges:
        if sub in ins and pub in by_uid:
            ins[sub].append((kind, int(idx), int(pport), pub))
        else:
            dangling += 1
    memo: dict = {}

    def desc(u):
        # iterative post-order (deep pipelines)
        stack = [u]
        while stack:
            top = stack[-1]
            if top in memo:
                stack.pop()
                continue
            pending = [p for _, _, _, p in ins[top] if p not in memo]
            if pending:
                stack.extend(pending)
                continue
            _, _, tag, stateful, szin, szout = by_uid[top]
            ports = sorted((k, i, pp, memo[p]) for k, i, pp, p in ins[top])
            memo[top] = _h((int(tag), bool(stateful), int(szin), int(szout), ports))
            stack.pop()
        return memo[u]

    for u in by_uid:
        desc(u)
    groups: dict = {}
    for u, w in by_uid.items():
        groups.setdefault(w[1], []).append(memo[u])
    gdesc = {g: _h(sorted(ms)) for g, ms in groups.items()}
    return {
        'nodes': sorted(memo.values()),
        'head': memo.get(head),
        'tail': memo.get(tail),
        'groups': sorted(gdesc.values()),
        'elsewhere': sorted(gdesc.get(g, f'?{g}') for g in elsewhere),
        'dangling': dangling,
        '_gdesc': gdesc,
    }


# ---- the real code ---------------------------------------------------------------------------------
def _tag(node) -> int:
    tag = node.builder.kwargs.get('tag')
    if tag is not None:
        return int(tag)
    name = node.builder.actor.__name__
    if name == 'Labels':
        return SRC_LABEL
    if name == 'Source':
        return SRC_APPLY if tuple(node.builder.args) == (0,) else SRC_TRAIN
    raise ValueError(f'unknown actor {name}')


def export_segment(segment):
    """(workers, edges, head, tail, elsewhere, gid_of) of a real `flow.Segment`, as `Traversal.each` shows it."""
    from forml import flow
    from forml.flow._graph import port as portmod

    visited: list = []

    class Rec(flow.Visitor):
        def visit_node(self, node):
            visited.append(node)

    segment.accept(Rec())
    idx = {id(n): i for i, n in enumerate(visited)}
    gids: dict = {}
    workers, edges, elsewhere = [], [], []
    for i, n in enumerate(visited):
        g = gids.setdefault(n.gid, len(gids))
        workers.append((i, g, _tag(n), bool(n.stateful), n.szin, n.szout))
        for pi, subs in enumerate(n.output):
            for s in subs:
                j = idx.get(id(s.node))
                if j is None:
                    continue  # beyond the tail / not a member
                kind = 't' if isinstance(s.port, portmod.Train) else 'l' if isinstance(s.port, portmod.Label) else 'a'
                edges.append((i, pi, j, kind, int(s.port)))
        if n.stateful and any(m.trained for m in n.group if id(m) not in idx) and g not in elsewhere:
            elsewhere.append(g)
    node = segment._tail  # pylint: disable=protected-access
    while isinstance(node, flow.Future):  # a tail that is still a Future proxies its publisher
        (pub,) = tuple(node._input)  # pylint: disable=protected-access
        node = pub._node  # pylint: disable=protected-access
    head = idx[id(segment._head)]  # pylint: disable=protected-access
    return workers, edges, head, idx.get(id(node)), elsewhere, gids


def real_segments(comp) -> dict:
    """Canonical train / apply segment of a real composition + its persistent list."""
    out = {}
    gdesc_apply, gids_apply = {}, {}
    for name in ('train', 'apply'):
        workers, edges, head, tail, elsewhere, gids = export_segment(getattr(comp, name))
        c = canon_segment(workers, edges, head, tail, elsewhere)
        if name == 'apply':
            gdesc_apply, gids_apply = c['_gdesc'], gids
        c.pop('_gdesc')
        out[name] = c
    out['persistent'] = [gdesc_apply.get(gids_apply.get(g), '?') for g in comp.persistent]
    return out


# ---- the model -------------------------------------------------------------------------------------
def _seg_from_sexp(x):
    ws, es, head, tail, elsewhere = x
    workers = [(int(u), int(g), int(a), st == 'true', int(i), int(o)) for u, g, a, st, i, o in ws]
    edges = [(int(p), int(pp), int(s), k, int(i)) for p, pp, s, k, i in es]
    return workers, edges, int(head), int(tail), [int(g) for g in elsewhere]


def model_segments(answer) -> dict:
    """The driver's `(bridge ...)` answer (parsed S-expression) in the same canonical form + its checks."""
    if not isinstance(answer, list) or not answer or answer[0] != 'ok':
        return {'error': answer}
    f = {part[0]: part[1:] for part in answer[1:]}
    out = {}
    gdesc_apply = {}
    for name in ('train', 'apply'):
        c = canon_segment(*_seg_from_sexp(f[name][0]))
        if name == 'apply':
            gdesc_apply = c['_gdesc']
        c.pop('_gdesc')
        out[name] = c
    out['persistent'] = [gdesc_apply.get(int(g), '?') for g in f['persistent'][0]]
    names = ('wf-train', 'connected-train', 'assets-train-fresh', 'assets-train-none', 'wf-apply', 'connected-apply', 'assets-apply',
             'bridgeOK')
    out['checks'] = {n: b == 'true' for n, b in zip(names, f['checks'])}
    out['agree'] = f['agree'][0] == 'true'
    return out


def maps_train(ast) -> bool:
    """The expression puts at least one worker on the train path (otherwise the train segment ends in the `Future`
    proxying the label extractor's first output port - a two-output node, not a tail `flow.compile` is specified for)."""
    k = ast[0]
    if k == 'seq':
        return maps_train(ast[1]) or maps_train(ast[2])
    if k == 'wrap':
        return ast[3] != 'none'
    return k in ('mapreduce', 'stack', 'custom')
