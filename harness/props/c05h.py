"""C05, several writers: histories over HANDLES living in PROCESSES.

A *process* is a real forked interpreter (its process-wide caches — TAGS / STATES / ARTIFACTS, every `lru_cache`, any module
level memo — are its own and die with it); a *handle* is one object chain asset.Directory -> Project / Instance (->
Generation -> Release -> Project) created once by `open` and used for every later operation on it, with whatever the
levels memoise (`Level._key` of an implicit release / generation, anything an implementation keeps on the instance).

events   ['open', h, proc, project, release | None, generation | None (, h')]   a new chain in process `proc` (started on
                                                                         demand); with h': on the asset.Directory object of
                                                                         handle h' (same process) instead of a new one
         ['publish', h, name, version, 'file' | 'dir']                   handle.project.put(package of `name`)
         ['begin', h, ordinal, n]                                        accessor = handle.instance.state(n nodes, tag)
         ['dump', h, bytes]                                              sid = accessor.dump(bytes)
         ['commit', h]                                                   accessor.commit(the sids dumped since `begin`)
         ['look', h]                                                     handle.instance.tag, then State.load of every state
         ['die', event, where, cut]                                      the process dies inside that event (all its handles
                                                                         and caches are gone), the history goes on
         ['fault', event, where, e]                                      a transient OSError (c05.FAULT_ERRNOS[e]) is raised
                                                                         once by one of the file-system calls of that event
                                                                         (publish / dump / commit through a handle with an
                                                                         explicit release key); the process lives on

After every event a reader in a *fresh process* lists and reads everything (view) and the raw tree is read.  The tree a
process death can leave is explored by forking the process that is about to perform the operation (the copy has the very
same handle / cache state), killing the copy at the crash point and restoring the tree afterwards.
"""
from __future__ import annotations

import datetime
import os
import pickle
import select
import shutil
import signal
import struct
import time
import uuid

from props import c05

NAMES, VERSIONS = c05.NAMES, c05.VERSIONS
_SID_STRIDE = 1000  # state ids drawn by the n-th process of a history start at n * _SID_STRIDE


# ---------------------------------------------------------------------------------------------------------------
# plumbing: length-prefixed pickles over pipes
# ---------------------------------------------------------------------------------------------------------------
def _send(fd: int, obj) -> None:
    blob = pickle.dumps(obj, protocol=4)
    data = struct.pack('>I', len(blob)) + blob
    while data:
        n = os.write(fd, data)
        data = data[n:]


_TIMEOUT = 300  # seconds a forked process may take to answer (a hung child must not hang the check)


def _recv_exact(fd: int, n: int) -> bytes:
    buf = b''
    while len(buf) < n:
        ready, _, _ = select.select([fd], [], [], _TIMEOUT)
        if not ready:
            raise TimeoutError(f'no answer from a forked process within {_TIMEOUT} s')
        chunk = os.read(fd, n - len(buf))
        if not chunk:
            raise EOFError('peer closed the pipe')
        buf += chunk
    return buf


def _recv(fd: int):
    (n,) = struct.unpack('>I', _recv_exact(fd, 4))
    return pickle.loads(_recv_exact(fd, n))


def fresh_read(root: str):
    """(view, raw tree) as read by a reader in a fresh process (no cache of any kind can have survived)."""
    rfd, wfd = os.pipe()
    pid = os.fork()
    if pid == 0:
        code = 1
        try:
            os.close(rfd)
            _send(wfd, (c05._read_view(root), c05._read_tree(root)))
            code = 0
        except BaseException as exc:  # pylint: disable=broad-except
            try:
                _send(wfd, ('machinery', f'{type(exc).__name__}: {exc}'))
            except BaseException:  # pylint: disable=broad-except
                pass
        finally:
            os._exit(code)
    os.close(wfd)
    try:
        out = _recv(rfd)
    finally:
        os.close(rfd)
        os.waitpid(pid, 0)
    if out and out[0] == 'machinery':
        raise RuntimeError('fresh reader failed: ' + out[1])
    return out


# ---------------------------------------------------------------------------------------------------------------
# a process holding handles
# ---------------------------------------------------------------------------------------------------------------
class _Handle:
    def __init__(self, root: str, proj: int, rel, gen, shared=None, registry=None):
        from forml.io import asset
        from forml.provider.registry.filesystem import posix

        if shared is not None:
            self.registry, self.directory = shared.registry, shared.directory
        else:
            self.registry = registry if registry is not None else posix.Registry(root)
            self.directory = asset.Directory(self.registry)
        self.project = self.directory.get(NAMES[proj])
        self.instance = asset.Instance(NAMES[proj], None if rel is None else c05._ver(rel), gen, self.directory)
        self.accessor = None
        self.sids: list = []


def _perform(root: str, handles: dict, uuids, ev: list, crash_at, cut: bool, registry=None, fault=None):
    """one event on the real code inside the current process -> dict(outcome, calls, look, sid, crashed, hit, ncalls)"""
    from forml.io import asset
    from forml.provider.registry.filesystem import posix

    kind, h = ev[0], ev[1]
    out = {'outcome': 'ok', 'calls': [], 'look': None, 'sid': None, 'crashed': False, 'hit': None, 'ncalls': 0}
    if kind == 'open':
        proj, rel, gen = ev[3:6]
        try:
            handles[h] = _Handle(root, proj, rel, gen, handles.get(ev[6]) if len(ev) > 6 else None, registry)
        except Exception as exc:  # pylint: disable=broad-except
            out['outcome'] = c05._err(exc)
        return out
    handle = handles.get(h)
    if handle is None:
        out['outcome'] = 'dead'
        return out
    rec = c05.Recorder(root, crash_at, cut, fault)
    saved_uuid4 = uuid.uuid4
    saved = {m: getattr(posix.Registry, m) for m in ('write', 'close', 'push')}

    def wrap(method):
        orig = saved[method]

        def wrapper(self, *a, **k):
            rec.begin(method)
            return orig(self, *a, **k)

        return wrapper

    try:
        for m in saved:
            setattr(posix.Registry, m, wrap(m))
        uuid.uuid4 = uuids
        with rec:
            try:
                if kind == 'publish':
                    _, _, name, vidx, pkind = ev
                    handle.project.put(c05._package(NAMES[name], vidx, pkind)[0])
                elif kind == 'begin':
                    _, _, ordinal, n = ev
                    stamp = datetime.datetime(2020, 1, 1) + datetime.timedelta(seconds=ordinal)
                    tag = asset.Tag(training=asset.Tag.Training(stamp, ordinal))
                    handle.accessor = handle.instance.state([uuid.UUID(int=10**6 + i) for i in range(n)], tag)
                    handle.sids = []
                elif kind == 'dump':
                    if handle.accessor is None:
                        out['outcome'] = 'noacc'
                    else:
                        out['sid'] = uuids.next
                        handle.sids.append(handle.accessor.dump(bytes(ev[2])))
                elif kind == 'commit':
                    if handle.accessor is None:
                        out['outcome'] = 'noacc'
                    else:
                        handle.accessor.commit(list(handle.sids))
                elif kind == 'look':
                    tag = handle.instance.tag
                    if tag:
                        nodes = [uuid.UUID(int=10**6 + i) for i in range(len(tag.states))]
                        reader = handle.instance.state(nodes)
                        out['look'] = ['tag', tag.training.ordinal, [s.int for s in tag.states],
                                       [list(reader.load(n)) for n in nodes]]
                    else:
                        out['look'] = 'notag'
                else:
                    raise ValueError(f'unknown event {ev!r}')
            except c05.Crash:
                out['crashed'] = True
            except Exception as exc:  # pylint: disable=broad-except
                out['outcome'] = c05._err(exc)
    finally:
        for m, f in saved.items():
            setattr(posix.Registry, m, f)
        uuid.uuid4 = saved_uuid4
    out['calls'] = rec.calls
    out['hit'], out['ncalls'] = rec.hit, rec.ncalls
    return out


def _child_main(root: str, index: int, rfd: int, wfd: int) -> None:
    c05._clear_caches()
    handles: dict = {}
    uuids = c05._Uuids(index * _SID_STRIDE)
    while True:
        try:
            msg = _recv(rfd)
        except EOFError:
            return
        if msg[0] == 'exit':
            return
        _, ev, crash_at, cut, forked, fault = msg
        if forked:  # a copy of this process (same handles, same caches) performs the event and is gone
            pid = os.fork()
            if pid == 0:
                try:
                    _send(wfd, _perform(root, handles, uuids, ev, crash_at, cut, fault=fault))
                finally:
                    os._exit(0)
            os.waitpid(pid, 0)
            continue
        try:
            reply = _perform(root, handles, uuids, ev, crash_at, cut, fault=fault)
        except BaseException as exc:  # pylint: disable=broad-except
            reply = {'machinery': f'{type(exc).__name__}: {exc}'}
        _send(wfd, reply)


class Proc:
    def __init__(self, root: str, index: int):
        r1, w1 = os.pipe()
        r2, w2 = os.pipe()
        self.pid = os.fork()
        if self.pid == 0:
            try:
                os.close(w1)
                os.close(r2)
                _child_main(root, index, r1, w2)
            finally:
                os._exit(0)
        os.close(r1)
        os.close(w2)
        self.wfd, self.rfd = w1, r2
        self.alive = True

    def do(self, ev, crash_at=None, cut=False, forked=False, fault=None) -> dict:
        _send(self.wfd, ('do', ev, crash_at, cut, forked, fault))
        reply = _recv(self.rfd)
        if 'machinery' in reply:
            raise RuntimeError('writer process failed: ' + reply['machinery'])
        return reply

    def kill(self) -> None:
        if not self.alive:
            return
        self.alive = False
        try:
            _send(self.wfd, ('exit',))
        except OSError:
            pass
        os.close(self.wfd)
        os.close(self.rfd)
        for _ in range(200):
            pid, _ = os.waitpid(self.pid, os.WNOHANG)
            if pid:
                return
            time.sleep(0.01)
        try:
            os.kill(self.pid, signal.SIGKILL)
        except OSError:
            pass
        os.waitpid(self.pid, 0)


def _restore(live: str, snap: str) -> None:
    shutil.rmtree(live)
    shutil.copytree(snap, live)


def _points(atoms) -> list:
    out = []
    for k, op in enumerate(atoms):
        out.append((k, False))
        if op[0] == 'append' and len(op[2]) >= 2:
            out.append((k, True))
    return out


def run_handles(history: list, crash_points=False, only=None) -> dict:
    """The history on the real code.  Per event: outcome, canonical micro-operation trace, the fresh reader's view and the
    raw tree after it; for a `die` event also the view the complete operation would have left.  `crash_points`: True = for
    every writing event every crash point is explored ('commit' / 'publish' / 'dump' = only for those events), each on a
    forked copy of the process that is about to perform it, the tree being restored afterwards; `only` = (i, k, cut)
    restricts that to one point (replay)."""
    root = c05._fresh_root()
    live = os.path.join(root, 'live')
    os.makedirs(live)
    procs: dict = {}
    owner: dict = {}  # handle -> proc
    nproc = 0
    seen: dict = {}

    def read():
        """the raw tree (read here: plain os.walk) and the fresh reader's view of it; the view is a function of the tree,
        so a reader process is forked only for a tree not seen before in this history"""
        tree = c05._read_tree(live)
        key = repr(tree)
        if key not in seen:
            seen[key] = fresh_read(live)[0]
        return seen[key], tree

    view, tree = read()
    res = {'history': history, 'events': [], 'outcomes': [], 'traces': [], 'looks': [], 'views': [view], 'trees': [tree],
           'crashes': [], 'died': {}, 'faulted': {}}

    def skip(ev, die, outcome):
        if ev[0] == 'dump':
            ev = ['dump', ev[1], 0, ev[2]]
        res['events'].append(['die', ev, 0, False, None] if die else ev)
        res['outcomes'].append('died' if die else outcome)
        if die:
            res['died'][len(res['events']) - 1] = {'k': 0, 'cut': False, 'crashed': True, 'completed': 0,
                                                   'complete_view': res['views'][-1], 'base_outcome': outcome}
        res['traces'].append([])
        res['looks'].append(None)
        res['views'].append(res['views'][-1])
        res['trees'].append(res['trees'][-1])

    try:
        for i, item in enumerate(history):
            die = item[0] == 'die'
            faulty = item[0] == 'fault'
            ev = item[1] if die or faulty else item
            h = ev[1]
            if ev[0] == 'open':
                if ev[2] not in procs or not procs[ev[2]].alive:
                    procs[ev[2]] = Proc(live, nproc)
                    nproc += 1
                owner[h] = ev[2]
            proc = procs.get(owner.get(h))
            if proc is None or not proc.alive:
                skip(ev, die, 'dead')
                continue
            writing = ev[0] in ('publish', 'dump', 'commit')
            if faulty and writing:
                snap = os.path.join(root, f'snap{i}')
                shutil.copytree(live, snap)
                base = proc.do(ev, forked=True, fault='log')  # the file-system calls of the operation (on a copy)
                _restore(live, snap)
                shutil.rmtree(snap, ignore_errors=True)
                if base['ncalls']:
                    where, eidx = item[2], item[3] % len(c05.FAULT_ERRNOS)
                    idx = min(int(where * base['ncalls']), base['ncalls'] - 1) if isinstance(where, float) \
                        else min(where, base['ncalls'] - 1)
                    reply = proc.do(ev, fault=(idx, c05.FAULT_ERRNOS[eidx]))
                    hit = reply['hit'] or {'kind': None, 'done': 0, 'lenient': True, 'errno': None, 'index': idx}
                    view, tree = read()
                    full = ['dump', h, base['sid'], ev[2]] if ev[0] == 'dump' else ev
                    if reply['outcome'] == 'ok':  # absorbed: for the model the plain event
                        res['events'].append(full)
                        res['outcomes'].append('ok')
                        res['traces'].append(c05._canon_calls(reply['calls']))
                    else:
                        res['events'].append(['fault', full, hit['done']])
                        res['outcomes'].append('faulted')
                        res['traces'].append(None)
                    res['looks'].append(None)
                    res['views'].append(view)
                    res['trees'].append(tree)
                    res['faulted'][i] = dict(hit, outcome=reply['outcome'], e=eidx)
                    continue
            explore = writing and ((crash_points is True or ev[0] in (crash_points or ())) if only is None else only[0] == i)
            base = complete = None
            if writing and (die or explore):
                snap = os.path.join(root, f'snap{i}')
                shutil.copytree(live, snap)
                base = proc.do(ev, forked=True)  # what the complete operation does (on a copy of the process)
                complete = read()[0]
                _restore(live, snap)
                atoms = c05._atoms(base['calls'])
                canon = c05._canon_calls(base['calls'])
                if explore and not die:
                    for k, cut in _points(atoms):
                        if only is not None and (k, cut) != (only[1], bool(only[2])):
                            continue
                        reply = proc.do(ev, crash_at=k, cut=cut, forked=True)
                        cview, ctree = read()
                        _restore(live, snap)
                        res['crashes'].append({'i': i, 'k': k, 'cut': cut, 'model_cut': c05._model_cut(canon, k) if cut else None,
                                               'crashed': reply['crashed'], 'completed': len(c05._atoms(reply['calls'])),
                                               'view': cview, 'tree': ctree, 'complete_view': complete})
                shutil.rmtree(snap, ignore_errors=True)
            if die:
                _, _, where, cut = item
                if not writing:
                    base = proc.do(ev, forked=True)
                    complete = res['views'][-1]
                atoms = c05._atoms(base['calls'])
                k = min(int(where * len(atoms)), max(len(atoms) - 1, 0)) if isinstance(where, float) else min(where, len(atoms))
                cut = bool(cut) and k < len(atoms) and atoms[k][0] == 'append' and len(atoms[k][2]) >= 2
                mcut = c05._model_cut(c05._canon_calls(base['calls']), k) if cut else None
                reply = proc.do(ev, crash_at=k, cut=cut)
                proc.kill()
                view, tree = read()
                res['events'].append(['die', ['dump', h, base['sid'], ev[2]] if ev[0] == 'dump' else ev, k, cut, mcut])
                res['outcomes'].append('died')
                res['traces'].append(None)
                res['looks'].append(None)
                res['views'].append(view)
                res['trees'].append(tree)
                res['died'][i] = {'k': k, 'cut': cut, 'crashed': reply['crashed'] or k >= len(atoms),
                                  'completed': len(c05._atoms(reply['calls'])), 'complete_view': complete,
                                  'base_outcome': base['outcome']}
                continue
            reply = proc.do(ev)
            view, tree = read()
            res['events'].append(['dump', h, reply['sid'], ev[2]] if ev[0] == 'dump' else ev)
            res['outcomes'].append(reply['outcome'])
            res['traces'].append(c05._canon_calls(reply['calls']))
            res['looks'].append(reply['look'])
            res['views'].append(view)
            res['trees'].append(tree)
    finally:
        for proc in procs.values():
            proc.kill()
        shutil.rmtree(root, ignore_errors=True)
    return res


# ---------------------------------------------------------------------------------------------------------------
# generation
# ---------------------------------------------------------------------------------------------------------------
def train(h: int, ordinal: int, states: list) -> list:
    return [['begin', h, ordinal, len(states)]] + [['dump', h, list(s)] for s in states] + [['commit', h]]


def corpus() -> list:
    s1, s2 = [[1, 2, 3]], [[4], [5, 6]]
    pub = [['open', 0, 0, 0, None, None], ['publish', 0, 0, 1, 'file']]
    return [
        # a long-lived writer (handle 1, process 1) and writers that come and go (fresh process each) take turns
        pub + [['open', 1, 1, 0, 1, None]] + train(1, 1, s2) + [['open', 2, 2, 0, 1, None]] + train(2, 2, s2)
        + train(1, 3, s2) + [['open', 3, 3, 0, 1, None]] + train(3, 4, s1) + train(1, 5, s2) + [['look', 1], ['look', 3]],
        # two long-lived writers in ONE process (shared process-wide caches), alternating
        pub + [['open', 1, 0, 0, 1, None, 0], ['open', 2, 0, 0, 1, None, 0]] + train(1, 1, s1) + train(2, 2, s2) + train(1, 3, s1)
        + train(2, 4, s1) + [['look', 1], ['look', 2]],
        # another writer commits between the dumps and the commit of a training
        pub + [['open', 1, 1, 0, 1, None], ['open', 2, 2, 0, 1, None], ['begin', 1, 1, 2], ['dump', 1, [4]]] + train(2, 2, s1)
        + [['dump', 1, [5, 6]], ['commit', 1]] + train(2, 3, s2) + [['look', 1]],
        # implicit keys: a handle is bound to the release that was the latest when it first looked
        [['open', 0, 0, 0, None, None], ['open', 1, 1, 0, None, None], ['look', 1], ['publish', 0, 0, 1, 'file']] + train(1, 1, s1)
        + [['look', 1], ['publish', 0, 0, 3, 'dir']] + train(1, 2, s2) + [['open', 2, 2, 0, None, None]] + train(2, 3, s1)
        + [['look', 1], ['look', 2]] + train(1, 4, s1) + [['look', 1], ['look', 2]],
        # a writer dies inside a two-state commit (one state moved); a long-lived writer opened before goes on, then a new one
        pub + [['open', 1, 1, 0, 1, None], ['open', 2, 2, 0, 1, None]] + train(1, 1, s1) + train(2, 2, s2)[:-1]
        + [['die', ['commit', 2], 2, False]] + train(1, 3, s2) + [['open', 3, 3, 0, 1, None]] + train(3, 4, s1) + [['look', 1]],
        # ... dies inside the tag write / right before the last rename; its process had a second handle
        pub + [['open', 1, 1, 0, 1, None], ['open', 2, 1, 0, 1, None], ['open', 3, 2, 0, 1, None]] + train(1, 1, s1)[:-1]
        + [['die', ['commit', 1], 4, True]] + train(2, 2, s1) + train(3, 3, s1) + train(3, 4, s2)[:-1]
        + [['die', ['commit', 3], 6, False], ['open', 4, 4, 0, None, None]] + train(4, 5, s1),
        # the same accessor commits again (second commit: nothing staged any more), zero states, wrong number of states
        pub + [['open', 1, 1, 0, 1, None]] + train(1, 1, s1) + [['commit', 1], ['open', 2, 2, 0, 1, None]] + train(2, 2, [])
        + [['commit', 2], ['begin', 1, 3, 2], ['dump', 1, [7]], ['commit', 1], ['dump', 1, [8]], ['commit', 1], ['look', 2]],
        # a handle opened before its project / release exists; publishes through long-lived handles (equal, lower, foreign)
        [['open', 1, 1, 1, 2, None], ['begin', 1, 1, 1], ['dump', 1, [1]], ['look', 1], ['open', 0, 0, 1, None, None],
         ['publish', 0, 1, 2, 'dir'], ['dump', 1, [2]], ['commit', 1], ['publish', 0, 1, 2, 'file'], ['publish', 0, 1, 1, 'file'],
         ['publish', 0, 0, 5, 'file'], ['publish', 0, 1, 4, 'file']] + train(1, 2, s2) + [['look', 1]],
        # transient I/O faults: in the listing scan right before the commit, in a move, in the tag write — the process lives on,
        # another writer commits in between, the commit is tried again; a faulted dump is repeated; a faulted rebuild publish
        pub + [['open', 1, 1, 0, 1, None], ['open', 2, 2, 0, 1, None]] + train(1, 1, s1) + train(1, 2, s2)[:-1]
        + [['fault', ['commit', 1], 0.45, 0]] + train(2, 3, s1) + [['fault', ['commit', 1], 0.9, 2], ['commit', 1], ['begin', 2, 4, 1],
           ['fault', ['dump', 2, [7]], 0.6, 1], ['dump', 2, [7]], ['commit', 2], ['open', 3, 1, 0, 1, None],
           ['fault', ['publish', 3, 0, 3, 'dir'], 0.75, 3], ['publish', 3, 0, 3, 'dir2'], ['look', 1], ['look', 2]],
        # a publisher dies while copying a tree, the REBUILT package is published by another process; explicit generation keys
        [['open', 0, 0, 0, None, None], ['die', ['publish', 0, 0, 1, 'dir'], 7, False], ['open', 1, 1, 0, None, 1],
         ['publish', 1, 0, 1, 'dir2'], ['look', 1]] + train(1, 1, s1) + [['look', 1], ['open', 2, 1, 0, 1, 2], ['look', 2]]
        + train(2, 2, s1) + [['look', 2], ['look', 1]],
    ]


def merges(a: list, b: list):
    """every interleaving of two event lists (each keeps its own order)"""
    if not a or not b:
        yield list(a or b)
        return
    for rest in merges(a[1:], b):
        yield [a[0]] + rest
    for rest in merges(a, b[1:]):
        yield [b[0]] + rest


def exhaustive_interleavings() -> list:
    """every interleaving, at event granularity, of two trainings through a long-lived handle (process 1) with one training
    through a handle of another process; and of one two-state training with a publish of a newer release followed by a
    training through an implicit-release handle"""
    head = [['open', 0, 0, 0, None, None], ['publish', 0, 0, 1, 'file'], ['open', 1, 1, 0, 1, None], ['open', 2, 2, 0, 1, None]]
    a = train(1, 1, [[1]]) + train(1, 2, [[2, 2]])
    b = train(2, 3, [[3]])
    out = [head + m + [['look', 1], ['look', 2]] for m in merges(a, b)]
    head2 = [['open', 0, 0, 0, None, None], ['publish', 0, 0, 1, 'file'], ['open', 1, 1, 0, None, None], ['open', 2, 2, 0, None, None]]
    a2 = train(1, 1, [[1], [2]])
    b2 = [['publish', 0, 0, 3, 'file']] + train(2, 2, [[3]])
    out += [head2 + m + [['look', 1], ['look', 2]] for m in merges(a2, b2)]
    return out


def random_handles(rng) -> list:
    """interleaved activities of long-lived and fresh handles in up to four processes over one or two projects"""
    out: list = []
    projs = rng.sample([0, 1, 2], rng.choice([1, 1, 2]))
    listed = {p: [] for p in projs}  # ranks believed published
    handles: dict = {}  # h -> {'proc', 'proj'}
    alive: set = set()  # process ids alive
    nproc = ndie = nfault = 0
    ordinal = 0
    running: list = []  # [handle, remaining events]

    def new_handle(proj, rel='auto'):
        nonlocal nproc
        h = len(handles)
        if alive and rng.random() < 0.45:
            proc = rng.choice(sorted(alive))
        else:
            proc, nproc = nproc, nproc + 1
            alive.add(proc)
        if rel == 'auto':
            ranks = listed[proj]
            if rng.random() < 0.3 or not ranks:
                rel = None if rng.random() < 0.8 else rng.randrange(len(VERSIONS))
            else:
                rank = rng.choice(ranks)
                alts = [t for t, r in sorted(c05.ALT.items()) if r == rank]
                rel = rng.choice(alts) if alts and rng.random() < 0.15 else rank
        gen = None if rng.random() < 0.85 else rng.randint(1, 3)
        mates = [m for m, d in handles.items() if d['proc'] == proc]
        handles[h] = {'proc': proc, 'proj': proj, 'explicit': rel is not None}
        out.append(['open', h, proc, proj, rel, gen] + ([rng.choice(mates)] if mates and rng.random() < 0.5 else []))
        return h

    def pick(proj):
        mine = [h for h, d in handles.items() if d['proj'] == proj and d['proc'] in alive
                and all(h != r[0] for r in running)]
        if mine and rng.random() < 0.65:
            return rng.choice(mine)
        return new_handle(proj)

    def emit(ev):
        nonlocal ndie, nfault
        h = ev[1]
        if ev[0] in ('publish', 'dump', 'commit') and handles[h]['explicit'] and nfault < 3 and rng.random() < 0.08:
            nfault += 1  # a transient I/O fault: the operation raises, the process lives on and (mostly) tries again
            out.append(['fault', ev, rng.random(), rng.randrange(len(c05.FAULT_ERRNOS))])
            if ev[0] == 'dump' or rng.random() < 0.75:
                out.append(ev)
            return True
        if ev[0] in ('publish', 'dump', 'commit') and ndie < 2 and rng.random() < 0.07:
            ndie += 1
            out.append(['die', ev, rng.random(), rng.random() < 0.3])
            proc = handles[h]['proc']
            alive.discard(proc)
            running[:] = [r for r in running if handles[r[0]]['proc'] != proc]
            return False
        out.append(ev)
        return True

    budget = rng.randint(4, 8)
    while budget > 0 or running:
        if budget > 0 and (not running or rng.random() < 0.55):
            budget -= 1
            proj = rng.choice(projs)
            roll = rng.random()
            if not listed[proj] or roll < 0.2:
                have = listed[proj]
                if rng.random() < 0.8:
                    cand = [v for v in range(len(VERSIONS)) if not have or v > max(have)]
                    vidx = rng.choice(cand) if cand else rng.randrange(len(VERSIONS))
                else:
                    vidx = rng.choice(have) if have and rng.random() < 0.5 else rng.randrange(len(VERSIONS))
                name = proj if rng.random() < 0.92 else rng.choice([0, 1, 2])
                h = pick(proj)
                if emit(['publish', h, name, vidx, rng.choice(['file', 'file', 'dir', 'dir2'])]) \
                        and name == proj and (not have or vidx > max(have)):
                    have.append(vidx)
            elif roll < 0.32:
                cand = [h for h, d in handles.items() if d['proc'] in alive]
                if cand:
                    out.append(['look', rng.choice(cand)])
            else:
                h = pick(proj)
                ordinal += 1
                nstates = rng.choice([0, 1, 1, 2, 2, 3])
                states = [[rng.randrange(256) for _ in range(rng.randint(1, 4))] for _ in range(nstates)]
                running.append([h, train(h, ordinal, states)])
        else:
            r = rng.choice(running)
            n = len(r[1]) if rng.random() < 0.6 else rng.randint(1, len(r[1]))
            for _ in range(n):
                if not emit(r[1].pop(0)):
                    break
            running[:] = [x for x in running if x[1]]
        if len(out) > 40:
            break
    if rng.random() < 0.5:
        cand = [h for h, d in handles.items() if d['proc'] in alive]
        for h in rng.sample(cand, min(2, len(cand))):
            out.append(['look', h])
    return out


# ---------------------------------------------------------------------------------------------------------------
# oracle (spec-shaped, real views only)
# ---------------------------------------------------------------------------------------------------------------
def _gens(view, p, v):
    return sorted(f[3] for f in view if f[0] == 'gen' and f[1] == p and f[2] == v)


def _rels(view, p):
    return sorted(f[2] for f in view if f[0] == 'rel' and f[1] == p and isinstance(f[2], int))


def _plain(view):
    return [f for f in view if not f[0].startswith('latest')]


def judge(chk, r, crash_only=False) -> None:
    """the property on the real views around every event of a handle history; accounts the cases"""
    hist = r['history']
    state: dict = {}  # handle -> spec-level binding
    for i, ev in enumerate(r['events']):
        before, after = r['views'][i], r['views'][i + 1]
        outcome = r['outcomes'][i]
        wit = {'handles': hist[: i + 1], 'crash': None}
        if r.get('registry') == 'volatile':
            wit['registry'] = 'volatile'
        die = ev[0] == 'die'
        op = ev[1] if ev[0] in ('die', 'fault') else ev
        kind, h = op[0], op[1]
        if kind == 'open':
            state[h] = {'proc': op[2], 'proj': op[3], 'rel': None if op[4] is None else c05._rank(op[4]), 'gen': op[5],
                        'cand': set(), 'gencand': {}, 'ord': None, 'n': None, 'data': [], 'seen': None, 'dead': False}
        st = state.get(h)
        for s in state.values():  # an implicit key is bound to what was the latest at some moment of the handle's life
            top = _rels(before, s['proj'])
            if top:
                s['cand'].add(top[-1])
            for v in _rels(before, s['proj']):
                g = _gens(before, s['proj'], v)
                s['gencand'].setdefault(v, set()).add(g[-1] if g else None)
        if outcome in ('dead', 'noacc') or st is None or st['dead']:
            chk.case(('handles', repr(hist[: i + 1])), f'handles: {kind} on a dead handle', nontrivial=False)
            continue
        found = [] if crash_only else list(c05.corrupt_items(after))
        pb, pa = _plain(before), _plain(after)
        missing = [f for f in pb if f not in pa]
        if missing and not crash_only:
            found.append((f'{c05._short(missing[0])} was visible before the {kind} through handle {h} and is changed or gone '
                          f'after it', 'not-append-only'))
        new = [f for f in pa if f not in pb]
        for (p, v) in {(f[1], f[2]) for f in pa if f[0] == 'gen'}:
            nums = _gens(pa, p, v)
            if nums != list(range(1, len(nums) + 1)) and not crash_only:
                found.append((f'generations of {p}/{v} are {nums}', 'generation-gap'))
        if i in r.get('faulted', {}) and r['faulted'][i]['outcome'] != 'ok':
            fd = r['faulted'][i]
            chk.case(('handles-faulted', repr(hist[: i + 1])), f'handles: transient I/O fault inside {kind} ({fd["kind"]} call), '
                     f'history goes on', nontrivial=True, sample={'handles': hist[: i + 1]})
            found = [(f'transient {fd["errno"]} at file-system call {fd["index"]} ({fd["kind"]}, after {fd["done"]} '
                      f'micro-operations) of the {kind} through handle {h}: {what}', sig) for what, sig in found]
            if new or missing:
                found.append((f'transient {fd["errno"]} at file-system call {fd["index"]} ({fd["kind"]}) of the {kind} through '
                              f'handle {h}: it raised ({fd["outcome"]}) but {c05._short((new or missing)[0])} changed for a '
                              f'reader', 'fault-changed-view'))
        elif die:
            kd = r['died'][i]
            chk.case(('handles-died', repr(hist[: i + 1])), f'handles: process death inside {kind}, history goes on', nontrivial=True,
                     sample={'handles': hist[: i + 1]})
            if not kd['crashed']:
                chk.diverge('crash point not reached', wit, kd['completed'], None)
            found = [(f'process death in {kind} (handle {h}) after {ev[2]} micro-operations'
                      + (' (half-way through the write)' if ev[3] else '') + f': {what}', sig)
                     for what, sig in c05.oracle_crash(before, kd['complete_view'], after)]
            for s in state.values():
                if s['proc'] == st['proc']:
                    s['dead'] = True
        elif crash_only:
            pass
        elif outcome != 'ok' or kind in ('open', 'begin', 'dump', 'look'):
            if new:
                found.append((f'{kind} through handle {h} ({outcome}) made {c05._short(new[0])} appear',
                              'failed-step-changed-view' if outcome != 'ok' else 'training-changed-release'))
            if outcome == 'ok' and kind == 'begin':
                st['ord'], st['n'], st['data'] = op[2], op[3], []
            if outcome == 'ok' and kind == 'dump':
                st['data'].append(list(op[3]))
            if outcome == 'ok' and kind == 'look':
                found += _judge_look(st, r['looks'][i], before, h)
        elif kind == 'publish':
            for w, s in c05.oracle_step(['publish', st['proj'], op[2], op[3], op[4]], 'ok', before, after):
                if s == 'publish-wrong-content' and r.get('registry') == 'volatile' \
                        and new == [['rel', op[2], c05._rank(op[3]), 'memory', 'ok']]:
                    continue  # packages are not stored by the volatile registry
                if s in ('release-not-monotonic', 'publish-wrong-content'):
                    found.append((w, s))
        elif kind == 'commit':
            found += _judge_commit(st, pb, new, after, h)
        if not die and ev[0] != 'fault':
            natoms = sum(len(c) for c in (r['traces'][i] or []))
            chk.case(('handles', repr(hist[: i + 1])), f'handles: {kind} -> {outcome}', nontrivial=natoms > 0 or kind == 'look',
                     sample={'handles': hist[: i + 1], 'outcome': outcome})
        for what, sig in found:
            if r.get('registry') == 'volatile':
                what, sig = 'volatile registry: ' + what, sig if sig == 'release-not-monotonic' else 'volatile-' + sig
            chk.violate(what, wit, sig)
    for c in r['crashes']:
        i = c['i']
        ev = r['events'][i]
        chk.case(('handles-crash', repr(hist[: i + 1]), c['k'], c['cut']),
                 f'handles: crash in {ev[0]} ' + ('inside a write' if c['cut'] else 'between operations'), nontrivial=True)
        wit = {'handles': hist[: i + 1], 'crash': [i, c['k'], c['cut']]}
        if not c['crashed']:
            chk.diverge('crash point not reached', wit, c['completed'], None)
        for what, sig in c05.oracle_crash(r['views'][i], c['complete_view'], c['view']):
            chk.violate(f'process death in {ev[0]} (handle {ev[1]}) after {c["k"]} micro-operations'
                        + (' (half-way through the write)' if c['cut'] else '') + f': {what}', wit, sig)


def _judge_commit(st, pb, new, after, h) -> list:
    out = []
    p = st['proj']
    newgens = [f for f in new if f[0] == 'gen']
    where = f'commit through handle {h} of project {p}'
    if any(f[0] not in ('gen', 'state') for f in new):
        out.append((f'{where} changed a release', 'training-changed-release'))
    if len(newgens) != 1 or newgens[0][1] != p:
        out.append((f'{where} added the generations {[f[1:4] for f in newgens]}: a successful training adds exactly one',
                    'generation-numbering'))
        return out
    _, _, v, number, tag = newgens[0]
    allowed = {st['rel']} if st['rel'] is not None else set(st['cand'])
    if v not in allowed:
        out.append((f'{where} went to release {v}, the handle addresses {sorted(allowed)}', 'generation-numbering'))
        return out
    if st['rel'] is None:
        st['rel'] = v  # from now on the handle addresses this release
    old = _gens(pb, p, v)
    if number != (old[-1] + 1 if old else 1):
        out.append((f'{where}/{v} (generations on disk {old}) added generation {number}', 'generation-numbering'))
        return out
    _, _, _, sa = c05._index(after)
    sids = tag[2] if isinstance(tag, list) else None
    order = [sa.get((p, v, number, s)) for s in (sids or [])]
    got = [f for f in new if f[0] == 'state']
    if not isinstance(tag, list) or tag[1] != st['ord'] or len(sids) != st['n'] or len(got) != len(sids) \
            or order != [['file', list(b)] for b in st['data']]:
        out.append((f'generation {p}/{v}/{number} does not hold the states dumped through handle {h} in order',
                    'generation-content'))
    return out


def _judge_look(st, look, view, h) -> list:
    """what a long-lived handle reads is what a fresh reader reads for the generation the handle is bound to"""
    p = st['proj']
    rels = {st['rel']} if st['rel'] is not None else set(st['cand'])
    if look == 'notag':
        ok = st['gen'] is None and st['seen'] is None and any(None in st['gencand'].get(v, {None}) for v in rels)
        return [] if ok else [(f'handle {h} reads no tag although its generation exists', 'long-lived-reader-stale')]
    tags = {(f[2], f[3]): f[4] for f in view if f[0] == 'gen' and f[1] == p and f[2] in rels}
    _, _, _, sa = c05._index(view)
    hits = [key for key, t in tags.items() if isinstance(t, list) and t[1:] == look[1:3]
            and [sa.get((p, key[0], key[1], s)) for s in look[2]] == [['file', b] for b in look[3]]
            and (st['gen'] is None or key[1] == st['gen'])
            and (st['gen'] is not None or key[1] in st['gencand'].get(key[0], set()))]
    if st['seen'] is not None:
        hits = [key for key in hits if key == st['seen']]
    if not hits:
        return [(f'handle {h} reads the tag {look[1:3]} / states {look[3]} that no generation it can be bound to holds for a '
                 f'fresh reader', 'long-lived-reader-stale')]
    if st['gen'] is None:
        st['seen'] = hits[0]
        st['rel'] = hits[0][0]
    return []


# ---------------------------------------------------------------------------------------------------------------
# model side
# ---------------------------------------------------------------------------------------------------------------
def model_events(events) -> list:
    def one(e):
        k = e[0]
        if k == 'open':  # which Directory object the chain hangs on is not part of the model (the level holds no state)
            return ['open', e[1], e[2], e[3], None if e[4] is None else c05._rank(e[4]), e[5]]
        if k == 'publish':
            return ['publish', e[1], e[2], c05._rank(e[3]), c05._package(NAMES[e[2]], e[3], e[4])[1]]
        if k == 'dump':
            return ['dump', e[1], e[2] if e[2] is not None else 0, list(e[3])]
        return list(e)

    out = []
    for e in events:
        if e[0] == 'fault':
            out.append(['fault', one(e[1]), e[2]])
        elif e[0] == 'die':
            out.append(['die', one(e[1]), e[2], None if not e[3] else e[4]])
        else:
            out.append(one(e))
    return out


def _model_out(mo):
    """model outcome -> (kind, calls, look)"""
    if mo in ('died', 'faulted'):
        return mo, None, None
    if mo[0] == 'ok':
        _, calls = c05.C05._model_calls(['ok', mo[1]])
        look = mo[2]
        return 'ok', calls, None if look == 'none' else look
    _, calls = c05.C05._model_calls(['ok', mo[2]])
    return mo[1], calls, None


def compare(chk, results, impl) -> None:
    from core import sexp

    lines, index = [], []
    tag = sexp.dumps(['impl', bool(impl[0]), bool(impl[1])])
    for r in results:
        evs = model_events(r['events'])
        enc = sexp.dumps(evs)
        lines.append(f'(hrun {tag} {enc} none)')
        index.append((r, 'full', None))
        for i in sorted(r['died']):
            lines.append(f'(hrun {tag} {sexp.dumps(evs[: i + 1])} none)')
            index.append((r, 'died', i))
        for c in r['crashes']:
            cut = 'none' if not c['cut'] else str(c['model_cut'])
            lines.append(f'(hrun {tag} {enc} ({c["i"]} {c["k"]} {cut}))')
            index.append((r, 'crash', c))
    answers = chk.model(lines)
    for (r, kind, c), ans in zip(index, answers):
        m = sexp.num(sexp.loads(ans))
        hist = r['history']
        if m == 'bad-op' or m[0] != 'ok':
            chk.diverge('model rejected the request', {'handles': hist}, None, m)
            continue
        mview = sorted(m[2], key=repr)
        mtree = c05.C05._model_tree(m[4])
        where = {'handles': hist, 'crash': [c['i'], c['k'], c['cut']] if kind == 'crash' else None}
        if m[3] != 'true':
            chk.diverge('model tree is not well formed (Fs.WF)', where, None, m[3])
        if kind == 'full':
            for i, (mo, outcome, trace, look) in enumerate(zip(m[1], r['outcomes'], r['traces'], r['looks'])):
                mkind, mcalls, mlook = _model_out(mo)
                at = {'handles': hist[: i + 1], 'step': i}
                if outcome in ('died', 'faulted') or mkind in ('died', 'faulted'):
                    if outcome != mkind:
                        chk.diverge('handles: event kind', at, outcome, mkind)
                    continue
                if mkind != outcome:
                    chk.diverge('handles: outcome of ' + r['events'][i][0], at, outcome, mkind)
                elif mcalls != trace:
                    chk.diverge('handles: micro-operation trace', at, trace, mcalls)
                elif mlook != look:
                    chk.diverge('handles: what the handle reads', at, look, mlook)
            rview, rtree, what = r['views'][-1], r['trees'][-1], 'after the history'
        elif kind == 'died':
            rview, rtree, what = r['views'][c + 1], r['trees'][c + 1], 'after a process death inside the history'
        else:
            rview, rtree, what = c['view'], c['tree'], 'after a crash'
        if mview != sorted(c05._strip(rview), key=repr):
            chk.diverge('handles: reader view ' + what, where, c05._strip(rview), mview)
        elif mtree != rtree:
            diff = [e for e in rtree if e not in mtree][:3] + [e for e in mtree if e not in rtree][:3]
            chk.diverge('handles: raw directory tree ' + what, where, diff, None)


def run_handles_volatile(history: list) -> dict:
    """the same events against ONE volatile registry (it cannot be shared between processes: all handles live in this one;
    a `die` item is run as the plain event); views are read through a new asset.Directory on the same registry object"""
    from forml.io import asset
    from forml.provider.registry.filesystem import volatile

    registry = volatile.Registry()
    root = str(registry._path)  # pylint: disable=protected-access
    handles: dict = {}
    uuids = c05._Uuids(0)
    view = c05.C05._volatile_view(asset.Directory(registry))
    res = {'history': [e[1] if e[0] in ('die', 'fault') else e for e in history], 'events': [], 'outcomes': [], 'traces': [], 'looks': [],
           'views': [view], 'trees': [None], 'crashes': [], 'died': {}, 'registry': 'volatile'}
    for ev in res['history']:
        if ev[0] == 'publish':
            ev = ev[:4] + ['file']
        reply = _perform(root, handles, uuids, ev, None, False, registry)
        res['events'].append(['dump', ev[1], reply['sid'], ev[2]] if ev[0] == 'dump' else ev)
        res['outcomes'].append(reply['outcome'])
        res['traces'].append(c05._canon_calls(reply['calls']))
        res['looks'].append(reply['look'])
        res['views'].append(c05.C05._volatile_view(asset.Directory(registry)))
        res['trees'].append(None)
    return res


def worker(args):
    history, crash_points, only = args
    try:
        if crash_points == 'volatile':
            return run_handles_volatile(history)
        return run_handles(history, crash_points, only)
    except Exception as exc:  # pylint: disable=broad-except
        import traceback

        return {'history': history, 'machinery': f'{type(exc).__name__}: {exc}\n{traceback.format_exc()}'}


# ---------------------------------------------------------------------------------------------------------------
# shrinking a failing handle history
# ---------------------------------------------------------------------------------------------------------------
class _Collector:
    """stands in for the check while candidate histories are judged"""

    def __init__(self):
        self.violations: list = []
        self.divergences: list = []

    def case(self, *a, **k):
        pass

    def violate(self, what, witness, signature, detail=None):
        self.violations.append((what, witness, signature))

    def diverge(self, *a, **k):
        self.divergences.append(a)


def shrink(witness: dict, signature: str, budget: int = 40):
    """Greedy: drop one event at a time (last first, never the violating one) while a violation with the same signature
    remains on the real code.  Returns (what, witness) of the smallest failing history found, or None."""
    if witness.get('crash') is not None:
        return None
    best, what = list(witness['handles']), None
    i = len(best) - 2
    while i >= 0 and budget > 0:
        cand = best[:i] + best[i + 1:]
        budget -= 1
        col = _Collector()
        try:
            judge(col, run_handles_volatile(cand) if witness.get('registry') == 'volatile' else run_handles(cand))
        except Exception:  # pylint: disable=broad-except
            col.violations = []
        hit = [(w, wit) for w, wit, sig in col.violations if sig == signature and wit.get('crash') is None]
        if hit:
            what, best = hit[0][0], list(hit[0][1]['handles'])
            i = min(i, len(best) - 1)
        i -= 1
    return (what, dict(witness, handles=best, crash=None)) if what is not None else None
