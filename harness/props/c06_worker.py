"""C06 reader-level worker: every job runs in a *fresh process* in which forml is imported after FORML_HOME was set.

    c06_worker.py            one job on stdin, the answer on the last stdout line
    c06_worker.py --serve    zygote: first stdin line = JSON list of third-party module names to pre-import (forml is
                             never imported in the zygote itself), then one job per line; every job is run in a forked
                             child (fresh forml import, fresh process-global caches), one answer line per job

job:    {"root": dir, "home": FORML_HOME, "init": [db...]|null, "ops": [["read", feed, stmt-ast] | ["mutate", storage, db]]}
answer: JSON list with one entry per read: ["rows", [[...]...]] | ["error", class, message]

Storages 0, 1: SQLite files `<root>/s<i>.db` behind `forml.provider.feed.alchemy.Feed`;
storages 2, 3: CSV directories `<root>/s<i>/` behind `forml.provider.feed.monolite.Feed`.
The feeds are driven as `io.Feed.load` does: `feed.producer(feed.sources, feed.features, **readerkw)(statement)`.
"""
import csv
import json
import logging
import os
import sqlite3
import sys
import warnings

warnings.filterwarnings('ignore')
logging.disable(logging.CRITICAL)
sys.path.insert(0, os.path.join(os.path.dirname(os.path.abspath(__file__)), '..'))
if os.environ.get('FORML_REPO'):
    sys.path.insert(0, os.environ['FORML_REPO'])

from props import c06gen as g  # noqa: E402
from props import dslgen  # noqa: E402

SQL_TYPES = {'integer': 'INTEGER', 'string': 'VARCHAR', 'boolean': 'BOOLEAN'}


def tup(x):
    if isinstance(x, list):
        return tuple(tup(i) for i in x)
    return x


def write_storage(root: str, i: int, db: dict) -> None:
    if i < 2:
        con = sqlite3.connect(os.path.join(root, f's{i}.db'))
        for t in g.CATALOG:
            name = g.PHYS[t[1]]
            con.execute(f'DROP TABLE IF EXISTS "{name}"')
            con.execute(f'CREATE TABLE "{name}" (' + ', '.join(f'"{n}" {SQL_TYPES[k]}' for n, k in t[2]) + ')')
            cols, rows = db[name]
            if rows:
                con.executemany(f'INSERT INTO "{name}" VALUES (' + ', '.join('?' for _ in cols) + ')', [tuple(r) for r in rows])
        con.commit()
        con.close()
    else:
        os.makedirs(os.path.join(root, f's{i}'), exist_ok=True)
        for t in g.CATALOG:
            cols, rows = db[g.PHYS[t[1]]]
            path = os.path.join(root, f's{i}', t[1] + '.csv')
            with open(path + '.tmp', 'w', newline='') as f:
                w = csv.writer(f)
                w.writerow(cols)
                for r in rows:
                    w.writerow(['' if v is None else v for v in r])
            os.replace(path + '.tmp', path)


def run_job(job) -> list:
    root = job['root']
    if job.get('home'):
        os.environ['FORML_HOME'] = job['home']
    if job.get('init') is not None:
        for i, db in enumerate(job['init']):
            write_storage(root, i, db)
    from forml.provider.feed import alchemy, monolite

    builder = dslgen.Builder()
    tables = {t: builder.build(t) for t in g.CATALOG}
    producers = {}

    def producer(i: int):
        if i not in producers:
            if i < 2:
                feed = alchemy.Feed(sources={tables[t]: g.PHYS[t[1]] for t in g.CATALOG},
                                    connection='sqlite:///' + os.path.join(root, f's{i}.db'))
            else:
                feed = monolite.Feed(csv={tables[t]: os.path.join(root, f's{i}', t[1] + '.csv') for t in g.CATALOG})
            producers[i] = feed.producer(feed.sources, feed.features, **feed._readerkw)  # pylint: disable=protected-access
        return producers[i]

    out = []
    for op in job['ops']:
        if op[0] == 'mutate':
            write_storage(root, op[1], op[2])
            continue
        try:
            statement = builder.build(tup(op[2]))
            frame = producer(op[1])(statement)
            rows = []
            for row in frame.to_rows():
                vals = []
                for v in row:
                    if hasattr(v, 'item'):
                        v = v.item()
                    if isinstance(v, float) and v != v:
                        v = None
                    if v is not None and not isinstance(v, (bool, int, float, str)):
                        v = None if str(v) in ('<NA>', 'NaT', 'nan', 'None') else str(v)
                    vals.append(v)
                rows.append(vals)
            out.append(['rows', rows])
        except Exception as err:  # pylint: disable=broad-except
            out.append(['error', type(err).__name__, str(err).splitlines()[0][:200] if str(err) else ''])
    return out


def serve() -> int:
    import importlib

    for name in json.loads(sys.stdin.readline()):
        if name == 'forml' or name.startswith('forml.') or name.startswith('props.c06') or name == '__main__':
            continue
        try:
            importlib.import_module(name)
        except Exception:  # pylint: disable=broad-except
            pass
    assert not any(m == 'forml' or m.startswith('forml.') for m in sys.modules), 'forml leaked into the zygote'
    sys.stdout.write('ready\n')
    sys.stdout.flush()
    while True:
        line = sys.stdin.readline()
        if not line:
            return 0
        job = json.loads(line)
        r, w = os.pipe()
        pid = os.fork()
        if pid == 0:
            code = 0
            try:
                os.close(r)
                try:
                    payload = json.dumps(run_job(job))
                except BaseException as err:  # pylint: disable=broad-except
                    payload = json.dumps({'worker-error': f'{type(err).__name__}: {err}'})
                    code = 1
                with os.fdopen(w, 'w') as f:
                    f.write(payload)
            finally:
                os._exit(code)  # pylint: disable=protected-access
        os.close(w)
        with os.fdopen(r) as f:
            payload = f.read()
        os.waitpid(pid, 0)
        sys.stdout.write((payload or json.dumps({'worker-error': 'no answer'})) + '\n')
        sys.stdout.flush()


def main() -> int:
    if '--serve' in sys.argv:
        return serve()
    print(json.dumps(run_job(json.loads(sys.stdin.read()))))
    return 0


if __name__ == '__main__':
    raise SystemExit(main())
