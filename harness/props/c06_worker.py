"""C06 reader-level worker: every job runs in a *fresh process* in which forml is imported after FORML_HOME was set.

    c06_worker.py            one job on stdin, the answer on the last stdout line
    c06_worker.py --serve    zygote: first stdin line = JSON list of third-party module names to pre-import (forml is
                             never imported in the zygote itself), then one job per line; every job is run in a forked
                             child (fresh forml import, fresh process-global caches), one answer line per job

job:    {"root": dir, "home": FORML_HOME, "init": [db...]|null, "state": [db...] (current contents), "formats": {storage: {Table: format}},
         "ops": [["read", feed, stmt-ast] | ["mutate", storage, db]]}
answer: JSON list with one entry per read: ["rows", [[...]...]] | ["error", class, message]

Storages 0, 1: SQLite files `<root>/s<i>.db` behind `forml.provider.feed.alchemy.Feed` - feeds 0, 1 and, with the same
connection but another schema -> table mapping, feeds 4, 5 (`c06gen.FEEDS`);
storages 2, 3: directories `<root>/s<i>/` behind `forml.provider.feed.monolite.Feed` (feeds 2, 3), every table kept in its own
format (`c06gen.FORMATS`: CSV with / without header line, other separator, reader options given by the user; parquet; inline).
The feeds are driven as `io.Feed.load` does: `feed.producer(feed.sources, feed.features, **readerkw)(statement)`.
"""
import csv
import json
import logging
import os
import sqlite3
import sys
import warnings

warnings.filterwarnings('ignore')
logging.disable(logging.CRITICAL)
sys.path.insert(0, os.path.join(os.path.dirname(os.path.abspath(__file__)), '..'))
if os.environ.get('FORML_REPO'):
    sys.path.insert(0, os.environ['FORML_REPO'])

from props import c06gen as g  # noqa: E402
from props import dslgen  # noqa: E402

SQL_TYPES = {'integer': 'INTEGER', 'string': 'VARCHAR', 'boolean': 'BOOLEAN'}


def tup(x):
    if isinstance(x, list):
        return tuple(tup(i) for i in x)
    return x


def _csv_path(root: str, i: int, table: str, fmt: str) -> str:
    return os.path.join(root, f's{i}', table + ('.parquet' if fmt == 'parquet' else '.csv'))


def write_storage(root: str, i: int, db: dict, formats=None) -> None:
    """SQL storages: one table per key of `db` (both mappings); file storages: one file per catalog table in the table's
    format (`c06gen.FORMATS`: separator / header line as the user's reader options describe them, parquet; inline tables
    have no file)"""
    if g.STORAGE_KINDS[i] == 'alchemy':
        con = sqlite3.connect(os.path.join(root, f's{i}.db'))
        for name, (cols, rows) in db.items():
            t = g.TABLE_OF[name]
            con.execute(f'DROP TABLE IF EXISTS "{name}"')
            con.execute(f'CREATE TABLE "{name}" (' + ', '.join(f'"{n}" {SQL_TYPES[k]}' for n, k in t[2]) + ')')
            if rows:
                con.executemany(f'INSERT INTO "{name}" VALUES (' + ', '.join('?' for _ in cols) + ')', [tuple(r) for r in rows])
        con.commit()
        con.close()
        return
    os.makedirs(os.path.join(root, f's{i}'), exist_ok=True)
    for t in g.CATALOG:
        fmt = (formats or {}).get(t[1], 'csv')
        group, kwargs, header = g.FORMATS[fmt]
        cols, rows = db[g.PHYS[t[1]]]
        path = _csv_path(root, i, t[1], fmt)
        if group == 'csv':
            with open(path + '.tmp', 'w', newline='') as f:
                w = csv.writer(f, delimiter=(kwargs or {}).get('sep', ','))
                if header:
                    w.writerow(cols)
                for r in rows:
                    w.writerow(['' if v is None else v for v in r])
            os.replace(path + '.tmp', path)
        elif group == 'parquet':
            import pandas

            pandas.DataFrame([list(r) for r in rows], columns=list(cols)).to_parquet(path + '.tmp', index=False)
            os.replace(path + '.tmp', path)


def run_job(job) -> list:
    root = job['root']
    if job.get('home'):
        os.environ['FORML_HOME'] = job['home']
    formats = {int(k): v for k, v in (job.get('formats') or {}).items()}
    #: current content of every storage (inline origins are configured with it)
    state = {i: db for i, db in enumerate(job.get('state') or job.get('init') or [])}
    if job.get('init') is not None:
        for i, db in enumerate(job['init']):
            write_storage(root, i, db, formats.get(i))
    from forml.provider.feed import alchemy, monolite

    builder = dslgen.Builder()
    sugar = g.SugarBuilder()
    tables = {t: builder.build(t) for t in g.CATALOG}
    producers = {}

    def producer(feed: int):
        if feed not in producers:
            i = g.STORAGE[feed]
            if g.FEED_KINDS[feed] == 'alchemy':
                names = {t: (g.ALT[g.PHYS[t[1]]] if g.MAPPING[feed] == 'b' else g.PHYS[t[1]]) for t in g.CATALOG}
                obj = alchemy.Feed(sources={tables[t]: names[t] for t in g.CATALOG},
                                   connection='sqlite:///' + os.path.join(root, f's{i}.db'))
            else:
                groups = {'csv': {}, 'parquet': {}, 'inline': {}}
                for t in g.CATALOG:
                    fmt = formats.get(i, {}).get(t[1], 'csv')
                    group, kwargs, _ = g.FORMATS[fmt]
                    if group == 'inline':
                        groups['inline'][tables[t]] = [list(r) for r in state[i][g.PHYS[t[1]]][1]]
                    elif kwargs is None:
                        groups[group][tables[t]] = _csv_path(root, i, t[1], fmt)
                    else:
                        groups[group][tables[t]] = {'path': _csv_path(root, i, t[1], fmt), 'kwargs': dict(kwargs)}
                obj = monolite.Feed(**{k: v for k, v in groups.items() if v})
            producers[feed] = obj.producer(obj.sources, obj.features, **obj._readerkw)  # pylint: disable=protected-access
        return producers[feed]

    out = []
    for op in job['ops']:
        if op[0] == 'mutate':
            write_storage(root, op[1], op[2], formats.get(op[1]))
            state[op[1]] = op[2]
            if any(g.FORMATS[f][0] == 'inline' for f in formats.get(op[1], {}).values()):
                # an inline origin is configured with its content: new content = a new feed object
                for feed in [f for f in producers if g.STORAGE[f] == op[1]]:
                    del producers[feed]
            continue
        try:
            statement = (sugar if len(op) > 3 and op[3] == 'sugar' else builder).build(tup(op[2]))
            frame = producer(op[1])(statement)
            rows = []
            for row in frame.to_rows():
                vals = []
                for v in row:
                    if hasattr(v, 'item'):
                        v = v.item()
                    if isinstance(v, float) and v != v:
                        v = None
                    if v is not None and not isinstance(v, (bool, int, float, str)):
                        v = None if str(v) in ('<NA>', 'NaT', 'nan', 'None') else str(v)
                    vals.append(v)
                rows.append(vals)
            out.append(['rows', rows])
        except Exception as err:  # pylint: disable=broad-except
            out.append(['error', type(err).__name__, str(err).splitlines()[0][:200] if str(err) else ''])
    return out


def serve() -> int:
    import importlib

    for name in json.loads(sys.stdin.readline()):
        if name == 'forml' or name.startswith('forml.') or name.startswith('props.c06') or name == '__main__':
            continue
        try:
            importlib.import_module(name)
        except Exception:  # pylint: disable=broad-except
            pass
    assert not any(m == 'forml' or m.startswith('forml.') for m in sys.modules), 'forml leaked into the zygote'
    sys.stdout.write('ready\n')
    sys.stdout.flush()
    while True:
        line = sys.stdin.readline()
        if not line:
            return 0
        job = json.loads(line)
        r, w = os.pipe()
        pid = os.fork()
        if pid == 0:
            code = 0
            try:
                os.close(r)
                try:
                    payload = json.dumps(run_job(job))
                except BaseException as err:  # pylint: disable=broad-except
                    payload = json.dumps({'worker-error': f'{type(err).__name__}: {err}'})
                    code = 1
                with os.fdopen(w, 'w') as f:
                    f.write(payload)
            finally:
                os._exit(code)  # pylint: disable=protected-access
        os.close(w)
        with os.fdopen(r) as f:
            payload = f.read()
        os.waitpid(pid, 0)
        sys.stdout.write((payload or json.dumps({'worker-error': 'no answer'})) + '\n')
        sys.stdout.flush()


def main() -> int:
    if '--serve' in sys.argv:
        return serve()
    print(json.dumps(run_job(json.loads(sys.stdin.read()))))
    return 0


if __name__ == '__main__':
    raise SystemExit(main())
