"""C13 — actor state / hyper-parameter contract for every actor flavour vs lean/ForML/Model/Actor.lean.

Real code driven: `flow.Actor` (default get_state/set_state/is_stateful), `flow.Spec`/`Builder`
(update/reset/__call__/pickling), `wrap.Actor.apply`, `wrap.Actor.train/.apply`, `wrap.Actor.type`
(names, callables, parameterless), `target.user.SetState`/`Functor` (the platform path).
The toy actors are arithmetic: the same three integer functions as `toyApply/toyApply0/toyTrain`
in the Lean model.
"""
from __future__ import annotations

import pickle
import re
import sys
import types
import typing

from core import framework as fw
from core import sexp

KEYS = ['a', 'b', 'c', 'd']
KIDX = {k: i for i, k in enumerate(KEYS)}

TOYS_SRC = r'''
import cloudpickle
from forml import flow
from forml.pipeline import wrap


def g(p, k, d):
    return p.get(k, d)


def applyfn(p, s, x):
    return g(p, 'a', 1) * x + g(p, 'b', 0) + 3 * s + g(p, 'c', 0) * g(p, 'd', 0)


def applyfn0(p, x):
    return g(p, 'a', 1) * x + g(p, 'b', 0) - g(p, 'c', 0) + 2 * g(p, 'd', 0)


def trainfn(p, prev, x, y):
    return (7 if prev is None else 2 * prev + 1) + g(p, 'a', 1) * x + y + g(p, 'b', 0) * g(p, 'd', 0) - g(p, 'c', 0)


# ---- plain classes (used natively and as wrap origins) -------------------------------------------
class _Fixed:
    """sklearn style: every constructor argument is an attribute, get_params returns all of them."""

    def __init__(self, a=1, b=0):
        self.a = a
        self.b = b
        self.s = None

    def get_params(self):
        return {'a': self.a, 'b': self.b}

    def set_params(self, **kw):
        if set(kw) - {'a', 'b'}:
            raise TypeError(f'unknown hyper-parameter {sorted(kw)}')
        for k, v in kw.items():
            setattr(self, k, v)

    def fit(self, x, y):
        self.s = trainfn(self.get_params(), self.s, x, y)

    def predict(self, x):
        if self.s is None:
            raise RuntimeError('Actor not trained')
        return applyfn(self.get_params(), self.s, x)


class _Open:
    """conftest style: **params kept as a dict which get_params hands out by reference."""

    def __init__(self, **params):
        self._params = params
        self.s = None

    def get_params(self):
        return self._params

    def set_params(self, **kw):
        self._params.update(kw)

    def fit(self, x, y):
        self.s = trainfn(self._params, self.s, x, y)

    def predict(self, x):
        if self.s is None:
            raise RuntimeError('Actor not trained')
        return applyfn(self._params, self.s, x)


class _Mand(_Open):
    """mandatory first constructor argument, further **params."""

    def __init__(self, a, b=0, **params):
        super().__init__(a=a, b=b, **params)

    def get_params(self):
        return dict(self._params)


class _FixedMand(_Fixed):
    def __init__(self, a, b=0):
        super().__init__(a, b)


class _Stateless:
    def __init__(self, a=1, b=0):
        self.a = a
        self.b = b

    get_params = _Fixed.get_params
    set_params = _Fixed.set_params

    def predict(self, x):
        return applyfn0(self.get_params(), x)


class _Hidden(_Fixed):
    """a constructor argument (c) that is configuration, not a hyper-parameter: get_params/set_params cover a
    subset of the constructor arguments (explicitly allowed by the flow.Actor.set_params documentation)."""

    def __init__(self, a=1, b=0, c=0):
        super().__init__(a, b)
        self.c = c

    def _all(self):
        return {'a': self.a, 'b': self.b, 'c': self.c}

    def fit(self, x, y):
        self.s = trainfn(self._all(), self.s, x, y)

    def predict(self, x):
        if self.s is None:
            raise RuntimeError('Actor not trained')
        return applyfn(self._all(), self.s, x)


class _HiddenStateless(_Stateless):
    def __init__(self, a=1, b=0, c=0):
        super().__init__(a, b)
        self.c = c

    def predict(self, x):
        return applyfn0({'a': self.a, 'b': self.b, 'c': self.c}, x)


# ---- native flavour ------------------------------------------------------------------------------
# %%
class NativeFixed(_Fixed, flow.Actor):
    train = _Fixed.fit
    apply = _Fixed.predict


# %%
class NativeOpen(_Open, flow.Actor):
    def train(self, x, y):
        self.fit(x, y)

    def apply(self, x):
        return self.predict(x)


# %%
class NativeMand(_Mand, flow.Actor):
    def train(self, x, y):
        self.fit(x, y)

    def apply(self, x):
        return self.predict(x)


# %%
class NativeStateless(_Stateless, flow.Actor):
    def apply(self, x):
        return self.predict(x)


# %%
class NativeHidden(_Hidden, flow.Actor):
    train = _Hidden.fit
    apply = _Hidden.predict


# %%
class NativeCustom(_Fixed, flow.Actor):
    """user-written state methods, the naive way: nothing is preserved by the actor itself."""

    train = _Fixed.fit
    apply = _Fixed.predict

    def get_state(self):
        return cloudpickle.dumps(self.__dict__)

    def set_state(self, state):
        if state:
            self.__dict__.update(cloudpickle.loads(state))


# ---- decorated flavour ---------------------------------------------------------------------------
# %%
@wrap.Actor.apply
def DecoStatelessFixed(x, *, a=1, b=0):
    return applyfn0({'a': a, 'b': b}, x)


# %%
@wrap.Actor.apply
def DecoStatelessOpen(x, **p):
    return applyfn0(p, x)


# %%
@wrap.Actor.train
def DecoPairFixed(state, x, y, *, a=1, b=0):
    return trainfn({'a': a, 'b': b}, state, x, y)


@DecoPairFixed.apply
def DecoPairFixed(state, x, *, a=1, b=0):
    return applyfn({'a': a, 'b': b}, state, x)


# %%
@wrap.Actor.train
def DecoPairOpen(state, x, y, **p):
    return trainfn(p, state, x, y)


@DecoPairOpen.apply
def DecoPairOpen(state, x, **p):
    return applyfn(p, state, x)


# %%
@wrap.Actor.train
def DecoPairMand(state, x, y, *, a, b=0):
    return trainfn({'a': a, 'b': b}, state, x, y)


@DecoPairMand.apply
def DecoPairMand(state, x, *, a, b=0):
    return applyfn({'a': a, 'b': b}, state, x)


# %%
@wrap.Actor.train
def DecoPairPos(state, x, y, a=1, b=0):
    """documented signature `(state, features, labels, opt1, optN=None)`: positional-or-keyword options"""
    return trainfn({'a': a, 'b': b}, state, x, y)


@DecoPairPos.apply
def DecoPairPos(state, x, a=1, b=0):
    return applyfn({'a': a, 'b': b}, state, x)


# ---- class-wrapped flavour -----------------------------------------------------------------------
# %%
class OriginFixed(_Fixed):
    pass


# %%
class OriginOpen:
    """different method names, every Actor method mapped through a callable."""

    def __init__(self, **params):
        self._impl = _Open(**params)

    def learn(self, x, y):
        self._impl.fit(x, y)

    def infer(self, x):
        return self._impl.predict(x)

    def hp(self):
        return self._impl.get_params()

    def configure(self, **kw):
        self._impl.set_params(**kw)


def _learn(o, x, y):
    return o.learn(x, y)


def _infer(o, x):
    return o.infer(x)


def _hp(o):
    return o.hp()


def _configure(o, **kw):
    return o.configure(**kw)


def _fit(o, x, y):
    return o.fit(x, y)


# %%
class OriginMand(_FixedMand):
    pass


# %%
class OriginStateless(_Stateless):
    pass


# %%
class OriginFlag(_Stateless):
    fit = True  # an attribute that is not a training implementation


# %%
class OriginHidden(_Hidden):
    pass


# %%
class OriginHiddenStateless(_HiddenStateless):
    pass


# %%
WrapNamesFixed = wrap.Actor.type(OriginFixed, apply='predict', train='fit')
# %%
WrapCallsOpen = wrap.Actor.type(OriginOpen, apply=_infer, train=_learn, get_params=_hp, set_params=_configure)
# %%
WrapTrainCall = wrap.Actor.type(OriginFixed, apply='predict', train=_fit)
# %%
WrapNamesMand = wrap.Actor.type(OriginMand, apply='predict', train='fit')
# %%
WrapNoTrain = wrap.Actor.type(OriginStateless, apply='predict')
# %%
WrapFlag = wrap.Actor.type(OriginFlag, apply='predict', train='fit')
# %%
WrapHidden = wrap.Actor.type(OriginHidden, apply='predict', train='fit')
# %%
WrapHiddenStateless = wrap.Actor.type(OriginHiddenStateless, apply='predict')


# %%
@wrap.Actor.type
class WrapDefault(_Fixed):
    """parameterless decorator: the Actor method names are the origin's."""

    train = _Fixed.fit
    apply = _Fixed.predict
'''

FIXED = dict(pos=[0, 1], kw=[], varkw=False, mand=[], defaults={0: 1, 1: 0})
FIXED_KW = dict(pos=[], kw=[0, 1], varkw=False, mand=[], defaults={})
OPEN = dict(pos=[], kw=[], varkw=True, mand=[], defaults={})
HIDDEN = dict(pos=[0, 1, 2], kw=[], varkw=False, mand=[], defaults={0: 1, 1: 0, 2: 0}, hidden=[2])


class Toy(typing.NamedTuple):
    name: str
    kind: str  # native | custom | decorated | wrapped
    sig: dict
    flag: typing.Any  # native: has train; custom: -; decorated: pair; wrapped: train-map kind
    trains: bool  # spec side: the definition has a training implementation
    store_all: bool  # constructor stores defaults|bound (True) or just the kwargs (False)
    std_pickle: bool  # instances of the importable definition can go through stdlib pickle
    root: typing.Optional[str] = None  # root-cause key if this definition exercises a known-defective path

    def flavour(self):
        s = self.sig
        sg = [s['pos'], s['kw'], s['varkw'], s['mand'], [[k, v] for k, v in sorted(s['defaults'].items())], self.hidden()]
        if self.kind == 'custom':
            return [self.kind, sg]
        flag = self.flag if self.kind == 'wrapped' else bool(self.flag)
        return [self.kind, sg, flag]

    def hidden(self):
        return list(self.sig.get('hidden', []))

    def ppos(self):
        """hyper-parameters that can be given positionally to the constructor (a function-based actor's constructor is
        keyword-only whatever the functions' signatures say)"""
        return [] if self.kind == 'decorated' else list(self.sig['pos'])

    def allowed(self):
        """names the constructor accepts"""
        return [0, 1, 2, 3] if self.sig['varkw'] else sorted(self.sig['pos'] + self.sig['kw'])

    def settable(self):
        """names that are hyper-parameters (reported by get_params, accepted by set_params)"""
        return [k for k in self.allowed() if k not in self.hidden()]

    def vis(self, d: dict) -> dict:
        return {k: v for k, v in d.items() if k not in self.hidden()}

    @property
    def own_state(self) -> bool:
        """False: the actor's state methods are user-written and preserve nothing (only SetState.set does)"""
        return self.kind != 'custom'


TOYS = [
    Toy('NativeFixed', 'native', FIXED, True, True, True, True),
    Toy('NativeOpen', 'native', OPEN, True, True, False, True),
    Toy('NativeMand', 'native', dict(pos=[0, 1], kw=[], varkw=True, mand=[0], defaults={1: 0}), True, True, True, True),
    Toy('NativeStateless', 'native', FIXED, False, False, True, True),
    Toy('NativeHidden', 'native', HIDDEN, True, True, True, True),
    Toy('NativeCustom', 'custom', FIXED, True, True, True, True),
    Toy('DecoStatelessFixed', 'decorated', FIXED_KW, False, False, False, True),
    Toy('DecoStatelessOpen', 'decorated', OPEN, False, False, False, True),
    Toy('DecoPairFixed', 'decorated', FIXED_KW, True, True, False, True),
    Toy('DecoPairOpen', 'decorated', OPEN, True, True, False, True),
    Toy('DecoPairMand', 'decorated', dict(pos=[], kw=[0, 1], varkw=False, mand=[0], defaults={}), True, True, False, True),
    Toy('DecoPairPos', 'decorated', dict(pos=[0, 1], kw=[], varkw=False, mand=[], defaults={}), True, True, False, True),
    Toy('WrapNamesFixed', 'wrapped', FIXED, 'method', True, True, False),
    Toy('WrapCallsOpen', 'wrapped', OPEN, 'callable', True, False, False),
    Toy('WrapTrainCall', 'wrapped', FIXED, 'callable', True, True, False),
    Toy('WrapNamesMand', 'wrapped', dict(pos=[0, 1], kw=[], varkw=False, mand=[0], defaults={1: 0}), 'method', True, True,
        False, root='pickle-wrapped-mandatory-ctor'),
    Toy('WrapNoTrain', 'wrapped', FIXED, 'absent', False, True, False),
    Toy('WrapFlag', 'wrapped', FIXED, 'noncallable', False, True, False, root='wrapped-stateful-noncallable-attr'),
    Toy('WrapDefault', 'wrapped', FIXED, 'method', True, True, False, root='wrapped-empty-mapping'),
    Toy('WrapHidden', 'wrapped', HIDDEN, 'method', True, True, False),
    Toy('WrapHiddenStateless', 'wrapped', HIDDEN, 'absent', False, True, False, root='pickle-wrapped-hidden-ctor-arg'),
]
TOY = {t.name: t for t in TOYS}

_MODULES: dict[str, types.ModuleType] = {}


class DefinitionError(Exception):
    """stands for the exception the code under test raised while an actor definition was created"""


def broken_definition(name: str, exc: BaseException):
    """stand-in for a definition that could not be created: every use raises what the definition raised (the failure is
    recorded as the behaviour of every operation on it, never as a crash of the check)"""

    def fail(*_a, **_k):
        raise exc

    return type(name, (), {'builder': staticmethod(fail), 'is_stateful': staticmethod(fail), '__init__': fail,
                           '__c13_broken__': exc})


_CHUNK_NAMES = re.compile(r'^(?:class|def)\s+(\w+)|^(\w+)\s*=', re.M)


def exec_chunks(src: str, ns: dict, fname: str) -> None:
    """Execute the source chunk by chunk (`# %%` markers). An exception raised while a chunk runs (forml code that runs
    at definition time: decorators, metaclasses) is kept as the behaviour of the names the chunk defines."""
    lineno = 0
    for chunk in src.split('\n# %%\n'):
        code = '\n' * lineno + chunk  # keeps the line numbers of the whole source
        lineno += chunk.count('\n') + 2
        try:
            exec(compile(code, fname, 'exec'), ns)  # pylint: disable=exec-used
        except Exception as e:  # pylint: disable=broad-except
            for m in _CHUNK_NAMES.finditer(chunk):
                name = m.group(1) or m.group(2)
                if not name.startswith('_'):
                    ns[name] = broken_definition(name, e)


def toys_module(which: str) -> types.ModuleType:
    """'imp': registered in sys.modules (pickled by reference); 'dyn': unregistered (cloudpickle by value)."""
    if which not in _MODULES:
        name = f'c13_toys_{which}'
        mod = types.ModuleType(name)
        if which == 'imp':
            sys.modules[name] = mod
        exec_chunks(TOYS_SRC, mod.__dict__, f'<{name}>')
        _MODULES[which] = mod
    return _MODULES[which]


# ---- families: actor classes related to each other (inheritance chains, shared origins / functions) -------------------
CHAIN_ROOT_SRC = r"""
class ChainRoot(_Fixed, flow.Actor):
    _trains = False

    def apply(self, x):
        if self._trains:
            return _Fixed.predict(self, x)
        return applyfn0(self.get_params(), x)
"""

SHARED_SRC = r"""
class ShOriginA(_Stateless):
    pass


class ShOriginB(ShOriginA):
    def __init__(self, a=1, b=0):
        super().__init__(a, b)
        self.s = None

    fit = _Fixed.fit
    predict = _Fixed.predict


def shfn(x, *, a=1, b=0):
    return applyfn0({'a': a, 'b': b}, x)


def shtrain(state, x, y, *, a=1, b=0):
    return trainfn({'a': a, 'b': b}, state, x, y)


def shapply(state, x, *, a=1, b=0):
    return applyfn({'a': a, 'b': b}, state, x)


def _shfit(o, x, y):
    return o.fit(x, y)


# %%
ShWrapA = wrap.Actor.type(ShOriginA, apply='predict', train='fit')
# %%
ShWrapB = wrap.Actor.type(ShOriginB, apply='predict', train='fit')
# %%
ShWrapB0 = wrap.Actor.type(ShOriginB, apply=lambda o, x: applyfn0(o.get_params(), x))
# %%
ShWrapBc = wrap.Actor.type(ShOriginB, apply='predict', train=_shfit)
# %%
ShDeco1 = wrap.Actor.apply(shfn)
# %%
ShDeco2 = wrap.Actor.apply(shfn)
# %%
_shtrain = wrap.Actor.train(shtrain)
ShPair1 = _shtrain.apply(shapply)
ShPair2 = _shtrain.apply(shapply)
# %%
ShPair3 = wrap.Actor.train(shtrain).apply(shapply)
"""

SHARED = {
    'ShWrapA': ('wrapped', FIXED, 'absent', False, True),
    'ShWrapB': ('wrapped', FIXED, 'method', True, True),
    'ShWrapB0': ('wrapped', FIXED, 'absent', False, True),
    'ShWrapBc': ('wrapped', FIXED, 'callable', True, True),
    'ShDeco1': ('decorated', FIXED_KW, False, False, False),
    'ShDeco2': ('decorated', FIXED_KW, False, False, False),
    'ShPair1': ('decorated', FIXED_KW, True, True, False),
    'ShPair2': ('decorated', FIXED_KW, True, True, False),
    'ShPair3': ('decorated', FIXED_KW, True, True, False),
}

_FAMILY_COUNTER = [0]


def _family_namespace() -> dict:
    """a fresh unregistered namespace holding the toy helpers: everything defined in it is pickled by value"""
    _FAMILY_COUNTER[0] += 1
    ns = dict(toys_module('dyn').__dict__)
    ns['__name__'] = f'c13_family_{_FAMILY_COUNTER[0]}'
    return ns


def chain_resolved(table: list, i: int, field: int) -> bool:
    """spec side: the class or one of its ancestors defines the thing (field 1 = train, 2 = state methods)"""
    while i is not None:
        if table[i][field]:
            return True
        i = table[i][0]
    return False


def chain_source(table: list) -> str:
    out = [CHAIN_ROOT_SRC]
    for i, (base, own_train, own_state) in enumerate(table):
        out.append(f'\n# %%\nclass Chain{i}({"ChainRoot" if base is None else f"Chain{base}"}):')
        out.append(f'    _trains = {chain_resolved(table, i, 1)}')
        if own_train:
            out.append('\n    def train(self, x, y):\n        _Fixed.fit(self, x, y)')
        if own_state:
            out.append('\n    def get_state(self):\n        return cloudpickle.dumps(self.__dict__)')
            out.append('\n    def set_state(self, state):\n        if state:\n            self.__dict__.update(cloudpickle.loads(state))')
    return '\n'.join(out) + '\n'


# ---- generated wrap.Actor.type definitions (origin class x mapping) ----------------------------------------------------
WD_NAMES = {0: 'apply', 1: 'train', 2: 'get_params', 3: 'set_params', 4: 'predict', 5: 'fit', 6: 'hp', 7: 'configure',
            8: 'get_state', 9: 'set_state', 15: 'nope', 16: 'flag', 17: 'switch'}

WD_PRELUDE = r"""
def _wd_hp(o):
    return {'a': o.a, 'b': o.b}


def _wd_predict(o, x):
    if not o._trains:
        return applyfn0(_wd_hp(o), x)
    if o.s is None:
        raise RuntimeError('Actor not trained')
    return applyfn(_wd_hp(o), o.s, x)


def _wd_fit(o, x, y):
    o.s = trainfn(_wd_hp(o), o.s, x, y)


def _wd_configure(o, **kw):
    if set(kw) - {'a', 'b'}:
        raise TypeError(f'unknown hyper-parameter {sorted(kw)}')
    for k, v in kw.items():
        setattr(o, k, v)


def _wd_decoy_predict(o, x):
    return 999


def _wd_decoy_fit(o, x, y):
    o.s = -1000


def _wd_decoy_hp(o):
    return {'a': 77, 'b': 77}


def _wd_decoy_configure(o, **kw):
    o.a = o.b = -77


def _wd_get_state(o):
    return cloudpickle.dumps(o.__dict__)


def _wd_set_state(o, state):
    if state:
        o.__dict__.update(cloudpickle.loads(state))
"""

WD_IMPL = {0: '_wd_predict', 4: '_wd_predict', 1: '_wd_fit', 5: '_wd_fit', 2: '_wd_hp', 6: '_wd_hp', 3: '_wd_configure',
           7: '_wd_configure', 8: '_wd_get_state', 9: '_wd_set_state'}


def wrapdef_resolve(spec: dict) -> tuple:
    """spec side, from the wrap.Actor.type documentation: (accepted?, train-map kind, origin's own state methods?).
    Refused: the origin already is an actor; a mapping value that is neither a name nor a callable; a method other than
    `train` (given or defaulted to its own name) whose target name is not a callable attribute of the origin."""
    methods, flags = set(spec['methods']), set(spec['flags'])
    mapping = {k: t for k, t in spec['mapping']}
    if spec['actor'] or any(t == 'invalid' for t in mapping.values()):
        return False, 'absent', False
    full = {**{k: ['name', k] for k in (0, 1, 2, 3)}, **mapping}
    for k, t in full.items():
        if k != 1 and t != 'fn' and t[1] not in methods:
            return False, 'absent', False
    t = full[1]
    tm = 'callable' if t == 'fn' else 'method' if t[1] in methods else 'noncallable' if t[1] in flags else 'absent'
    return True, tm, {8, 9} <= methods and 8 not in mapping and 9 not in mapping


def wrapdef_source(spec: dict) -> str:
    ok, tm, _own = wrapdef_resolve(spec)
    trains = ok and tm in ('callable', 'method')
    out = [WD_PRELUDE, '\n# %%', f'class WdOrigin({"flow.Actor" if spec["actor"] else "object"}):', f'    _trains = {trains}', '',
           '    def __init__(self, a=1, b=0):', '        self.a = a', '        self.b = b', '        self.s = None', '']
    # a method of the origin that the (completed) mapping does not point to is a DECOY: the redirection must not use it
    mapping = {k: t for k, t in spec['mapping']}
    used = {8, 9}
    for k in (0, 1, 2, 3):
        t = mapping.get(k, ['name', k])
        if isinstance(t, list):
            used.add(t[1])
    for m in spec['methods']:
        impl = WD_IMPL[m] if m in used or not ok else WD_IMPL[m].replace('_wd_', '_wd_decoy_')
        out.append(f'    {WD_NAMES[m]} = {impl}')
    for f in spec['flags']:
        out.append(f'    {WD_NAMES[f]} = True')
    kw = []
    for k, t in spec['mapping']:
        val = '3' if t == 'invalid' else WD_IMPL[k] if t == 'fn' else repr(WD_NAMES[t[1]])
        kw.append(f'{WD_NAMES[k]}={val}')
    out += ['', '# %%', f'WdActor = wrap.Actor.type(WdOrigin, {", ".join(kw)})' if kw else 'WdActor = wrap.Actor.type(WdOrigin)']
    return '\n'.join(out) + '\n'


class Family:
    """Related actor classes defined together, freshly for every scenario (class-level state must not leak)."""

    def __init__(self, spec: dict):
        self.spec = spec
        ns = _family_namespace()
        inherited = dict(ns)  # the shared toy helpers: not this family's
        sg = None
        self.members: list[Toy] = []
        self.prefixes: list[list] = []
        self.accepted = True  # wrapdef: the documentation says the definition is a valid one
        if spec['kind'] == 'chain':
            table = [tuple(r) for r in spec['table']]
            exec_chunks(chain_source(table), ns, f'<{ns["__name__"]}>')
            tbl = [['none' if b is None else b, bool(t), bool(st)] for b, t, st in table]
            for i in range(len(table)):
                trains = chain_resolved(table, i, 1)
                custom = trains and chain_resolved(table, i, 2)
                toy = Toy(f'Chain{i}', 'custom' if custom else 'native', FIXED, trains, trains, True, False)
                sg = toy.flavour()[1]
                self.members.append(toy)
                self.prefixes.append(['runclass', sg, tbl, i])
        elif spec['kind'] == 'wrapdef':
            exec_chunks(wrapdef_source(spec), ns, f'<{ns["__name__"]}>')
            ok, tm, own = wrapdef_resolve(spec)
            trains = ok and tm in ('callable', 'method')
            toy = Toy('WdActor', 'custom' if own else 'wrapped', FIXED, tm, trains, True, False)
            self.accepted = ok
            self.members.append(toy)
            self.prefixes.append(['runwrap', toy.flavour()[1], [list(spec['methods']), list(spec['flags']), bool(spec['actor'])],
                                  [[k, t] for k, t in spec['mapping']]])
        else:
            exec_chunks(SHARED_SRC, ns, f'<{ns["__name__"]}>')
            for name in spec['names']:
                kind, sig, flag, trains, store_all = SHARED[name]
                toy = Toy(name, kind, sig, flag, trains, store_all, False)
                self.members.append(toy)
                self.prefixes.append(['run', toy.flavour()])
        self.classes = [ns[t.name] for t in self.members]
        self._ns = ns
        self._own = [v for k, v in ns.items() if isinstance(v, type) and inherited.get(k) is not v]

    def dispose(self) -> None:
        """wrap.Actor.type registers every class it creates in the process-global copyreg.dispatch_table, which keeps the
        class alive for ever; every further class creation then walks all of them (abc subclass check of
        `issubclass(origin, flow.Actor)`): drop the entries of THIS family's classes so that they can be collected."""
        import copyreg

        for v in self._own:
            copyreg.dispatch_table.pop(v, None)
        self._own = []
        self._ns.clear()


def run_family(fam: Family, scripts: list, order: list) -> list:
    """one RealMachine per member; `order` = member index per step (each consumes the member's next op)"""
    machines = [RealMachine(c, 'cloudpickle') for c in fam.classes]
    obs: list = [[] for _ in fam.members]
    for m in order:
        obs[m].append(machines[m].step(scripts[m][len(obs[m])]))
    return obs


def ops_from_json(raw: list) -> list:
    ops = [[({int(k): v for k, v in x} if isinstance(x, list) and x and isinstance(x[0], list) else x) for x in op]
           for op in raw]
    # an empty keyword list is indistinguishable from an empty positional list in JSON: positions decide
    fixed = []
    for op in ops:
        op = list(op)
        if op[0] in ('spec', 'update', 'reset', 'setparams', 'forge'):
            op[2] = op[2] if isinstance(op[2], dict) else {}
        elif op[0] == 'build':
            op[3] = op[3] if isinstance(op[3], dict) else {}
        fixed.append(op)
    return fixed


# ---- spec-side arithmetic (the oracle's own copy, written from the toy definitions) -----------------
def _g(p, k, d):
    return p.get(k, d)


def spec_apply(p, s, x):
    return _g(p, 0, 1) * x + _g(p, 1, 0) + 3 * s + _g(p, 2, 0) * _g(p, 3, 0)


def spec_apply0(p, x):
    return _g(p, 0, 1) * x + _g(p, 1, 0) - _g(p, 2, 0) + 2 * _g(p, 3, 0)


def spec_train(p, prev, x, y):
    return (7 if prev is None else 2 * prev + 1) + _g(p, 0, 1) * x + y + _g(p, 1, 0) * _g(p, 3, 0) - _g(p, 2, 0)


def spec_fold(p, prev, hist):
    for x, y in hist:
        prev = spec_train(p, prev, x, y)
    return prev


def kwl(d: dict) -> list:
    return [[k, v] for k, v in d.items()]


def pyk(d) -> dict:
    return {KEYS[k]: v for k, v in (d.items() if isinstance(d, dict) else d)}


# ---- running a script on the real code ----------------------------------------------------------------
def canon_exc(e: BaseException) -> tuple:
    return ('err', type(e).__name__)


class RealMachine:
    """Interprets scenario ops on the real forml objects of ONE actor class (builder, 4 actor registers, 4 state blobs)."""

    def __init__(self, cls, pickler: str):
        import cloudpickle

        self.P = cloudpickle if pickler == 'cloudpickle' else pickle
        self.cls = cls
        self.builder = None
        self.regs: list = [None] * 4
        self.blobs: list = [b''] * 4

    def step(self, op: list) -> tuple:
        try:
            return self._step(op)
        except fw.MachineryError:
            raise
        except Exception as e:  # pylint: disable=broad-except
            return canon_exc(e)

    def _step(self, op: list) -> tuple:  # pylint: disable=too-many-return-statements,too-many-branches
        import cloudpickle
        from forml.flow._code.target import user

        P, cls, regs, blobs = self.P, self.cls, self.regs, self.blobs
        o = op[0]
        if o == 'spec':
            self.builder = cls.builder(*op[1], **pyk(op[2]))
            return ('ok',)
        if o == 'stateful':
            return ('ok', bool(cls.is_stateful()))
        if o == 'forge':
            # somebody else's non-empty state: an attribute dict (only given to actors without training)
            blobs[op[1]] = cloudpickle.dumps({**pyk(op[2]), 's': None})
            return ('ok',)
        if o in ('update', 'reset', 'bpickle', 'build', 'fapply', 'ftrain'):
            if self.builder is None:
                return ('err', 'NoObject')
            if o in ('update', 'reset'):
                self.builder = getattr(self.builder, o)(*op[1], **pyk(op[2]))
                return ('ok',)
            if o == 'bpickle':
                old, self.builder = self.builder, P.loads(P.dumps(self.builder))
                # flow.Spec is a value: the copy is equal to the original (actor class, args, kwargs)
                same = self.builder == old and tuple(self.builder.args) == tuple(old.args) and dict(self.builder.kwargs) == dict(old.kwargs)
                return ('ok',) if same else ('ok', 'differs')
            if o == 'build':
                regs[op[1]] = self.builder(*op[2], **pyk(op[3]))
                return ('ok',)
            if o == 'fapply':
                res = user.Functor(self.builder, user.Apply()).preset_state().execute(blobs[op[1]], op[2])
                return ('ok', int(res))
            res = user.Functor(self.builder, user.Train()).preset_state().execute(blobs[op[1]], op[2], op[3])
            blobs[op[4]] = res
            return ('ok', 'full' if res else 'empty')
        actor = regs[op[1]]
        if actor is None:
            return ('err', 'NoObject')
        if o == 'train':
            actor.train(op[2], op[3])
            return ('ok',)
        if o == 'apply':
            return ('ok', int(actor.apply(op[2])))
        if o == 'params':
            return ('ok', {KIDX[k]: int(v) for k, v in actor.get_params().items()})
        if o == 'setparams':
            actor.set_params(**pyk(op[2]))
            return ('ok',)
        if o == 'getstate':
            blobs[op[2]] = actor.get_state()
            return ('ok', 'full' if blobs[op[2]] else 'empty')
        if o == 'setstate':
            actor.set_state(blobs[op[2]])
            return ('ok',)
        if o == 'setempty':
            actor.set_state(b'')
            return ('ok',)
        if o == 'preset':
            user.SetState(user.Apply()).reduce(actor, blobs[op[2]])
            return ('ok',)
        if o == 'pickle':
            regs[op[1]] = P.loads(P.dumps(actor))
            return ('ok',)
        raise fw.MachineryError(f'unknown op {op}')


def run_real(toy: Toy, module: str, pickler: str, ops: list) -> list:
    """Interpret the scenario script on the real forml objects; one observation per op."""
    m = RealMachine(getattr(toys_module(module), toy.name), pickler)
    return [m.step(op) for op in ops]


LOCAL_OPS = ('build', 'train', 'apply', 'params', 'setparams', 'setstate', 'setempty', 'preset', 'pickle')


def isolation_failure(toy: Toy, module: str, pickler: str, ops: list, r: int) -> typing.Optional[str]:
    """Lean `C13_instances_isolated` evaluated on the real code (metamorphic, no model involved): in a program that never
    exports from the instance in register `r` (the sequence is cut before its first `get_state`), removing every
    operation on that instance must leave every other observation unchanged -- live instances of one definition share
    nothing but what travels through an exported state or the builder."""
    ops = ops[:next((i for i, o in enumerate(ops) if o[0] == 'getstate' and o[1] == r), len(ops))]
    keep = [i for i, o in enumerate(ops) if not (o[0] in LOCAL_OPS and o[1] == r)]
    if len(keep) == len(ops):
        return None
    full = run_real(toy, module, pickler, ops)
    part = run_real(toy, module, pickler, [ops[i] for i in keep])
    for j, i in enumerate(keep):
        if obs_sexp(full[i]) != obs_sexp(part[j]):
            return (f'op#{i} {op_sexp(ops[i])} gave {full[i]}, but {part[j]} in the same program without the operations on '
                    f'the live instance in register {r}: {[op_sexp(o) for o in ops[:i + 1]]}')
    return None


def obs_sexp(ob: tuple):
    if ob[0] == 'err':
        return ['err', ob[1]]
    if len(ob) == 1:
        return ['ok']
    v = ob[1]
    if isinstance(v, dict):
        return ['ok', [[k, v[k]] for k in sorted(v)]]
    return ['ok', v]


def op_sexp(op: list):
    return [kwl(x) if isinstance(x, dict) else x for x in op]


# ---- scenario construction ----------------------------------------------------------------------------
class Scenario:
    def __init__(self, toy: Toy, module: str, pickler: str):
        self.toy, self.module, self.pickler = toy, module, pickler
        self.ops: list = []
        self.checks: list = []  # (kind, args..., what, signature)
        self.live = False  # checks derived by the contract machine from the ops (can be re-derived for a sub-sequence)

    def op(self, *o) -> int:
        self.ops.append(list(o))
        return len(self.ops) - 1

    def val(self, idx, expected, what, sig):
        self.checks.append(['val', idx, expected, what, sig])

    def same(self, i, j, what, sig):
        self.checks.append(['same', i, j, what, sig])

    def sup(self, idx, expected: dict, what, sig):
        self.checks.append(['sup', idx, expected, what, sig])

    def applyp(self, idx, pidx, state, x, extra, what, sig):
        self.checks.append(['applyp', idx, pidx, state, x, {str(k): v for k, v in extra.items()}, what, sig])

    def iserr(self, idx, what, sig):
        self.checks.append(['iserr', idx, what, sig])

    def witness(self, check=None) -> dict:
        return {'toy': self.toy.name, 'module': self.module, 'pickler': self.pickler,
                'ops': [op_sexp(o) for o in self.ops], 'check': check, **({'live': True} if self.live else {})}


def eval_check(chk: list, obs: list) -> typing.Optional[str]:
    """None if the check holds on the observations, else a description of the failure."""
    kind = chk[0]

    def norm(ob):
        if ob[0] == 'ok' and len(ob) > 1 and isinstance(ob[1], dict):
            return ('ok', {int(k): v for k, v in ob[1].items()})
        return tuple(ob)

    if kind == 'val':
        exp = chk[2]
        if isinstance(exp, dict):
            exp = {int(k): v for k, v in exp.items()}
        want = ('ok',) if exp is None else ('ok', exp)
        got = norm(obs[chk[1]])
        return None if got == want else f'op#{chk[1]} gave {got}, expected {want}'
    if kind == 'same':
        a, b = norm(obs[chk[1]]), norm(obs[chk[2]])
        return None if a == b else f'op#{chk[1]} gave {a} but op#{chk[2]} gave {b}'
    if kind == 'sup':
        got = norm(obs[chk[1]])
        exp = {int(k): v for k, v in chk[2].items()}
        if got[0] != 'ok' or not isinstance(got[1], dict):
            return f'op#{chk[1]} gave {got}'
        bad = {k: (got[1].get(k), v) for k, v in exp.items() if got[1].get(k) != v}
        return None if not bad else f'op#{chk[1]}: hyper-parameters (got, builder) differ: {bad}'
    if kind == 'applyp':
        got, par = norm(obs[chk[1]]), norm(obs[chk[2]])
        if par[0] != 'ok' or not isinstance(par[1], dict):
            return f'op#{chk[2]} gave {par}'
        attrs = {**{int(k): v for k, v in chk[5].items()}, **par[1]}
        want = ('ok', spec_apply(attrs, chk[3], chk[4]))
        return None if got == want else f'op#{chk[1]} gave {got}, expected {want} for the reported hyper-parameters {par[1]}'
    if kind == 'iserr':
        return None if obs[chk[1]][0] == 'err' else f'op#{chk[1]} succeeded: {obs[chk[1]]}'
    raise fw.MachineryError(f'unknown check {chk}')


def expected_attrs(toy: Toy, args: list, kw: dict) -> dict:
    """what the constructor of the toy definition stores (every attribute, reported or not)"""
    if not toy.store_all:
        return dict(kw)
    out = dict(toy.sig['defaults'])
    out.update(zip(toy.sig['pos'], args))
    out.update(kw)
    return out


# ---- the contract as a state machine (oracle for operation sequences on live instances) --------------------------------
class SpecActor:
    """The simplest actor: current attributes (hyper-parameters + constructor arguments it keeps to itself), current logical
    state (None = untrained); `prov` = the last operation that changed it (for the root-cause key only)."""

    __slots__ = ('attrs', 'state', 'prov')

    def __init__(self, attrs: dict, state=None, prov: str = 'build'):
        self.attrs, self.state, self.prov = dict(attrs), state, prov


UNKNOWN = 'unknown'  # the contract does not say what the object is now: nothing that depends on it is checked


class SpecMachine:
    """Runs an op script on the contract alone - no forml code, no Lean model: an actor is a pair (attributes, logical
    state); `train` folds the state, `apply` reads both; `get_state` exports exactly the current logical state (for
    class-based actors together with the attribute dict); `set_state` of an export replaces the logical state, the
    hyper-parameters the receiver reports win, attributes it does not report come with a class-based export; an empty state
    changes nothing; pickling changes nothing; a builder is its (args, kwargs) with update = replace-if-given / merge.
    Yields the checks (expected observation per op). Where the contract is silent (malformed hyper-parameters, a state of
    an untrained actor given to a trained one, foreign bytes given to an actor with training ...) the touched object becomes
    UNKNOWN and nothing that depends on it is demanded."""

    def __init__(self, toy: Toy):
        self.toy = toy
        self.trains = toy.trains
        self.carries = toy.kind != 'decorated'
        self.protects = toy.own_state
        self.builder: typing.Any = None  # None | (args, kw) | UNKNOWN
        self.regs: list = [None] * 4
        self.blobs: list = [('empty',)] * 4
        self.checks: list = []
        self.i = -1

    # -- helpers
    def _binds(self, args: list, kw: dict, full: bool) -> bool:
        toy = self.toy
        pos = toy.sig['pos']
        if len(args) > len(pos) or (toy.kind == 'decorated' and args):
            return False
        if any(k not in toy.allowed() for k in kw) or any(k in pos[:len(args)] for k in kw):
            return False
        return not full or all(k in set(pos[:len(args)]) | set(kw) for k in toy.sig['mand'])

    def _val(self, expected, what, sig):
        self.checks.append(['val', self.i, expected, what, sig])

    def _err(self, what, sig):
        self.checks.append(['iserr', self.i, what, sig])

    def _fresh(self, args=(), kw=None):
        """builder(*args, **kw) on the contract; None if the contract does not say (unknown / not constructible)"""
        if self.builder in (None, UNKNOWN):
            return None
        bargs, bkw = self.builder
        eargs, ekw = list(args) or list(bargs), {**bkw, **(kw or {})}
        if not self._binds(eargs, ekw, True):
            return None
        return SpecActor(expected_attrs(self.toy, eargs, ekw))

    def _receive(self, a: SpecActor, blob: tuple, protects: bool, how: str):
        """set_state / preset of a blob on the contract; returns the new actor or UNKNOWN"""
        if blob[0] == 'empty':
            return a
        if blob[0] != 'own' or not self.trains:
            return UNKNOWN if self.trains else a  # an actor without training keeps what it has, whatever it answers
        _, p, s, _prov = blob
        if self.carries:
            attrs = {**p, **self.toy.vis(a.attrs)} if protects else dict(p)
        else:
            attrs = dict(a.attrs)
        if s is None and (a.state is not None or attrs != a.attrs):
            return UNKNOWN  # the export of an untrained actor given to somebody else: outside the contract
        return SpecActor(attrs, s if s is not None else a.state, how)

    def _apply(self, a: SpecActor, x: int):
        """('val', v) | ('err',)"""
        if not self.trains:
            return ('val', spec_apply0(a.attrs, x))
        if a.state is None:
            return ('err',)
        return ('val', spec_apply(a.attrs, a.state, x))

    # -- one op
    def step(self, op: list) -> None:  # pylint: disable=too-many-branches,too-many-statements,too-many-return-statements
        self.i += 1
        toy, o = self.toy, op[0]
        if o == 'stateful':
            self._val(toy.trains, 'is_stateful() does not say whether the definition has a training implementation',
                      'stateful-mismatch')
            return
        if o == 'forge':
            self.blobs[op[1]] = ('foreign',)
            return
        if o == 'spec':
            if self._binds(op[1], op[2], False):
                self._val(None, 'builder creation with valid hyper-parameters failed', 'builder-create')
                self.builder = (list(op[1]), dict(op[2]))
            else:
                self.builder = UNKNOWN
            return
        if o in ('update', 'reset', 'bpickle', 'build', 'fapply', 'ftrain') and self.builder in (None, UNKNOWN):
            if o == 'build' and self.builder is UNKNOWN:
                self.regs[op[1]] = UNKNOWN
            if o == 'ftrain':
                self.blobs[op[4]] = ('unknown',)
            return
        if o in ('update', 'reset'):
            bargs, bkw = self.builder
            nargs, nkw = (list(op[1]) or bargs, {**bkw, **op[2]}) if o == 'update' else (list(op[1]), dict(op[2]))
            if self._binds(nargs, nkw, False):
                self._val(None, f'Builder.{o} with valid hyper-parameters failed', 'builder-update')
                self.builder = (nargs, nkw)
            else:
                self.builder = UNKNOWN
            return
        if o == 'bpickle':
            self._val(None, 'builder does not survive pickling', 'pickle-builder-fails')
            return
        if o == 'build':
            a = self._fresh(op[2], op[3])
            if a is None:
                self.regs[op[1]] = UNKNOWN  # (if it raised the register keeps the old object: not known here)
            else:
                self._val(None, 'builder(*args, **kwargs) with valid hyper-parameters failed', 'build-fails')
                self.regs[op[1]] = a
            return
        if o == 'fapply':
            a, blob = self._fresh(), self.blobs[op[1]]
            r = UNKNOWN if a is None else self._receive(a, blob, True, 'preset')
            if r is UNKNOWN or blob[0] == 'foreign':
                return
            exp = self._apply(r, op[2])
            prov = blob[3] if blob[0] == 'own' else 'empty'
            if exp[0] == 'err':
                self._err('a fresh actor given an empty state through the platform (Functor with state preset) applies '
                          'although it is untrained', f'live-export-after-{prov}')
            else:
                self._val(exp[1], 'the state exported by a live actor does not reproduce that actor: a fresh actor from the builder '
                          'given it through the platform (Functor with state preset) answers differently from the contract '
                          '(builder\'s hyper-parameters, the exporting actor\'s logical state at the time of the export)',
                          f'live-export-after-{prov}')
            return
        if o == 'ftrain':
            a, blob = self._fresh(), self.blobs[op[1]]
            r = UNKNOWN if a is None else self._receive(a, blob, True, 'preset')
            if r is UNKNOWN or blob[0] == 'foreign':
                self.blobs[op[4]] = ('unknown',)
                return
            if not self.trains:
                self._err('an actor without a training implementation trains through the platform', 'stateless-trains')
                return
            r.state = spec_train(r.attrs, r.state, op[2], op[3])
            self._val('full', 'train functor returned an empty state', 'trained-state-empty')
            self.blobs[op[4]] = ('own', dict(r.attrs), r.state, 'ftrain')
            return
        a = self.regs[op[1]]
        if a is None:
            return  # nothing is demanded of an empty register
        if a is UNKNOWN:
            if o == 'getstate':
                self.blobs[op[2]] = ('unknown',)
            return
        if o == 'train':
            if not self.trains:
                self._err('actor without a training implementation trains', 'stateless-trains')
                return
            self._val(None, 'train failed', 'train-fails')
            a.state = spec_train(a.attrs, a.state, op[2], op[3])
            a.prov = 'train'
        elif o == 'apply':
            exp = self._apply(a, op[2])
            if exp[0] == 'err':
                self._err('untrained actor applies', f'live-untrained-applies-after-{a.prov}')
            else:
                self._val(exp[1], 'live actor answers differently from the contract (its current hyper-parameters, its current '
                          'logical state)', f'live-apply-after-{a.prov}')
        elif o == 'params':
            self._val(toy.vis(a.attrs), 'live actor reports other hyper-parameters than the contract says',
                      f'live-params-after-{a.prov}')
        elif o == 'setparams':
            if all(k in toy.settable() for k in op[2]):
                self._val(None, 'set_params with valid hyper-parameters failed', 'set-params')
                a.attrs.update(op[2])
                a.prov = 'setparams'
            else:
                self.regs[op[1]] = UNKNOWN
        elif o == 'getstate':
            if not self.trains:
                self._val('empty', 'actor without training exports a non-empty state', 'stateless-state')
                self.blobs[op[2]] = ('empty',)
            elif a.state is None:
                # an untrained actor may export b\'\' or its attribute dict: the contract does not say which
                self.blobs[op[2]] = ('own', dict(a.attrs), None, a.prov) if self.carries else ('unknown',)
            else:
                self._val('full', 'trained actor exports an empty state', 'trained-state-empty')
                self.blobs[op[2]] = ('own', dict(a.attrs), a.state, a.prov)
        elif o in ('setstate', 'preset'):
            blob = self.blobs[op[2]]
            r = UNKNOWN if blob[0] == 'unknown' else self._receive(a, blob, self.protects or o == 'preset', o)
            if r is not UNKNOWN and blob[0] != 'foreign':
                self._val(None, f'{o} of a state exported by an actor of the same definition failed', 'transfer-fails')
            self.regs[op[1]] = r
        elif o == 'setempty':
            self._val(None, 'set_state(b\'\') failed', 'empty-state')
        elif o == 'pickle':
            self._val(None, 'live actor does not survive pickling', 'pickle-actor-fails')
            a.prov = 'pickle'
        else:
            raise fw.MachineryError(f'unknown op {op}')

    def run(self, ops: list) -> list:
        for op in ops:
            self.step(op)
        return self.checks


def live_checks(toy: Toy, ops: list) -> list:
    return SpecMachine(toy).run(ops)


class C13(fw.Check):
    ID = 'C13'
    LEAN_MODULES = ['ForML.Props.C13', 'ForML.Props.C13Live', 'ForML.Props.C13Isolation']
    DRIVER = 'drv_c13'
    RULE = ('scenario = actor definition (22 toy definitions: native class fixed/open/mandatory/stateless/with a constructor '
            'argument that is not a hyper-parameter/with user-written naive get_state+set_state, @wrap.Actor.apply fixed/open, '
            '.train/.apply pair fixed/open/mandatory/with positional-or-keyword options (documented signature), wrap.Actor.type with method names, callables for all four methods '
            '(nested delegate), callable train only, mandatory ctor arg, no train, non-callable train attribute, parameterless '
            'decorator, non-hyper-parameter ctor arg with and without train) x definition site (importable module / '
            'unregistered module = cloudpickle by value) x pickler (cloudpickle; stdlib pickle for importable native/decorated) '
            'x random hyper-parameter dict over keys a..d, 0-3 Builder.update/reset (+positional). Three structured scripts '
            '(25-70 ops through builder, actor, SetState preset and Functor.execute): (1) twin trained on h1 (1-6 pairs), '
            'transfer, continuation h2 (0-4), precedence against a differently parameterised builder and against a '
            're-parameterised twin, pickling; (2) set_params interleaved with training on the twin and followed by '
            'Builder.update, transfer to an actor rebuilt from the updated builder, joint continuation with further updates '
            'and pickling in between, a second generation through Functor; (3) actors without training: empty and foreign '
            'non-empty state, set_params, pickling. Every op\'s observation is compared with the Lean model; the oracle '
            'checks expected values computed from the toy arithmetic and relational checks (transfer, precedence, empty '
            'state, pickle, is_stateful). Plus a random op-stream incl. malformed ops (unknown keys, non-hyper-parameter '
            'keys, positional overflow, state on stateless, untrained apply). FAMILIES of related actor classes, defined '
            'freshly per scenario: native inheritance chains of 2-5 classes (random base links; each class body may define '
            'train and/or its own state methods; stateless base -> stateful subclass -> sub-subclass, stateful base -> '
            'subclass overriding train) and definitions sharing origins (wrap.Actor.type over an origin class and its '
            'subclass with name / callable / defaulted train mappings; two @wrap.Actor.apply of one function; pairs sharing '
            'one train decorator): one structured or random script per member, interleaved in chunks in a random order '
            '(for half of them a leading is_stateful() round over all classes in a random permutation), so that the first '
            'query of related classes happens in either order; each member\'s projection is compared with the model '
            '(the flavour of a chain class is resolved by the model from the class table) and checked by the same oracle. '
            'LIVE OPERATION SEQUENCES (round 4): 12-55 ops on 3 actor registers and 3 state slots of one definition, generated '
            'along the contract machine (harness SpecMachine: actor = (attributes, logical state)) so that almost every op is '
            'one the contract speaks about: train (some labels chosen so that the state becomes 0), apply, get_params, '
            'set_params, get_state into any slot (mostly from a trained instance) followed by a behavioural probe of the '
            'exported bytes (Functor with state preset on a fresh actor, or build + set_state/preset + apply), set_state / '
            'SetState preset of any slot (own earlier export, another instance\'s export, never-written = empty), '
            'set_state(b\'\'), pickle round trip of the instance, Builder.update followed by set_params on the live '
            'instances, builder pickling, builder() into any register, Functor apply/train, foreign bytes (actors without '
            'training); closing round: every live instance answers, reports, exports, every export is probed. Every '
            'observation is predicted by the contract machine (oracle) and compared with the Lean world machine stepW (model). '
            'GENERATED wrap.Actor.type DEFINITIONS (round 4): origin class = which of apply/predict, train/fit, '
            'get_params/hp, set_params/configure, get_state+set_state it defines as methods (methods the completed mapping '
            'does not point to are decoys with visibly different behaviour), non-callable attributes, rarely already a '
            'flow.Actor; mapping per Actor method = not given / name of a method / name of a non-callable attribute / '
            'missing name / callable / rarely an invalid value, in random order; acceptance, train resolution and '
            'ownership of the state methods are resolved by the model (classNew, getattribute, wrapDef) and independently by '
            'the harness from the documentation; accepted definitions get structured / live / random scripts. '
            'distinct = (toy, ops) resp. (family, order, scripts); non-trivial = at least one training step and one state '
            'transfer, or (stateless) one parameter change; family: at least two related classes or a generated definition.')
    TRUSTED = [
        'cloudpickle / pickle fidelity for plain attribute dicts (modelled as identity), inspect.signature binding rules '
        '(modelled by bind/bindPartial for the signature shapes used), functools.update_wrapper metadata, '
        'functools.partial pickling',
        'toy actors: the integer functions in harness/props/c13.py TOYS_SRC and toyApply/toyApply0/toyTrain in the model '
        'are the same by inspection (and by the correspondence itself)',
        'the contract is written three times independently: specMach (Lean, what C13_live_refines refines to), SpecMachine '
        '(Python oracle) and the property text; the Python oracle and the Lean contract agree on every sequence on which the '
        'check passes (real = Lean model by the correspondence, Lean model = Lean contract by the theorem)',
    ]
    ASSUMPTIONS = [
        'user train functions never return None (a None state of a decorated pair means "untrained" again)',
        'user classes keep their constructor arguments and one state attribute in __dict__; get_params/set_params are '
        'consistent on the hyper-parameters (set then get returns what was set) and may cover a subset of the constructor '
        'arguments only',
        'hyper-parameter = what the actor reports through get_params: a constructor argument that the actor does not '
        'report travels with the state of a class-based actor (proved as part of C13_transfer, not demanded to come from '
        'the builder)',
        'an actor with user-written state methods that preserve nothing is protected by the platform path '
        '(SetState.set) only; precedence on a direct set_state call is demanded only of forml\'s own state methods',
        'live sequences: where the contract is silent the oracle demands nothing (the touched object becomes UNKNOWN): '
        'hyper-parameter names the definition does not accept, constructor calls that do not bind, the export of an '
        'UNTRAINED actor given to a trained or differently configured one (b\'\' and an attribute dict are both '
        'legitimate exports of an untrained actor), foreign bytes given to an actor with training, whether a refused '
        'wrap.Actor.type definition is refused (compared with the model only)',
        'generated wrap.Actor.type definitions: an origin with its own get_state/set_state is generated only together with a '
        'training implementation (without one such an actor is not stateful yet exports a non-empty state: outside the '
        'property); mapping keys are the four Actor methods',
        'wrapped flavour is modelled with the repairs of Class.__new__ (empty mapping, c5871cf), Class.Actor.is_stateful '
        '(callable check, 146ab51) and of the copyreg reducer (constructor arguments, e52a412) '
        'applied',
    ]

    # ---- generators ---------------------------------------------------------------------------------
    def _kw(self, toy: Toy, lo=0, hi=None, need=(), avoid=()):
        allowed = [k for k in toy.allowed() if k not in avoid]
        hi = len(allowed) if hi is None else min(hi, len(allowed))
        n = self.rng.randint(min(lo, hi), hi)
        keys = set(self.rng.sample(allowed, n)) | set(need)
        return {k: self.rng.randint(-3, 5) for k in sorted(keys)}

    def _expected_params(self, toy: Toy, args: list, kw: dict) -> dict:
        return expected_attrs(toy, args, kw)

    _forced_site = None
    _live_reported: set = set()

    def _pick_site(self, toy: Toy):
        if self._forced_site:
            return self._forced_site
        module = self.rng.choice(['imp', 'dyn'])
        pickler = 'pickle' if (module == 'imp' and toy.std_pickle and self.rng.random() < 0.5) else 'cloudpickle'
        return module, pickler

    def _builder_prefix(self, sc: Scenario, toy: Toy):
        """spec + 0..3 update/reset; returns the (args, kwargs) the resulting builder must hold (dict semantics
        of the Builder docstrings: update merges keywords and replaces positionals if given, reset replaces)."""
        rng = self.rng
        mand = toy.sig['mand']
        args: list = []
        kw = self._kw(toy, need=mand if rng.random() < 0.7 else ())
        if toy.ppos() and rng.random() < 0.3:
            npos = rng.randint(1, len(toy.ppos()))
            args = [rng.randint(-3, 5) for _ in range(npos)]
            for k in toy.ppos()[:npos]:
                kw.pop(k, None)
        i = sc.op('spec', args, kw)
        sc.val(i, None, 'builder creation with valid hyper-parameters failed', 'builder-create')
        for _ in range(rng.choice([0, 1, 1, 2, 3])):
            how = rng.choice(['update', 'update', 'reset'])
            nargs: list = []
            nkw = self._kw(toy, hi=3)
            if toy.ppos() and rng.random() < 0.25:
                npos = rng.randint(1, len(toy.ppos()))
                nargs = [rng.randint(-3, 5) for _ in range(npos)]
            eff_args = (nargs or args) if how == 'update' else nargs
            merged = {**kw, **nkw} if how == 'update' else dict(nkw)
            for k in toy.ppos()[:len(eff_args)]:
                # a positional and a keyword for the same name is a TypeError by Python's rules: avoid it here
                merged.pop(k, None)
                nkw.pop(k, None)
            if how == 'update' and any(k in kw for k in toy.ppos()[:len(eff_args)]):
                # update cannot drop an inherited keyword: switch to reset with the merged dict
                how, nkw = 'reset', dict(merged)
                nargs = list(eff_args)
            i = sc.op(how, nargs, nkw)
            sc.val(i, None, f'Builder.{how} with valid hyper-parameters failed', 'builder-update')
            args, kw = list(eff_args), merged
        bound = set(toy.ppos()[:len(args)]) | set(kw)
        missing = [k for k in mand if k not in bound]
        if missing:
            add = {k: rng.randint(-3, 5) for k in missing}
            i = sc.op('update', [], add)
            sc.val(i, None, 'Builder.update with valid hyper-parameters failed', 'builder-update')
            kw = {**kw, **add}
        if rng.random() < 0.4:
            i = sc.op('bpickle')
            sc.val(i, None, f'builder does not survive {sc.pickler}', 'pickle-builder-fails')
        return args, kw

    def _call_override(self, sc: Scenario, toy: Toy, args: list, kw: dict) -> None:
        """builder(*args2, **kw2): positionals replace the stored ones if given, keywords update them (as Builder.update)."""
        rng = self.rng
        args2: list = []
        if toy.ppos() and rng.random() < 0.6:
            npos = rng.randint(1, len(toy.ppos()))
            if not any(k in kw for k in toy.ppos()[:npos]):
                args2 = [rng.randint(-3, 5) for _ in range(npos)]
        eff = args2 or args
        kw2 = self._kw(toy, lo=0, hi=2, avoid=toy.ppos()[:len(eff)])
        if not args2 and not kw2:
            return
        sc.val(sc.op('build', 3, args2, kw2), None, 'builder(*args, **kwargs) with valid overrides failed', 'build-fails')
        sc.val(sc.op('params', 3), toy.vis(self._expected_params(toy, eff, {**kw, **kw2})),
               'builder(*args, **kwargs) does not replace the positionals / update the keywords', 'build-params')

    def _hist(self, lo, hi):
        return [(self.rng.randint(-4, 6), self.rng.randint(-4, 6)) for _ in range(self.rng.randint(lo, hi))]

    def _stateful_scenario(self, toy: Toy, zero: bool = False) -> Scenario:
        """zero: the twin's trained state is the integer 0 (a falsy but genuine state)."""
        rng = self.rng
        module, pickler = self._pick_site(toy)
        sc = Scenario(toy, module, pickler)
        args, kw = self._builder_prefix(sc, toy)
        E = self._expected_params(toy, args, kw)  # every attribute; toy.vis(E) = the reported hyper-parameters
        V = toy.vis(E)
        hid = {k: v for k, v in E.items() if k in toy.hidden()}
        xs = [rng.randint(-5, 7) for _ in range(2)]
        sc.val(sc.op('stateful'), True, 'is_stateful() is not True although the definition has a training implementation',
               'stateful-mismatch')
        sc.val(sc.op('build', 0, [], {}), None, 'builder() failed', 'build-fails')
        sc.val(sc.op('params', 0), V, 'fresh actor does not report the builder\'s hyper-parameters', 'build-params')
        if rng.random() < 0.4:
            self._call_override(sc, toy, args, kw)
        # empty state leaves the actor untrained
        before = sc.op('apply', 0, xs[0])
        sc.iserr(before, 'untrained actor applies', 'toy-untrained-applies')
        sc.val(sc.op('setempty', 0), None, 'set_state(b\'\') failed', 'empty-state')
        sc.same(sc.op('apply', 0, xs[0]), before, 'actor is not untrained after an empty state', 'empty-state')
        sc.val(sc.op('params', 0), V, 'empty state changed the hyper-parameters', 'empty-state')
        sc.val(sc.op('preset', 0, 3), None, 'SetState preset with an empty state failed', 'empty-state')
        sc.same(sc.op('apply', 0, xs[0]), before, 'actor is not untrained after an empty state preset', 'empty-state')
        # train the twin
        h1 = self._hist(1, 6)
        if zero:
            h1 = h1[:rng.randint(1, 2)]
            x = h1[-1][0]
            h1[-1] = (x, h1[-1][1] - spec_fold(E, None, h1))  # the state is linear in the last label: make it 0
        for x, y in h1:
            sc.val(sc.op('train', 0, x, y), None, 'train failed', 'train-fails')
        S1 = spec_fold(E, None, h1)
        assert not zero or S1 == 0
        twin = []
        for x in xs:
            i = sc.op('apply', 0, x)
            sc.val(i, spec_apply(E, S1, x), 'trained actor output differs from the toy arithmetic', 'toy-apply')
            twin.append(i)
        sc.val(sc.op('getstate', 0, 0), 'full', 'trained actor exports an empty state', 'trained-state-empty')
        # transfer to an actor rebuilt from the builder
        how = rng.choice(['setstate', 'preset'])
        sc.val(sc.op('build', 1, [], {}), None, 'builder() failed', 'build-fails')
        sc.val(sc.op(how, 1, 0), None, f'{how} of the twin\'s state failed', 'transfer-fails')
        sc.val(sc.op('params', 1), V, 'state transfer changed the hyper-parameters supplied by the builder',
               'params-precedence')
        for x, t in zip(xs, twin):
            sc.same(sc.op('apply', 1, x), t, 'rebuilt actor with the twin\'s state behaves differently from the twin',
                    'transfer-differs')
        for x, t in zip(xs, twin):
            sc.same(sc.op('fapply', 0, x), t, 'Functor with state preset behaves differently from the trained twin',
                    'transfer-differs')
        # incremental continuation on both + the platform chain from scratch
        h2 = self._hist(0, 4)
        for x, y in h2:
            sc.op('train', 0, x, y)
            sc.op('train', 1, x, y)
        S12 = spec_fold(E, S1, h2)
        a0 = sc.op('apply', 0, xs[1])
        sc.val(a0, spec_apply(E, S12, xs[1]), 'incrementally trained actor differs from the toy arithmetic', 'toy-apply')
        sc.same(sc.op('apply', 1, xs[1]), a0, 'continued training after a state transfer diverges from the twin',
                'transfer-differs')
        if rng.random() < 0.6:
            src = 3  # blob 3 is empty
            for x, y in h1 + h2:
                sc.val(sc.op('ftrain', src, x, y, 2), 'full', 'train functor returned an empty state', 'trained-state-empty')
                src = 2
            sc.same(sc.op('fapply', 2, xs[1]), a0,
                    'generation-by-generation training through Functor differs from training one actor', 'transfer-differs')
        # precedence: a builder with other hyper-parameters receives the twin's (h1) state
        # (only hyper-parameters are changed: a constructor argument that the actor does not report travels with the state)
        posbound = toy.sig['pos'][:len(args)]
        q = self._kw(toy, lo=1, hi=3, avoid=posbound + toy.hidden())
        q = {k: (v if E.get(k) != v else v + 1) for k, v in q.items()}
        sc.val(sc.op('update', [], q), None, 'Builder.update with valid hyper-parameters failed', 'builder-update')
        E2 = self._expected_params(toy, args, {**kw, **q})
        V2 = toy.vis(E2)
        # an actor with user-written state methods is protected by the platform's preset only
        give = (lambda: rng.choice(['setstate', 'preset'])) if toy.own_state else (lambda: 'preset')
        sc.val(sc.op('build', 2, [], {}), None, 'builder() failed', 'build-fails')
        sc.val(sc.op(give(), 2, 0), None, 'transfer of the twin\'s state failed', 'transfer-fails')
        sc.sup(sc.op('params', 2), V2, 'hyper-parameters stored inside the state override the builder\'s',
               'params-precedence')
        # behaviour = the toy arithmetic on the hyper-parameters the actor reports and the twin's state
        p2 = len(sc.ops) - 1
        sc.applyp(sc.op('apply', 2, xs[0]), p2, S1, xs[0], hid,
                  'actor with the builder\'s hyper-parameters and the twin\'s state gives an unexpected result', 'params-precedence')
        # the twin's own parameters are changed afterwards; the builder's still win on transfer
        q2 = self._kw(toy, lo=1, hi=2, avoid=toy.hidden())
        sc.val(sc.op('setparams', 0, q2), None, 'set_params with valid hyper-parameters failed', 'set-params')
        sc.op('getstate', 0, 1)
        sc.val(sc.op('build', 3, [], {}), None, 'builder() failed', 'build-fails')
        sc.val(sc.op(give(), 3, 1), None, 'transfer of the twin\'s state failed', 'transfer-fails')
        sc.sup(sc.op('params', 3), V2, 'hyper-parameters stored inside the state override the builder\'s',
               'params-precedence')
        # pickling of the trained twin (reg 1 still has params E and state S12)
        p_before = sc.op('params', 1)
        a_before = sc.op('apply', 1, xs[0])
        root = toy.root if (toy.root or '').startswith('pickle-') else 'pickle-actor-fails'
        sc.val(sc.op('pickle', 1), None, f'trained actor does not survive {pickler}', root)
        sc.same(sc.op('params', 1), p_before, 'pickling changed the hyper-parameters', 'pickle-actor-differs')
        sc.same(sc.op('apply', 1, xs[0]), a_before, 'pickling changed the behaviour', 'pickle-actor-differs')
        x, y = rng.randint(-4, 6), rng.randint(-4, 6)
        sc.op('train', 1, x, y)
        sc.val(sc.op('apply', 1, xs[1]), spec_apply(E, spec_train(E, S12, x, y), xs[1]),
               'training after pickling diverges', 'pickle-actor-differs')
        sc.val(sc.op('bpickle'), None, f'builder does not survive {pickler}', 'pickle-builder-fails')
        sc.val(sc.op('build', 3, [], {}), None, 'pickled builder() failed', 'pickle-builder-fails')
        sc.val(sc.op('params', 3), V2, 'pickled builder creates an actor with other hyper-parameters', 'pickle-builder-differs')
        return sc

    def _stateless_scenario(self, toy: Toy) -> Scenario:
        rng = self.rng
        module, pickler = self._pick_site(toy)
        sc = Scenario(toy, module, pickler)
        args, kw = self._builder_prefix(sc, toy)
        E = self._expected_params(toy, args, kw)
        xs = [rng.randint(-5, 7) for _ in range(2)]
        sc.val(sc.op('stateful'), False, 'is_stateful() is True although the definition has no training implementation',
               'stateful-mismatch')
        sc.val(sc.op('build', 0, [], {}), None, 'builder() failed', 'build-fails')
        sc.val(sc.op('params', 0), toy.vis(E), 'fresh actor does not report the builder\'s hyper-parameters', 'build-params')
        if rng.random() < 0.4:
            self._call_override(sc, toy, args, kw)
        a = sc.op('apply', 0, xs[0])
        sc.val(a, spec_apply0(E, xs[0]), 'stateless actor output differs from the toy arithmetic', 'toy-apply')
        sc.iserr(sc.op('train', 0, 1, 2), 'actor without a training implementation trains', 'stateless-trains')
        sc.val(sc.op('getstate', 0, 0), 'empty', 'stateless actor exports a non-empty state', 'stateless-state')
        sc.val(sc.op('setempty', 0), None, 'set_state(b\'\') failed', 'empty-state')
        sc.val(sc.op('preset', 0, 0), None, 'SetState preset with an empty state failed', 'empty-state')
        sc.same(sc.op('apply', 0, xs[0]), a, 'empty state changed the behaviour', 'empty-state')
        sc.same(sc.op('fapply', 0, xs[0]), a, 'Functor with an empty state preset behaves differently', 'empty-state')
        # somebody else's non-empty state: whatever the actor answers (it has nothing to keep it in), its
        # hyper-parameters and behaviour stay
        if rng.random() < 0.7:
            sc.op('forge', 1, self._kw(toy, lo=1, hi=2, avoid=toy.hidden()))
            sc.op(rng.choice(['setstate', 'preset']), 0, 1)
            sc.val(sc.op('params', 0), toy.vis(E), 'a foreign state changed the hyper-parameters of an actor without training',
                   'params-precedence')
            sc.same(sc.op('apply', 0, xs[0]), a, 'a foreign state changed the behaviour of an actor without training',
                    'params-precedence')
        q = self._kw(toy, lo=1, hi=2, avoid=toy.hidden())
        sc.val(sc.op('setparams', 0, q), None, 'set_params with valid hyper-parameters failed', 'set-params')
        sc.val(sc.op('apply', 0, xs[1]), spec_apply0({**E, **q}, xs[1]), 'set_params is not reflected by apply', 'set-params')
        p_before = sc.op('params', 0)
        root = toy.root if (toy.root or '').startswith('pickle-') else None
        sc.val(sc.op('pickle', 0), None, f'actor does not survive {pickler}', 'pickle-actor-fails')
        sc.same(sc.op('params', 0), p_before, 'pickling changed the hyper-parameters', 'pickle-actor-differs')
        sc.val(sc.op('apply', 0, xs[1]), spec_apply0({**E, **q}, xs[1]), 'pickling changed the behaviour',
               root or 'pickle-actor-differs')
        sc.val(sc.op('bpickle'), None, f'builder does not survive {pickler}', 'pickle-builder-fails')
        sc.val(sc.op('build', 1, [], {}), None, 'pickled builder() failed', 'pickle-builder-fails')
        sc.same(sc.op('apply', 1, xs[0]), a, 'pickled builder creates a differently behaving actor', 'pickle-builder-differs')
        return sc

    def _interleaved_scenario(self, toy: Toy) -> Scenario:
        """Hyper-parameter updates interleaved with training on the twin, followed by the builder (Builder.update per
        set_params); then state transfer to an actor rebuilt from the updated builder, continued training of both with
        further updates, a second transfer and pickling in between."""
        rng = self.rng
        module, pickler = self._pick_site(toy)
        sc = Scenario(toy, module, pickler)
        args, kw = self._builder_prefix(sc, toy)
        posbound = toy.sig['pos'][:len(args)]
        E = self._expected_params(toy, args, kw)
        S = None
        xs = [rng.randint(-5, 7) for _ in range(2)]
        sc.val(sc.op('build', 0, [], {}), None, 'builder() failed', 'build-fails')
        give = (lambda: rng.choice(['setstate', 'preset'])) if toy.own_state else (lambda: 'preset')

        def life(regs, lo, hi):
            nonlocal E, S, kw
            for _ in range(rng.randint(lo, hi)):
                if rng.random() < 0.6 or S is None:
                    x, y = rng.randint(-4, 6), rng.randint(-4, 6)
                    for r in regs:
                        sc.val(sc.op('train', r, x, y), None, 'train failed', 'train-fails')
                    S = spec_train(E, S, x, y)
                else:
                    q = self._kw(toy, lo=1, hi=2, avoid=posbound + toy.hidden())
                    for r in regs:
                        sc.val(sc.op('setparams', r, q), None, 'set_params with valid hyper-parameters failed', 'set-params')
                    sc.val(sc.op('update', [], q), None, 'Builder.update with valid hyper-parameters failed', 'builder-update')
                    kw = {**kw, **q}
                    E = {**E, **q}
                    if rng.random() < 0.3:
                        r = rng.choice(regs)
                        sc.val(sc.op('pickle', r), None, f'trained actor does not survive {pickler}',
                               toy.root if (toy.root or '').startswith('pickle-') else 'pickle-actor-fails')

        life([0], 2, 7)
        twin = []
        for x in xs:
            i = sc.op('apply', 0, x)
            sc.val(i, spec_apply(E, S, x), 'trained and re-parameterised actor output differs from the toy arithmetic', 'toy-apply')
            twin.append(i)
        sc.val(sc.op('params', 0), toy.vis(E), 'set_params is not reflected by get_params', 'set-params')
        sc.val(sc.op('getstate', 0, 0), 'full', 'trained actor exports an empty state', 'trained-state-empty')
        sc.val(sc.op('build', 1, [], {}), None, 'updated builder() failed', 'build-fails')
        sc.val(sc.op(give(), 1, 0), None, 'transfer of the twin\'s state failed', 'transfer-fails')
        sc.val(sc.op('params', 1), toy.vis(E), 'actor rebuilt from the updated builder does not report the builder\'s hyper-parameters '
               'after the state transfer', 'params-precedence')
        for x, t in zip(xs, twin):
            sc.same(sc.op('apply', 1, x), t, 'actor rebuilt from the updated builder with the twin\'s state behaves differently '
                    'from the twin', 'transfer-differs')
        # both live on, identically
        life([0, 1], 1, 5)
        a0 = sc.op('apply', 0, xs[1])
        sc.val(a0, spec_apply(E, S, xs[1]), 'incrementally trained actor differs from the toy arithmetic', 'toy-apply')
        sc.same(sc.op('apply', 1, xs[1]), a0, 'continued life after a state transfer diverges from the twin', 'transfer-differs')
        # a second generation through the platform
        sc.val(sc.op('getstate', 1, 1), 'full', 'trained actor exports an empty state', 'trained-state-empty')
        sc.same(sc.op('fapply', 1, xs[1]), a0, 'Functor with the updated builder and the state preset behaves differently from the twin',
                'transfer-differs')
        return sc

    def _random_scenario(self, toy: Toy) -> Scenario:
        """Unstructured op stream incl. malformed ops; only compared with the model."""
        rng = self.rng
        module, pickler = self._pick_site(toy)
        sc = Scenario(toy, module, pickler)

        def anykw():
            keys = rng.sample([0, 1, 2, 3], rng.randint(0, 3)) if rng.random() < 0.3 else \
                rng.sample(toy.allowed(), rng.randint(0, min(3, len(toy.allowed()))))
            return {k: rng.randint(-3, 5) for k in keys}

        def anyargs():
            return [rng.randint(-3, 5) for _ in range(rng.choice([0, 0, 0, 1, 2, 3]))]

        sc.op('spec', anyargs() if rng.random() < 0.3 else [], anykw())
        if rng.random() < 0.8:
            fill = {k: rng.randint(-3, 5) for k in toy.sig['mand']}
            if fill:
                sc.op('update', [], fill)
            sc.op('build', 0, [], {})
            sc.op('build', 1, [], {})
        for _ in range(rng.randint(8, 30)):
            o = rng.choice(['update', 'reset', 'bpickle', 'build', 'build', 'train', 'train', 'train', 'apply', 'apply',
                            'params', 'setparams', 'stateful', 'getstate', 'getstate', 'setstate', 'setstate', 'setempty',
                            'preset', 'pickle', 'fapply', 'ftrain'] + ([] if toy.trains else ['forge', 'forge']))
            r, k = rng.randint(0, 2), rng.randint(0, 2)
            if o in ('update', 'reset'):
                sc.op(o, anyargs() if rng.random() < 0.3 else [], anykw())
            elif o == 'bpickle' or o == 'stateful':
                sc.op(o)
            elif o == 'forge':
                sc.op(o, k, anykw())
            elif o == 'build':
                sc.op(o, r, anyargs() if rng.random() < 0.15 else [], anykw() if rng.random() < 0.3 else {})
            elif o == 'train':
                sc.op(o, r, rng.randint(-4, 6), rng.randint(-4, 6))
            elif o == 'apply':
                sc.op(o, r, rng.randint(-5, 7))
            elif o in ('params', 'setempty', 'pickle'):
                sc.op(o, r)
            elif o == 'setparams':
                sc.op(o, r, anykw())
            elif o in ('getstate', 'setstate', 'preset'):
                sc.op(o, r, k)
            elif o == 'fapply':
                sc.op(o, k, rng.randint(-5, 7))
            else:
                sc.op(o, k, rng.randint(-4, 6), rng.randint(-4, 6), rng.randint(0, 2))
        return sc

    def _live_scenario(self, toy: Toy, length: typing.Optional[int] = None) -> Scenario:
        """An arbitrary operation sequence on LIVE instances (not straight-line): any interleaving of train / apply /
        get_state / set_state (own earlier state, another twin's state, the empty state) / SetState preset / get_params /
        set_params / Builder.update / pickle round trips / Functor executions over 3 actor registers and 3 state slots,
        generated along the contract machine so that (almost) every op is one the contract speaks about. After most
        exports the behavioural content of the exported bytes is probed (fresh actor from the builder + that state).
        The checks are the contract machine's predictions for every op."""
        rng = self.rng
        module, pickler = self._pick_site(toy)
        sc = Scenario(toy, module, pickler)
        sc.live = True
        sm = SpecMachine(toy)

        def emit(*o):
            sc.op(*o)
            sm.step(list(o))

        mand = toy.sig['mand']
        args: list = []
        kw = self._kw(toy, need=mand)
        if toy.sig['pos'] and toy.store_all and toy.kind != 'decorated' and rng.random() < 0.25:
            args = [rng.randint(-3, 5) for _ in range(rng.randint(1, len(toy.sig['pos'])))]
            for k in toy.sig['pos'][:len(args)]:
                kw.pop(k, None)
        emit('spec', args, kw)
        posbound = toy.sig['pos'][:len(args)]
        emit('build', 0, [], {})
        if rng.random() < 0.8:
            emit('build', 1, [], {})
        xs = [rng.randint(-5, 7) for _ in range(3)]

        def live():
            return [r for r in range(3) if isinstance(sm.regs[r], SpecActor)]

        def trained():
            return [r for r in live() if sm.regs[r].state is not None]

        def full():
            return [k for k in range(3) if sm.blobs[k][0] == 'own' and sm.blobs[k][2] is not None]

        def train(r):
            a = sm.regs[r]
            x, y = rng.randint(-4, 6), rng.randint(-4, 6)
            if rng.random() < 0.07:
                y -= spec_train(a.attrs, a.state, x, y)  # the new state is the integer 0: falsy but genuine
            emit('train', r, x, y)

        def probe(k):
            u = rng.random()
            if u < 0.55:
                emit('fapply', k, rng.choice(xs))
            elif u < 0.8:
                r = rng.choice([2, rng.randint(0, 2)])
                emit('build', r, [], {})
                emit(rng.choice(['setstate', 'preset']) if toy.own_state else 'preset', r, k)
                emit('apply', r, rng.choice(xs))

        n = length or rng.randint(12, 55)
        menu = [('train', 6), ('apply', 4), ('params', 1.2), ('setparams', 1.5), ('getstate', 5), ('setstate', 4), ('preset', 2),
                ('setempty', 0.6), ('pickle', 1.5), ('update', 1), ('bpickle', 0.3), ('build', 1), ('fapply', 1), ('ftrain', 1),
                ('stateful', 0.3), ('forge', 0.0 if toy.trains else 0.6)]
        names, weights = [m[0] for m in menu], [m[1] for m in menu]
        while len(sc.ops) < n:
            o = rng.choices(names, weights)[0]
            regs = live()
            if o in ('update', 'bpickle', 'build', 'fapply', 'ftrain', 'stateful', 'forge'):
                if o == 'update':
                    q = self._kw(toy, lo=1, hi=2, avoid=posbound + toy.hidden())
                    emit('update', [], q)
                    if regs and rng.random() < 0.6:  # the live actors follow (tuner): set_params per Builder.update
                        for r in (regs if rng.random() < 0.5 else [rng.choice(regs)]):
                            emit('setparams', r, q)
                elif o == 'build':
                    emit('build', rng.randint(0, 2), [], self._kw(toy, lo=0, hi=1, avoid=posbound) if rng.random() < 0.2 else {})
                elif o == 'fapply':
                    emit('fapply', rng.randint(0, 2), rng.choice(xs))
                elif o == 'ftrain':
                    if toy.trains:
                        emit('ftrain', rng.randint(0, 2), rng.randint(-4, 6), rng.randint(-4, 6), rng.randint(0, 2))
                elif o == 'forge':
                    emit('forge', rng.randint(0, 2), self._kw(toy, lo=1, hi=2, avoid=toy.hidden()))
                else:
                    emit(o)
                continue
            if not regs:
                emit('build', rng.randint(0, 2), [], {})
                continue
            r = rng.choice(regs)
            if o == 'train':
                if toy.trains:
                    train(r)
                elif rng.random() < 0.1:
                    emit('train', r, 1, 2)
            elif o == 'apply':
                emit('apply', r, rng.choice(xs))
            elif o == 'params':
                emit('params', r)
            elif o == 'setparams':
                emit('setparams', r, self._kw(toy, lo=1, hi=2, avoid=toy.hidden()))
            elif o == 'getstate':
                if toy.trains and not trained():
                    train(r)
                src = rng.choice(trained()) if toy.trains and rng.random() < 0.9 else r
                k = rng.randint(0, 2)
                emit('getstate', src, k)
                if toy.trains:
                    probe(k)
            elif o in ('setstate', 'preset'):
                ks = full()
                k = rng.choice(ks) if ks and rng.random() < 0.85 else rng.randint(0, 2)
                if o == 'setstate' and not toy.own_state and rng.random() < 0.7:
                    o = 'preset'  # user-written state methods: only the platform path promises precedence
                emit(o, r, k)
                if rng.random() < 0.5:
                    emit('apply', r, rng.choice(xs))
                if toy.trains and rng.random() < 0.5 and isinstance(sm.regs[r], SpecActor) and sm.regs[r].state is not None:
                    # what does the receiver export now?
                    k2 = rng.randint(0, 2)
                    emit('getstate', r, k2)
                    probe(k2)
            elif o == 'setempty':
                emit('setempty', r)
            elif o == 'pickle':
                emit('pickle', r)
                if rng.random() < 0.5:
                    emit('apply', r, rng.choice(xs))
        # closing round: every live actor answers, reports, exports; every export is probed
        for r in live():
            emit('apply', r, xs[0])
            emit('params', r)
        if toy.trains:
            for r in trained():
                emit('getstate', r, 0)
                emit('fapply', 0, xs[1])
        sc.checks = live_checks(toy, sc.ops)
        return sc

    def _shrink_live(self, sc: Scenario, chk: list) -> tuple:
        """Greedy shrinking of a failing live sequence on the REAL code: drop ops while some check of the same kind (root-cause
        key up to the provenance suffix) still fails; the contract machine re-derives the checks for every candidate."""
        toy = sc.toy
        kind = chk[-1].split('-after-')[0]

        def failing(ops):
            checks = live_checks(toy, ops)
            obs = run_real(toy, sc.module, sc.pickler, ops)
            for c in checks:
                if c[-1].split('-after-')[0] == kind:
                    f = eval_check(c, obs)
                    if f:
                        return c, f, obs
            return None

        ops = [list(o) for o in sc.ops[:chk[1] + 1]]
        best = failing(ops)
        if best is None:
            return sc.ops, chk, None, None
        ops = ops[:best[0][1] + 1]
        budget = 400
        changed = True
        while changed and budget > 0:
            changed = False
            i = len(ops) - 2
            while i >= 0 and budget > 0:
                cand = ops[:i] + ops[i + 1:]
                budget -= 1
                res = failing(cand)
                if res is not None:
                    ops, best, changed = cand[:res[0][1] + 1], res, True
                    i = min(i, len(ops) - 1)
                i -= 1
        return ops, best[0], best[1], best[2]

    # ---- execution --------------------------------------------------------------------------------
    def _signature(self, sc: Scenario, chk: list, obs: list) -> str:
        """Root-cause key of a failed check (narrow for the definitions that sit on a known-defective path)."""
        sig = chk[-1]
        toy = sc.toy
        if toy.root == 'wrapped-empty-mapping' and any(o == ('err', 'KeyError') for o in obs):
            return 'wrapped-empty-mapping'
        if toy.root == 'wrapped-stateful-noncallable-attr':
            st = [o for op, o in zip(sc.ops, obs) if op[0] == 'stateful']
            if st and st[0] == ('ok', True):
                return 'wrapped-stateful-noncallable-attr'
        if sig == 'pickle-wrapped-mandatory-ctor':
            return sig if obs[chk[1]] == ('err', 'TypeError') else 'pickle-actor-fails'
        if sig == 'pickle-wrapped-hidden-ctor-arg':
            # narrow: no error, the hyper-parameters survived, only the behaviour (the unreported argument) changed
            pick = [i for i, op in enumerate(sc.ops) if op[0] == 'pickle']
            return sig if pick and all(obs[i] == ('ok',) for i in pick) else 'pickle-actor-differs'
        return sig

    def _run_batch(self, scenarios: list, oracle: bool = True, compare: bool = True) -> None:
        answers = self.model([sexp.dumps(['run', sc.toy.flavour()] + [op_sexp(o) for o in sc.ops]) for sc in scenarios]) \
            if compare else [None] * len(scenarios)
        for sc, ans in zip(scenarios, answers):
            obs = run_real(sc.toy, sc.module, sc.pickler, sc.ops)
            ntrain = sum(1 for o in sc.ops if o[0] in ('train', 'ftrain'))
            ntransfer = sum(1 for o in sc.ops if o[0] in ('setstate', 'preset', 'fapply'))
            nontrivial = (ntrain > 0 and ntransfer > 0) or (not sc.toy.trains and any(o[0] == 'setparams' for o in sc.ops))
            self.case((sc.toy.name, repr(sc.ops)),
                      f'{sc.toy.name} {"live" if sc.live else "structured" if sc.checks else "random"} {sc.module}/{sc.pickler}', nontrivial,
                      sample={'toy': sc.toy.name, 'site': sc.module, 'pickler': sc.pickler, 'ops': len(sc.ops),
                              'first_ops': [op_sexp(o) for o in sc.ops[:6]], 'first_obs': [obs_sexp(o) for o in obs[:6]]})
            for ob in obs:
                if ob[0] == 'err':
                    self.errors_hit[ob[1]] += 1
            if compare:
                impl = sexp.dumps(['ok'] + [obs_sexp(o) for o in obs])
                if impl != ans:
                    mo = sexp.loads(ans) if ans != 'bad-op' else 'bad-op'
                    io = sexp.loads(impl)
                    idx = next((i for i, (a, b) in enumerate(zip(io[1:], mo[1:] if isinstance(mo, list) else [])) if a != b), None)
                    self.diverge(f'{sc.toy.name}: observation of op #{idx} {sc.ops[idx] if idx is not None else ""}',
                                 sc.witness(), io[1:][idx] if idx is not None else impl,
                                 (mo[1:][idx] if idx is not None else ans))
            if oracle and sc.live:
                # the first departure from the contract is the root; later ones are its consequences
                first = next((c for c in sc.checks if eval_check(c, obs)), None)
                if first is not None and first[-1] in self._live_reported:
                    first = None  # one shrunk witness per root-cause key (shrinking re-runs the real code many times)
                if first is not None:
                    self._live_reported.add(first[-1])
                    ops, chk, fail, _ = self._shrink_live(sc, first)
                    if fail is None:  # not reproducible on a second run: report the original observation
                        ops, chk, fail = sc.ops, first, eval_check(first, obs)
                    small = Scenario(sc.toy, sc.module, sc.pickler)
                    small.live, small.ops = True, ops
                    self.violate(f'{sc.toy.name} ({sc.toy.kind}, {sc.module}/{sc.pickler}) live op sequence '
                                 f'(shrunk from {len(sc.ops)} to {len(ops)} ops) {[op_sexp(o) for o in ops]}: {chk[-2]}: {fail}',
                                 small.witness(chk), chk[-1])
            elif oracle:
                for chk in sc.checks:
                    fail = eval_check(chk, obs)
                    if fail:
                        sig = self._signature(sc, chk, obs)
                        self.violate(f'{sc.toy.name} ({sc.toy.kind}, {sc.module}/{sc.pickler}): {chk[-2]}: {fail}',
                                     sc.witness(chk), sig)

    # ---- families ----------------------------------------------------------------------------------------------
    def _family_spec(self) -> dict:
        rng = self.rng
        if rng.random() < 0.35:
            return self._wrapdef_spec()
        if rng.random() < 0.7:
            n = rng.randint(2, 5)
            table = []
            for i in range(n):
                base = None if i == 0 or rng.random() < 0.25 else rng.randrange(i)
                own_train = rng.random() < 0.45
                resolved = own_train or (base is not None and chain_resolved(table, base, 1))
                own_state = resolved and rng.random() < 0.2
                table.append([base, own_train, own_state])
            return {'kind': 'chain', 'table': table}
        names = rng.sample(sorted(SHARED), rng.randint(2, 4))
        return {'kind': 'shared', 'names': names}

    def _wrapdef_spec(self) -> dict:
        """a user class (which of apply/predict, train/fit, get_params/hp, set_params/configure, get_state+set_state it
        defines as methods, which names exist as non-callable attributes, rarely: already a flow.Actor) and a mapping
        (per Actor method: not given / a name that is a method / a name that is a non-callable attribute / a missing name /
        a callable / rarely something invalid)"""
        rng = self.rng
        methods = [rng.choice([2, 2, 2, 6]), rng.choice([3, 3, 3, 7]), rng.choice([4, 4, 0])]
        if rng.random() < 0.3:
            methods.append(4 if 0 in methods else 0)
        fit = rng.choice(['method', 'method', 'method', 'flag', 'none'])
        flags = []
        if fit == 'method':
            methods.append(rng.choice([5, 5, 1]))
        elif fit == 'flag':
            flags.append(rng.choice([5, 1]))
        if rng.random() < 0.15:
            flags.append(16)

        def target(k, own):
            u = rng.random()
            if u < 0.55:
                cands = [m for m in own if m in methods]
                if cands:
                    return ['name', rng.choice(cands)]
            if u < 0.75:
                return 'fn'
            if u < 0.85:
                return ['name', rng.choice([15, 16] + flags)]
            if u < 0.88:
                return 'invalid'
            return None

        mapping = []
        for k, own in ((0, (0, 4)), (1, (1, 5)), (2, (2, 6)), (3, (3, 7))):
            t = target(k, own)
            if t is not None:
                mapping.append([k, t])
        rng.shuffle(mapping)
        spec = {'kind': 'wrapdef', 'methods': sorted(set(methods)), 'flags': sorted(set(flags)), 'actor': rng.random() < 0.04,
                'mapping': mapping}
        ok, tm, _ = wrapdef_resolve(spec)
        if ok and tm in ('callable', 'method') and rng.random() < 0.3:
            spec['methods'] = sorted(set(spec['methods']) | {8, 9})  # the origin brings its own state methods
        return spec

    def _family_scenario(self, spec: typing.Optional[dict] = None) -> dict:
        """one structured or random script per member, interleaved in chunks in a random order: in particular the
        first is_stateful query (direct, or through get_state/set_state) of related classes comes in either order."""
        rng = self.rng
        spec = spec or self._family_spec()
        fam = Family(spec)
        self._forced_site = ('dyn', 'cloudpickle')
        def script(t):
            if not fam.accepted:
                return self._random_scenario(t)  # a refused definition: compared with the model only
            u = rng.random()
            return self._structured(t) if u < 0.5 else self._live_scenario(t) if u < 0.8 else self._random_scenario(t)

        try:
            scs = [script(t) for t in fam.members]
        finally:
            self._forced_site = None
        # class-level queries in a random order first (for about half of the families), then chunks
        order: list = []
        left = [len(sc.ops) for sc in scs]
        if rng.random() < 0.5:
            perm = list(range(len(scs)))
            rng.shuffle(perm)
            for sc in scs:
                sc.ops.insert(0, ['stateful'])
                sc.checks = [self._shift(c) for c in sc.checks]
                if fam.accepted:
                    sc.val(0, sc.toy.trains, 'is_stateful() does not say whether the definition has a training implementation',
                           'stateful-mismatch')
            left = [len(sc.ops) - 1 for sc in scs]
            order.extend(perm)
        while any(left):
            m = rng.choice([i for i, n in enumerate(left) if n])
            k = min(left[m], rng.randint(1, 8))
            order.extend([m] * k)
            left[m] -= k
        return {'family': fam, 'scripts': scs, 'order': order}

    @staticmethod
    def _shift(chk: list) -> list:
        chk = list(chk)
        chk[1] += 1
        if chk[0] in ('same', 'applyp'):
            chk[2] += 1
        return chk

    @staticmethod
    def _family_witness(fs: dict, member=None, check=None) -> dict:
        return {'family': fs['family'].spec, 'order': fs['order'],
                'scripts': [[op_sexp(o) for o in sc.ops] for sc in fs['scripts']], 'member': member, 'check': check}

    def _run_families(self, families: list, oracle: bool = True, compare: bool = True) -> None:
        import gc

        try:
            self._run_families_(families, oracle, compare)
        finally:
            for fs in families:
                fs['family'].dispose()
            gc.collect()

    def _run_families_(self, families: list, oracle: bool, compare: bool) -> None:
        lines, owners = [], []
        for fi, fs in enumerate(families):
            for m, sc in enumerate(fs['scripts']):
                lines.append(sexp.dumps(fs['family'].prefixes[m] + [op_sexp(o) for o in sc.ops]))
                owners.append((fi, m))
        answers = dict(zip(owners, self.model(lines))) if compare else {}
        for fi, fs in enumerate(families):
            fam, scs = fs['family'], fs['scripts']
            obs = run_family(fam, [sc.ops for sc in scs], fs['order'])
            related = fam.spec['kind'] in ('shared', 'wrapdef') or any(r[0] is not None for r in fam.spec['table'])
            shape = f'family {fam.spec["kind"]} of {len(scs)}'
            if fam.spec['kind'] == 'wrapdef':
                shape = 'wrapdef ' + ('refused' if not fam.accepted else
                                      ('own-state ' if fam.members[0].kind == 'custom' else '') + str(fam.members[0].flag))
            self.case((repr(fam.spec), tuple(fs['order']), tuple(repr(sc.ops) for sc in scs)), shape, related,
                      sample={'family': fam.spec, 'members': [t.name for t in fam.members], 'ops': len(fs['order']),
                              'order_head': fs['order'][:12]})
            for m, sc in enumerate(scs):
                for ob in obs[m]:
                    if ob[0] == 'err':
                        self.errors_hit[ob[1]] += 1
                if compare:
                    impl = sexp.dumps(['ok'] + [obs_sexp(o) for o in obs[m]])
                    ans = answers[(fi, m)]
                    if impl != ans:
                        mo = sexp.loads(ans) if ans != 'bad-op' else 'bad-op'
                        io = sexp.loads(impl)
                        idx = next((i for i, (a, b) in enumerate(zip(io[1:], mo[1:] if isinstance(mo, list) else [])) if a != b), None)
                        self.diverge(f'family member {sc.toy.name} of {fam.spec}: observation of op #{idx} '
                                     f'{sc.ops[idx] if idx is not None else ""}', self._family_witness(fs, m),
                                     io[1:][idx] if idx is not None else impl, (mo[1:][idx] if idx is not None else ans))
                if oracle:
                    for chk in sc.checks:
                        fail = eval_check(chk, obs[m])
                        if fail:
                            if sc.live and chk[-1] in self._live_reported:
                                break
                            if sc.live:
                                self._live_reported.add(chk[-1])
                            self.violate(f'{sc.toy.name} ({sc.toy.kind}) in family {fam.spec}, classes used in the order '
                                         f'{self._first_use(fs["order"])}: {chk[-2]}: {fail}',
                                         self._family_witness(fs, m, chk), self._signature(sc, chk, obs[m]))
                            if sc.live:
                                break  # the first departure from the contract is the root; the rest are its consequences

    @staticmethod
    def _first_use(order: list) -> list:
        seen: list = []
        for m in order:
            if m not in seen:
                seen.append(m)
        return seen

    def _structured(self, toy: Toy) -> Scenario:
        if not toy.trains:
            return self._stateless_scenario(toy)
        u = self.rng.random()
        return self._stateful_scenario(toy, zero=u < 0.08) if u < 0.6 else self._interleaved_scenario(toy)

    def correspondence(self):
        import collections

        self.errors_hit = collections.Counter()
        self._live_reported: set = set()
        scenarios = []
        # corpus: one structured scenario per definition first
        for toy in TOYS:
            scenarios.append(self._stateful_scenario(toy) if toy.trains else self._stateless_scenario(toy))
            if toy.trains:
                scenarios.append(self._interleaved_scenario(toy))
                scenarios.append(self._stateful_scenario(toy, zero=True))
        for _ in range(self.n(1000, 12000)):
            scenarios.append(self._structured(self.rng.choice(TOYS)))
        for _ in range(self.n(400, 5000)):
            scenarios.append(self._random_scenario(self.rng.choice(TOYS)))
        # operation sequences on live instances, checked op by op against the contract machine
        stateful_toys = [t for t in TOYS if t.trains]
        for toy in TOYS:
            scenarios.append(self._live_scenario(toy))
        for _ in range(self.n(600, 9000)):
            scenarios.append(self._live_scenario(self.rng.choice(stateful_toys if self.rng.random() < 0.8 else TOYS)))
        for i in range(0, len(scenarios), 500):
            self._run_batch(scenarios[i:i + 500])
        # live instances are isolated from each other (C13_instances_isolated), evaluated on the real code alone
        reported = set()
        for sc in [sc for sc in scenarios if sc.live][:self.n(250, 2500)]:
            used = sorted({o[1] for o in sc.ops if o[0] in LOCAL_OPS})
            if len(used) < 2 or sc.toy.name in reported:
                continue
            r = self.rng.choice(used)
            fail = isolation_failure(sc.toy, sc.module, sc.pickler, sc.ops, r)
            if fail:
                reported.add(sc.toy.name)
                self.violate(f'{sc.toy.name} ({sc.toy.kind}, {sc.module}/{sc.pickler}): live instances are not isolated: {fail}',
                             {**sc.witness(), 'isolated': r}, f'live-isolation-{sc.toy.kind}')
        # related actor classes: hand-picked chains first (stateless base -> stateful subclass -> sub-subclass; stateful
        # base -> subclass overriding train / adding state methods; all shared-origin definitions), then random ones
        corpus = [{'kind': 'chain', 'table': [[None, False, False], [0, True, False], [1, False, False]]},
                  {'kind': 'chain', 'table': [[None, True, False], [0, True, False], [0, False, True], [None, False, False]]},
                  {'kind': 'shared', 'names': ['ShWrapA', 'ShWrapB', 'ShWrapB0', 'ShWrapBc']},
                  {'kind': 'shared', 'names': ['ShDeco1', 'ShPair1', 'ShDeco2', 'ShPair2', 'ShPair3']}]
        wd = lambda methods, mapping, flags=(), actor=False: {'kind': 'wrapdef', 'methods': list(methods), 'flags': list(flags),  # noqa: E731
                                                              'actor': actor, 'mapping': mapping}
        corpus += [
            wd([0, 1, 2, 3], []),  # parameterless: every Actor method is the origin's method of the same name
            wd([0, 2, 3, 4, 5, 1], [[0, ['name', 4]], [1, ['name', 5]]]),  # origin ALSO has apply/train: decoys, the mapping wins
            wd([2, 3, 4, 5, 8, 9], [[0, ['name', 4]], [1, ['name', 5]]]),  # origin with its own get_state/set_state
            wd([4, 5, 6, 7, 8, 9], [[0, 'fn'], [1, 'fn'], [2, 'fn'], [3, 'fn']]),  # all callables + own state methods
            wd([2, 3, 4], [[0, ['name', 4]], [1, ['name', 5]]], flags=[5]),  # train -> non-callable attribute
            wd([2, 3, 4, 5], [[0, ['name', 4]], [1, ['name', 15]]]),  # train -> missing name: accepted, stateless
            wd([2, 3, 4, 5], [[0, ['name', 15]], [1, ['name', 5]]]),  # apply -> missing name: refused
            wd([3, 4, 5], [[0, ['name', 4]], [1, ['name', 5]]]),  # no get_params on the origin and none mapped: refused
            wd([2, 3, 4, 5], [[0, ['name', 4]], [1, 'invalid']]),  # invalid mapping value
            wd([0, 2, 3, 5], [[1, ['name', 5]]], actor=True),  # already an actor
        ]
        todo = [spec for spec in corpus for _ in range(3)] + [None] * self.n(220, 2500)
        for i in range(0, len(todo), 50):  # created batch by batch: the classes of a batch are disposed of after it
            self._run_families([self._family_scenario(spec) for spec in todo[i:i + 50]])
        self.extra['error_kinds_hit'] = dict(self.errors_hit)

    def search(self, reason):
        """Widen around the diverging definitions: more structured scenarios, oracle on the real code."""
        names = {d.case['toy'] for d in self.divergences if isinstance(d.case, dict) and 'toy' in d.case}
        if not names and not any(isinstance(d.case, dict) and 'family' in d.case for d in self.divergences):
            names = set(TOY)
        scenarios = [self._structured(TOY[n]) for n in sorted(names) for _ in range(40)]
        scenarios += [self._stateful_scenario(TOY[n], zero=True) for n in sorted(names) if TOY[n].trains for _ in range(4)]
        scenarios += [self._live_scenario(TOY[n]) for n in sorted(names) for _ in range(20)]
        before = len(self.violations)
        self._run_batch(scenarios, oracle=True, compare=False)
        if any(isinstance(d.case, dict) and 'family' in d.case for d in self.divergences):
            specs = [d.case['family'] for d in self.divergences if isinstance(d.case, dict) and 'family' in d.case][:40]
            specs += [None] * 40
            for i in range(0, len(specs), 40):
                self._run_families([self._family_scenario(sp) for sp in specs[i:i + 40]], oracle=True, compare=False)
        self.notes.append(f'failing-input search ({reason}): {len(scenarios)} structured scenarios on {sorted(names)}, '
                          f'{len(self.violations) - before} oracle failures')

    def replay_finding(self, entry):
        w = entry['witness']
        chk = w.get('check')
        if 'family' in w:
            fam = Family(w['family'])
            scripts = [ops_from_json(ops) for ops in w['scripts']]
            obs = run_family(fam, scripts, w['order'])
            if not chk or w.get('member') is None:
                return None
            m = w['member']
            fail = eval_check(chk, obs[m])
            if not fail:
                return None
            sc = Scenario(fam.members[m], 'dyn', 'cloudpickle')
            sc.ops = scripts[m]
            return fw.Violation(f'{fam.members[m].name} in family {w["family"]}: {chk[-2]}: {fail}', w,
                                self._signature(sc, chk, obs[m]))
        toy = TOY[w['toy']]
        fixed = ops_from_json(w['ops'])
        if w.get('isolated') is not None:
            fail = isolation_failure(toy, w['module'], w['pickler'], fixed, w['isolated'])
            return fw.Violation(f'{toy.name}: live instances are not isolated: {fail}', w, f'live-isolation-{toy.kind}') if fail else None
        obs = run_real(toy, w['module'], w['pickler'], fixed)
        if not chk:
            return None
        fail = eval_check(chk, obs)
        if not fail:
            return None
        sc = Scenario(toy, w['module'], w['pickler'])
        sc.ops = fixed
        return fw.Violation(f'{toy.name}: {chk[-2]}: {fail}', w, self._signature(sc, chk, obs))


if __name__ == '__main__':
    raise SystemExit(fw.run(C13))
