"""C14 — push-down hints (per-table column set + row filter) vs lean/ForML/Model/PushDown.lean.

Real code under test: `forml.io.dsl.parser.Visitor` (`Context.Tables.select/filter`, `Segment.predicate`, `visit_table`,
`visit_join`, `visit_query`), `forml.io.dsl._struct.series` (`Predicate.Factors`, `And/Or/Not/Comparison.factors`) and
`forml.provider.feed.lazy._Columns`.

* the model has two variants of the parser: the code that exists and the code as repaired by
  fixes/C14-outer-join-and-scan-segments.diff (findings C14-F1/F2); which one is under test is recognised behaviourally
  once per run (`_probe_variant`);
* correspondence: generated statements are parsed by a *recording* parser (a `parser.Visitor` subclass whose native
  representation is the DSL object itself) and the arguments of every `generate_table(table, features, predicate)` call
  are compared with the model's `hints` of that variant (columns as sets, the predicate as the set of its OR-disjuncts);
* oracle 1 (columns, independent of the model): the columns each scanned origin is used with anywhere in its query
  (clauses + every join condition), computed on the AST, must be contained in the offered column set; the same for
  `lazy._Columns.extract`;
* oracle 2 (filter, independent of the model): a real `alchemy` reader/parser subclass whose `generate_table` *honours*
  the hints (`SELECT <features> FROM <table> WHERE <predicate>`) is run on SQLite over random table contents and
  compared with the same reader ignoring them;
* oracle 3 (contexts, independent of the model): every nested statement parsed on its own is offered the hints it is
  offered inside the enclosing statement;
* the model's own row-level denotation (`exec`) is tied to SQLite on the same statements and data.
"""
from __future__ import annotations

import itertools
import typing

from core import framework as fw
from core import sexp

from . import dslgen as g

# ---- catalog -------------------------------------------------------------------------------------------------
I, BOOL = 'integer', 'boolean'
TA = ('table', 'A', (('id', I), ('x', I), ('y', I), ('g', I), ('f', BOOL)))
TB = ('table', 'B', (('id', I), ('x', I), ('z', I), ('aid', I)))
TC = ('table', 'C', (('id', I), ('w', I), ('bid', I), ('x', I)))
TABLES = (TA, TB, TC)
BYNAME = {t[1]: t for t in TABLES}
LITS = (0, 1, 2, 3, -2, -1)
DOMAIN = (-2, -1, 0, 1, 2, 3, None)
#: integer literals whose CPython hashes collide (hash(-1) == hash(-2) == -2, hash(n) == hash(n + 2**61 - 1)): predicates that
#: differ in them only have equal hashes - anything that tells features apart by hash() confuses them (C14-X7)
TWINS = ((-1, -2), (-2, -1), (2 ** 61 - 1, 0), (0, 2 ** 61 - 1), (2 ** 61, 1), (1, 2 ** 61))
OUTER = ('left', 'right', 'full')

#: the model lines sent per statement (answers are read by position)
MODEL_OPS = (('hints', 'current', 'strict'), ('hints', 'current', 'lenient'), ('hints', 'fixed', 'lenient'), ('lazy',),
             ('needs',), ('uses',), ('scoped',))
A_STRICT, A_CURRENT, A_FIXED, A_LAZY, A_NEEDS, A_USES, A_SCOPED = range(7)

SIG_OUTER = 'filter-under-outer-join'
SIG_ALIAS = 'filter-on-aliased-scan'
SIG_FILTER = 'filter-loses-rows'
SIG_COLS = 'columns-missing'
SIG_LAZY = 'lazy-columns-missing'
SIG_EVAL = 'filter-not-evaluable'
SIG_CTX = 'hints-depend-on-another-context'
SIG_RAISES = 'parser-raises'


def tuplify(x):
    return tuple(tuplify(i) for i in x) if isinstance(x, (list, tuple)) else x


def norm(ast):
    """AST -> the nested-list form `sexp.loads` yields (atoms as str)"""
    return sexp.loads(sexp.dumps(ast))


def E(origin, name):
    return ('elem', origin, name)


def L(n):
    return ('lit', ('int', n))


def X(op, *args):
    return ('expr', op) + args


def Q(src, sel=(), pre=None, grp=(), post=None, order=(), rows=None):
    return ('query', src, tuple(sel), pre, tuple(grp), post, tuple(order), rows)


def J(l, r, kind, cond):
    return ('join', l, r, kind, cond)


# ---- AST utilities (spec side; nothing here looks at forml) ------------------------------------------------------
def feat_elems(f) -> list:
    """all (origin, name) of a feature AST, not descending into element origins"""
    tag = f[0]
    if tag == 'elem':
        return [(f[1], f[2])]
    if tag in ('alias', 'cast'):
        return feat_elems(f[1])
    if tag == 'expr':
        return [e for a in f[2:] for e in feat_elems(a)]
    return []


def leaves(src) -> list:
    """origins of a join tree in left-to-right order"""
    if src[0] == 'join':
        return leaves(src[1]) + leaves(src[2])
    return [src]


def join_conds(src) -> list:
    if src[0] == 'join':
        return ([src[4]] if src[4] is not None else []) + join_conds(src[1]) + join_conds(src[2])
    return []


def query_features(q) -> list:
    _, src, sel, pre, grp, post, order, _ = q
    feats = list(sel) if sel else [f for _, _, f in g.fields_of(src)]
    return feats + ([pre] if pre is not None else []) + list(grp) + ([post] if post is not None else []) + \
        [o[1] for o in order] + join_conds(src)


def scans_spec(stmt) -> list:
    """[(table name, frozenset(needed columns), via_reference, context id, leaf path)] for every table scan of the
    statement, left to right: the columns of that origin used anywhere in the enclosing query."""
    out = []
    counter = itertools.count()

    def statement(s):
        if s[0] == 'set':
            statement(s[1])
            statement(s[2])
        elif s[0] == 'query':
            ctx = next(counter)
            used = [e for f in query_features(s) for e in feat_elems(f)]
            for leaf in leaves(s[1]):
                if leaf[0] == 'table':
                    out.append((leaf[1], frozenset(n for o, n in used if o == leaf), False, ctx, leaf))
                elif leaf[0] == 'ref' and leaf[1][0] == 'table':
                    out.append((leaf[1][1], frozenset(n for o, n in used if o == leaf), True, ctx, leaf))
                elif leaf[0] == 'ref':
                    statement(leaf[1])
                else:
                    statement(leaf)
        else:
            raise ValueError(f'not a statement: {s[0]}')

    statement(stmt)
    return out


def contexts(stmt) -> list:
    """all query nodes of a statement (outer first)"""
    if stmt[0] == 'set':
        return contexts(stmt[1]) + contexts(stmt[2])
    if stmt[0] == 'query':
        out = [stmt]
        for leaf in leaves(stmt[1]):
            if leaf[0] == 'ref' and leaf[1][0] != 'table':
                out += contexts(leaf[1])
        return out
    return []


def has_outer(stmt) -> bool:
    def tree(s):
        return s[0] == 'join' and (s[3] in OUTER or tree(s[1]) or tree(s[2]))
    return any(tree(q[1]) for q in contexts(stmt))


def has_alias(stmt) -> bool:
    """some query scans a table directly and through a reference (two references alone are harmless: only directly
    scanned tables are ever offered a filter)"""
    for q in contexts(stmt):
        ls = leaves(q[1])
        direct = {l[1] for l in ls if l[0] == 'table'}
        if any(l[0] == 'ref' and l[1][0] == 'table' and l[1][1] in direct for l in ls):
            return True
    return False


def spec_factor_tables(pred) -> set:
    """the directly scanned tables a condition constrains on its own, read off the property text: a comparison or a
    negation whose elements all belong to one table constrains that table; a conjunction constrains what either side
    constrains, a disjunction only what both sides do; anything else (a boolean column, a literal ...) nothing"""
    if pred[0] == 'expr' and len(pred) == 4 and pred[1] == 'and':
        return spec_factor_tables(pred[2]) | spec_factor_tables(pred[3])
    if pred[0] == 'expr' and len(pred) == 4 and pred[1] == 'or':
        return spec_factor_tables(pred[2]) & spec_factor_tables(pred[3])
    if pred[0] == 'expr' and (pred[1] == 'not' or pred[1] in g.COMPARISON + g.POSTFIX):
        origins = {o for o, _ in feat_elems(pred)}
        if len(origins) == 1 and next(iter(origins))[0] == 'table':
            return origins
    return set()


def scan_regions(stmt) -> list:
    """per scan (order of `scans_spec`): (f1, f2) - does the scan lie in the region of finding C14-F1 (a factor of an
    outer join's ON condition for a table the join preserves / a factor of a condition applied above an outer join for
    a table it extends with NULLs) or C14-F2 (a table scanned through a reference for which a factor has been registered
    in the same query by then)?  Written from the findings' text, independent of forml and of the Lean `safe`."""
    out = []

    def tree(src, pending, harmful, seen):
        if src[0] == 'join':
            _, left, right, kind, cond = src
            c = [cond] if cond is not None else []
            if kind in ('inner', 'cross'):
                sides = ((c + pending, harmful), (c + pending, harmful))
            elif kind == 'left':
                sides = ((pending, harmful + c), (c, harmful + pending))
            elif kind == 'right':
                sides = ((c, harmful + pending), (pending, harmful + c))
            else:
                sides = (([], harmful + c + pending), ([], harmful + c + pending))
            tree(left, sides[0][0], sides[0][1], c + seen)
            tree(right, sides[1][0], sides[1][1], join_conds(left) + c + seen)
        elif src[0] == 'table':
            out.append((any(src in spec_factor_tables(h) for h in harmful), False))
        elif src[0] == 'ref' and src[1][0] == 'table':
            out.append((False, any(src[1] in spec_factor_tables(q) for q in seen)))
        elif src[0] == 'ref':
            statement(src[1])
        else:
            statement(src)

    def statement(s):
        if s[0] == 'set':
            statement(s[1])
            statement(s[2])
        elif s[0] == 'query':
            pre = [s[3]] if s[3] is not None else []
            tree(s[1], pre, [], pre)
        else:
            raise ValueError(f'not a statement: {s[0]}')

    statement(stmt)
    return out


def nested_statements(stmt, base: int = 0) -> tuple:
    """([(nested statement, index of its first scan in the whole statement)], number of scans of `stmt`): the
    statements referenced inside `stmt` and the sides of set operations, each a query context (or several) of its own"""
    found = []
    if stmt[0] == 'set':
        sub, n1 = nested_statements(stmt[1], base)
        found += [(stmt[1], base)] + sub
        sub, n2 = nested_statements(stmt[2], base + n1)
        found += [(stmt[2], base + n1)] + sub
        return found, n1 + n2
    off = base
    for leaf in leaves(stmt[1]):
        if leaf[0] == 'table' or (leaf[0] == 'ref' and leaf[1][0] == 'table'):
            off += 1
        else:
            inner = leaf[1] if leaf[0] == 'ref' else leaf
            sub, n = nested_statements(inner, off)
            found += [(inner, off)] + sub
            off += n
    return found, off - base


def flatten_or(f) -> list:
    """disjuncts of a (normalised) predicate"""
    if isinstance(f, list) and len(f) == 4 and f[0] == 'expr' and f[1] == 'or':
        return flatten_or(f[2]) + flatten_or(f[3])
    return [f]


def canon_hints(hs) -> list:
    """[(table, sorted cols, sorted distinct disjunct strings)] in call order"""
    out = []
    for table, cols, preds in hs:
        disj = sorted({sexp.dumps(d) for p in preds for d in flatten_or(p)})
        out.append([table, sorted(set(cols)), disj])
    return out


# ---- real code adapters --------------------------------------------------------------------------------------------
_ADAPTERS: dict = {}


def adapters():
    """Classes around the real parser / reader (created once, after forml is importable)."""
    if _ADAPTERS:
        return _ADAPTERS
    import sqlalchemy
    from sqlalchemy import func, sql

    from forml.io import dsl
    from forml.io.dsl import function
    from forml.io.dsl import parser as parsmod
    from forml.provider.feed.reader import alchemy

    class Recorder(parsmod.Visitor):
        """Native representation = the DSL objects themselves; records every generate_table call."""

        def __init__(self):
            super().__init__({}, {})
            self.calls = []

        def resolve_source(self, source):
            return source

        def resolve_feature(self, feature):
            if isinstance(feature, dsl.Element):
                return feature
            raise dsl.UnprovisionedError('no mapping')

        def generate_element(self, origin, element):
            return element

        def generate_alias(self, feature, alias):
            return feature.alias(alias)

        def generate_literal(self, value, kind):
            return dsl.Literal(value)

        def generate_expression(self, expression, arguments):
            return expression(*arguments)

        def generate_table(self, table, features, predicate):
            self.calls.append((table, list(features), predicate))
            return table

        def generate_reference(self, instance, name):
            return instance, instance

        def generate_join(self, left, right, condition, kind):
            return left

        def generate_set(self, left, right, kind):
            return left

        def generate_query(self, source, features, where, groupby, having, orderby, rows):
            return source

    class Honouring(alchemy.Parser):
        """The real SQLAlchemy parser plus a `generate_table` that does what the hints allow a back-end to do."""

        # operator.not_/operator.abs of the stock table do not build SQL (C06's business); this back-end needs them
        EXPRESSION = {**alchemy.Parser.EXPRESSION, function.Not: sql.not_, function.Abs: func.abs}
        MODE = 'ignore'  # ignore | rows | cols | both
        ONLY: typing.Optional[int] = None  # honour the filter of the n-th call only (diagnosis)
        CALLS: list = []

        def generate_table(self, table, features, predicate):
            index = len(self.CALLS)
            features = list(features)
            self.CALLS.append(index)
            rows = self.MODE in ('rows', 'both') and predicate is not None and (self.ONLY is None or self.ONLY == index)
            cols = self.MODE in ('cols', 'both')
            if not rows and not cols:
                return table
            if cols:
                columns = features or [sql.literal(1).label('__none')]
            else:
                columns = [sql.literal_column('*')]
            select = sql.select(*columns).select_from(table)
            if rows:
                select = select.where(predicate)
            return select.subquery(name=table.name)

        def generate_element(self, origin, element):
            # same SQL text as the stock `sql.column(name, _selectable=origin)`, but not bound to the raw table object
            # (SQLAlchemy would otherwise add the raw table to FROM next to the sub-select standing in for it)
            return sql.literal_column(f'"{origin.name}"."{element.name}"')

        def generate_join(self, left, right, condition, kind):
            if kind is dsl.Join.Kind.CROSS:  # a plain cross product (the stock FULL OUTER JOIN ON true is C06's D6)
                return left.join(right, onclause=sql.true())
            return super().generate_join(left, right, condition, kind)

    def reader(mode: str, only: typing.Optional[int], connection, sources):
        calls: list = []
        parser = type('Parser', (Honouring,), {'MODE': mode, 'ONLY': only, 'CALLS': calls})

        class Reader(alchemy.Reader):
            @classmethod
            def parser(cls, sources, features):  # pylint: disable=arguments-renamed
                return parser(sources, features)

        return Reader(sources, {}, connection), calls

    _ADAPTERS.update(Recorder=Recorder, reader=reader, sqlalchemy=sqlalchemy, dsl=dsl)
    return _ADAPTERS


class Impl:
    """One statement on the real code."""

    def __init__(self, ast):
        self.builder = g.Builder()
        self.ast = ast
        self.stmt = self.builder.build(ast)
        self.stored = g.to_ast(self.stmt)  # the structure the constructors stored

    def hints(self):
        """('ok', [(table, cols, [pred asts])]) | ('error', class name)"""
        ad = adapters()
        rec = ad['Recorder']()
        try:
            with rec as visitor:
                self.stmt.accept(visitor)
                visitor.fetch()
        except Exception as e:  # pylint: disable=broad-except
            return 'error', type(e).__name__
        out = []
        for table, features, predicate in rec.calls:
            out.append((table.schema.__name__, [f.name for f in features],
                        [] if predicate is None else [norm(g.to_ast(predicate))]))
        return 'ok', out

    def lazy_columns(self) -> dict:
        from forml.provider.feed import lazy

        return {t.schema.__name__: {c.name for c in cols} for t, cols in lazy._Columns.extract(self.stmt)}  # pylint: disable=protected-access

    def execute(self, db: dict, mode: str, only=None):
        """rows (sorted list of tuples) of the statement on SQLite through the real alchemy parser, or ('error', msg)"""
        ad = adapters()
        con = _Sqlite.load(db)
        sources = {self.builder.table(t): ad['sqlalchemy'].table(t[1]) for t in TABLES}
        rd, calls = ad['reader'](mode, only, con, sources)
        try:
            parsed = rd._parse_statement(self.stmt)  # pylint: disable=protected-access
            result = con.execute(parsed).fetchall()
        except Exception as e:  # pylint: disable=broad-except
            return ('error', f'{type(e).__name__}: {str(e)[:160]}'), len(calls)
        return sorted((tuple(r) for r in result), key=_rowkey), len(calls)


class _Sqlite:
    """one in-memory SQLite connection per process; the three tables are refilled when the data changes"""
    con = None
    loaded = None

    @classmethod
    def load(cls, db: dict):
        if cls.con is None:
            engine = adapters()['sqlalchemy'].create_engine('sqlite://')
            cls.con = engine.connect()
            for table in TABLES:
                cls.con.exec_driver_sql(f'CREATE TABLE "{table[1]}" (' + ', '.join(f'"{c}" INTEGER' for c, _ in table[2]) + ')')
        if cls.loaded is not db:
            for table in TABLES:
                name, fields = table[1], table[2]
                cls.con.exec_driver_sql(f'DELETE FROM "{name}"')
                rows = db.get(name, [])
                if rows:
                    cls.con.exec_driver_sql(f'INSERT INTO "{name}" VALUES (' + ', '.join('?' for _ in fields) + ')',
                                            [tuple(None if v is None else int(v) for v in r) for r in rows])
            cls.loaded = db
        return cls.con


def _rowkey(row):
    return tuple((0, 0) if v is None else (1, v) for v in row)


def drive(task) -> dict:
    """everything the real code does with one statement (runs in a worker process; returns plain data)"""
    label, ast, dbs = task
    out: dict = {'label': label, 'ast': ast, 'runs': []}
    try:
        impl = Impl(ast)
    except Exception as e:  # pylint: disable=broad-except
        out['unbuildable'] = type(e).__name__
        return out
    out['stored'] = impl.stored
    out['status'], out['hints'] = impl.hints()
    if out['status'] != 'ok':
        return out
    try:
        out['lazy'] = {k: sorted(v) for k, v in impl.lazy_columns().items()}
    except Exception as e:  # pylint: disable=broad-except
        out['lazy'] = type(e).__name__
    # every nested statement parsed on its own (its query contexts must be offered the same hints there)
    out['nested'] = []
    try:
        for inner, offset in nested_statements(impl.stored)[0][:6]:
            status, hints = Impl(inner).hints()
            out['nested'].append((offset, status, hints))
    except Exception as e:  # pylint: disable=broad-except
        out['nested'] = type(e).__name__
    for db in dbs:
        ignored, ncalls = impl.execute(db, 'ignore')
        run = {'db': db, 'ignore': ignored, 'ncalls': ncalls, 'both': ignored, 'cols': ignored, 'culprit': None}
        if isinstance(ignored, list):
            run['both'] = impl.execute(db, 'both')[0]
            if run['both'] != ignored:
                run['cols'] = impl.execute(db, 'cols')[0]
                if run['cols'] == ignored:  # which scan's filter changes the result?
                    for k in range(ncalls):
                        if impl.execute(db, 'rows', only=k)[0] != ignored:
                            run['culprit'] = k
                            break
        out['runs'].append(run)
    return out


_POOL = None


def _init_worker(repo):
    import logging
    import sys
    import warnings

    warnings.filterwarnings('ignore')
    logging.disable(logging.CRITICAL)
    if repo not in sys.path[:1]:
        sys.path.insert(0, repo)


def _map(fn, tasks: list) -> list:
    """ordered map over worker processes (sequential for a handful of tasks)"""
    global _POOL  # pylint: disable=global-statement
    if len(tasks) < 24:
        return [fn(t) for t in tasks]
    if _POOL is None:
        import multiprocessing

        _POOL = multiprocessing.get_context('fork').Pool(min(12, multiprocessing.cpu_count()), _init_worker, (fw.REPO,),
                                                         maxtasksperchild=400)
    return _POOL.map(fn, tasks, chunksize=8)


# ---- generator --------------------------------------------------------------------------------------------------------
class Gen:
    """Statements of the property's quantifier: joins of 1..3 origins (tables, references to tables, references to
    nested queries), equality / inequality join conditions, and/or/not predicates over one or several origins."""

    def __init__(self, rng, outer: float = 0.25, alias: float = 0.1, nonpred: float = 0.0):
        self.rng = rng
        self.outer, self.alias, self.nonpred = outer, alias, nonpred
        self.refs = itertools.count()

    def cols(self, origin, kind=I) -> list:
        return [f for _, k, f in g.fields_of(origin) if k == kind]

    def leaf(self, used: list):
        r = self.rng
        free = [t for t in TABLES if t not in used]
        roll = r.random()
        if used and roll < self.alias:
            return ('ref', r.choice(used), f'r{next(self.refs)}')  # self-join through a reference
        table = r.choice(free or TABLES)
        used.append(table)
        if roll < 0.6 or not free:
            return table if free else ('ref', table, f'r{next(self.refs)}')
        if roll < 0.78:
            return ('ref', table, f'r{next(self.refs)}')
        if len(used) > 1 and r.random() < 0.35:
            table = r.choice(used[:-1])  # a nested query over a table the outer query scans as well (separate contexts)
        inner = self.query(n=1, tables=[table], named=True, simple=True)
        return ('ref', inner, f'q{next(self.refs)}')

    def atom(self, origins: list):
        """a comparison over one or two of the origins"""
        r = self.rng
        o1 = r.choice(origins)
        c1 = r.choice(self.cols(o1))
        roll = r.random()
        if roll < 0.12:
            return X(r.choice(('isnull', 'notnull')), c1)
        if roll < 0.2:
            c1 = X(r.choice(('add', 'sub', 'mul')), c1, L(r.choice(LITS)))
        if r.random() < 0.6:
            rhs = L(r.choice(LITS))
        else:
            rhs = r.choice(self.cols(r.choice(origins)))
        if self.nonpred and r.random() < self.nonpred:
            bools = [c for o in origins for c in self.cols(o, BOOL)]
            if bools:
                return r.choice(bools)
        return X(r.choice(g.COMPARISON), c1, rhs)

    def twins(self, origins: list):
        """two predicates over one column which differ in hash-colliding literals only, and/or-combined (optionally each
        and-ed with one and the same further conjunct)"""
        r = self.rng
        col = r.choice(self.cols(r.choice(origins)))
        op = r.choice(g.COMPARISON)
        a, b = r.choice(TWINS)
        left, right = X(op, col, L(a)), X(op, col, L(b))
        roll = r.random()
        if roll < 0.25:
            extra = self.atom(origins)
            left, right = X('and', left, extra), X('and', right, extra)
        elif roll < 0.4:
            left, right = X('not', left), X('not', right)
        return X('or' if r.random() < 0.75 else 'and', left, right)

    def pred(self, origins: list, depth: int):
        r = self.rng
        if r.random() < 0.06:
            return self.twins(origins)
        if depth <= 0 or r.random() < 0.3:
            return self.atom(origins)
        roll = r.random()
        if roll < 0.42:
            return X('and', self.pred(origins, depth - 1), self.pred(origins, depth - 1))
        if roll < 0.8:
            return X('or', self.pred(origins, depth - 1), self.pred(origins, depth - 1))
        return X('not', self.pred(origins, depth - 1))

    def join(self, left, right):
        r = self.rng
        roll = r.random()
        if roll < self.outer:
            kind = r.choice(OUTER)
        elif roll < self.outer + 0.08:
            return J(left, right, 'cross', None)
        else:
            kind = 'inner'
        lo, ro = leaves(left), leaves(right)
        a, b = r.choice(self.cols(r.choice(lo))), r.choice(self.cols(r.choice(ro)))
        cond = X(r.choice(('eq', 'eq', 'eq', 'lt', 'ge', 'ne')), *((a, b) if r.random() < 0.7 else (b, a)))
        roll = r.random()
        if roll < 0.3:
            cond = X('and', cond, self.pred([r.choice(lo + ro)], 1))
        elif roll < 0.38:
            cond = X('or', cond, self.pred(lo + ro, 1))
        elif roll < 0.45:
            cond = X('and', self.pred(lo + ro, 1), cond)
        return J(left, right, kind, cond)

    def tree(self, n: int, tables: typing.Optional[list] = None):
        used: list = []
        if tables:
            origins = list(tables)
        else:
            origins = [self.leaf(used) for _ in range(n)]
        src = origins[0]
        for o in origins[1:]:
            src = self.join(src, o) if self.rng.random() < 0.8 else self.join(o, src)
        return src

    def query(self, n: typing.Optional[int] = None, tables=None, named: bool = False, simple: bool = False):
        r = self.rng
        n = n or r.choice((1, 2, 2, 2, 3, 3))
        src = self.tree(n, tables)
        origins = leaves(src)
        allcols = [c for o in origins for c in self.cols(o)]
        sel, grp, post, order = [], [], None, []
        style = r.random()
        if simple or style < 0.55:
            for _ in range(r.randint(1, 3)):
                c = r.choice(allcols)
                sel.append(c if r.random() < 0.75 else X(r.choice(('add', 'sub', 'mul')), c, r.choice(allcols + [L(1)])))
        elif style < 0.7:
            sel = []  # all the features of the source
        else:
            keys = list(dict.fromkeys(r.choice(allcols) for _ in range(r.randint(1, 2))))
            grp = keys
            sel = [k for k in keys if r.random() < 0.7] + \
                [X(r.choice(('count', 'sum', 'min', 'max')), r.choice(allcols)) for _ in range(r.randint(1, 2))]
            if r.random() < 0.4:
                post = X(r.choice(g.COMPARISON), X('count', r.choice(allcols)), L(r.choice((0, 1, 2))))
        if sel or named:
            if not sel:
                sel = allcols[:3]
            sel = [('alias', f, f'c{i}') for i, f in enumerate(sel)]
        pre = self.pred(origins, r.choice((0, 1, 2, 2, 3))) if r.random() < 0.85 else None
        if not simple and r.random() < 0.25:
            order = [('ord', r.choice(allcols), r.choice(('asc', 'desc')))]
        return Q(src, sel, pre, grp, post, order)

    def statement(self):
        if self.rng.random() < 0.1:
            left = self.query(n=self.rng.choice((1, 2)), simple=True)
            right = self.query(n=self.rng.choice((1, 2)), simple=True)
            width = min(len(left[2]), len(right[2]))
            left = left[:2] + (left[2][:width],) + left[3:]
            right = right[:2] + (right[2][:width],) + right[3:]
            return ('set', left, right, self.rng.choice(g.SET_KINDS))
        return self.query()

    @staticmethod
    def dense_db() -> dict:
        """every value of the domain in every integer column (rotated so that rows differ), ids 1..n"""
        out = {}
        for table in TABLES:
            rows = []
            for i in range(len(DOMAIN)):
                shift = iter(range(i, i + 99))
                rows.append(tuple(i + 1 if c == 'id' else (i % 2 if k == BOOL else DOMAIN[next(shift) % len(DOMAIN)])
                                  for c, k in table[2]))
            out[table[1]] = rows
        return out

    def db(self) -> dict:
        r = self.rng
        out = {}
        for table in TABLES:
            n = r.choice((0, 1, 3, 4, 5, 6))
            out[table[1]] = [tuple(r.choice((0, 1, None)) if k == BOOL else (i + 1 if c == 'id' and r.random() < 0.7 else r.choice(DOMAIN))
                                   for c, k in table[2]) for i in range(n)]
        return out


def exec_fragment(stmt) -> bool:
    """statements the model's `simpleSem` can run: plain projections (no grouping / ordering / boolean column)"""
    for q in contexts(stmt):
        if q[4] or q[5] is not None or q[6] or q[7] is not None:
            return False
        for f in query_features(q):
            for node in g.subfeatures(f):
                if node[0] == 'expr' and node[1] not in g.COMPARISON + g.POSTFIX + g.LOGICAL2 + ('not', 'add', 'sub', 'mul'):
                    return False
                if node[0] == 'elem' and g.kind_of(node) != I:
                    return False
                if node[0] in ('cast', 'window'):
                    return False
        if not q[2] and any(k != I for _, k, _ in g.fields_of(q[1])):
            return False
    return True


def db_sexp(db: dict):
    return tuple((t[1], tuple(c for c, _ in t[2]),
                  tuple(tuple('null' if v is None else (bool(v) if k == BOOL else v) for v, (_, k) in zip(row, t[2]))
                        for row in db.get(t[1], []))) for t in TABLES)


def model_rows(answer: str):
    a = sexp.loads(answer)
    if not isinstance(a, list) or a[0] != 'ok':
        return ('error', a)
    rows = [tuple(None if v == 'null' else 1 if v == 'true' else 0 if v == 'false' else int(v) for v in r) for r in a[1:]]
    return sorted(rows, key=_rowkey)


# ---- the check -----------------------------------------------------------------------------------------------------------
CORPUS: list = []


def _corpus():
    if CORPUS:
        return CORPUS
    a, b, c = TA, TB, TC
    r = ('ref', a, 'r')
    ab = J(a, b, 'inner', X('eq', E(a, 'id'), E(b, 'aid')))
    CORPUS.extend([
        ('and-two-tables', Q(ab, [E(a, 'x')], X('and', X('gt', E(a, 'x'), L(1)), X('gt', E(b, 'z'), L(2))))),
        ('and-nested', Q(ab, [E(a, 'x')], X('and', X('gt', E(a, 'x'), L(1)), X('and', X('gt', E(b, 'z'), L(2)), X('gt', E(a, 'y'), L(3)))))),
        ('eq-join-columns', Q(ab, [E(a, 'x')])),
        ('lt-join-columns', Q(J(a, b, 'inner', X('lt', E(a, 'id'), E(b, 'aid'))), [E(a, 'x')])),
        ('join-cond-factor', Q(J(a, b, 'inner', X('and', X('eq', E(a, 'id'), E(b, 'aid')), X('gt', E(a, 'y'), L(1)))), [E(b, 'z')])),
        ('not', Q(a, [E(a, 'x')], X('not', X('gt', E(a, 'x'), L(1))))),
        ('not-two-tables', Q(ab, [E(a, 'x')], X('not', X('and', X('gt', E(a, 'x'), L(1)), X('gt', E(b, 'z'), L(2)))))),
        ('or-one-sided', Q(ab, [E(a, 'x')], X('or', X('gt', E(a, 'x'), L(1)), X('lt', E(a, 'y'), E(b, 'z'))))),
        ('or-two-tables', Q(ab, [E(a, 'x')], X('or', X('gt', E(a, 'x'), L(1)), X('gt', E(b, 'z'), L(2))))),
        ('or-common', Q(ab, [E(a, 'x')], X('or', X('and', X('gt', E(a, 'x'), L(1)), X('gt', E(b, 'z'), L(2))),
                                         X('and', X('lt', E(a, 'x'), L(0)), X('gt', E(b, 'x'), L(3)))))),
        ('same-both-sides', Q(a, [E(a, 'x')], X('and', X('gt', E(a, 'x'), L(1)), X('gt', E(a, 'x'), L(1))))),
        ('reference-only', Q(r, [E(r, 'x')], X('gt', E(r, 'y'), L(0)))),
        ('reference-mixed-cond', Q(J(a, r, 'inner', X('lt', E(a, 'id'), E(r, 'y'))), [E(a, 'x'), E(r, 'x')])),
        ('self-join-filter', Q(J(a, r, 'inner', X('eq', E(a, 'id'), E(r, 'g'))), [E(a, 'x'), E(r, 'x')], X('gt', E(a, 'x'), L(1)))),
        ('left-join-where-right', Q(J(a, b, 'left', X('eq', E(a, 'id'), E(b, 'aid'))), [E(a, 'x'), E(b, 'z')], X('gt', E(b, 'z'), L(1)))),
        ('left-join-on-left', Q(J(a, b, 'left', X('and', X('eq', E(a, 'id'), E(b, 'aid')), X('gt', E(a, 'x'), L(1)))), [E(a, 'x'), E(b, 'z')])),
        ('left-join-isnull', Q(J(a, b, 'left', X('eq', E(a, 'id'), E(b, 'aid'))), [E(a, 'x'), E(b, 'z')], X('isnull', E(b, 'z')))),
        ('all-features', Q(a, [], X('gt', E(a, 'x'), L(1)))),
        ('three-tables', Q(J(ab, c, 'inner', X('and', X('eq', E(c, 'bid'), E(b, 'id')), X('gt', E(b, 'z'), L(0)))), [E(a, 'x'), E(c, 'w')],
                           X('not', X('and', X('gt', E(a, 'x'), L(1)), X('gt', E(b, 'z'), L(2)))))),
        ('right-nested', Q(J(a, J(b, c, 'inner', X('and', X('lt', E(c, 'bid'), E(b, 'id')), X('gt', E(b, 'z'), L(0)))), 'inner',
                             X('eq', E(a, 'id'), E(b, 'aid'))), [E(a, 'x')])),
        ('grouped', Q(a, [E(a, 'g'), X('count', E(a, 'y'))], X('gt', E(a, 'x'), L(0)), [E(a, 'g')], X('gt', X('count', E(a, 'y')), L(1)),
                      [('ord', E(a, 'id'), 'asc')])),
        ('set', ('set', Q(a, [E(a, 'x')], X('gt', E(a, 'x'), L(1))), Q(a, [E(a, 'x')], X('gt', E(a, 'y'), L(2))), 'union')),
    ])
    onab = X('eq', E(a, 'id'), E(b, 'aid'))
    bc = J(b, c, 'left', X('eq', E(c, 'bid'), E(b, 'id')))
    CORPUS.extend([
        # outer joins: factors of the ON condition for the optional side (harmless), for the preserved side (C14-F1),
        # conditions from above on either side, nesting, right / full joins
        ('left-join-on-right', Q(J(a, b, 'left', X('and', onab, X('gt', E(b, 'z'), L(1)))), [E(a, 'x'), E(b, 'z')])),
        ('left-join-where-left', Q(J(a, b, 'left', onab), [E(a, 'x'), E(b, 'z')], X('gt', E(a, 'x'), L(1)))),
        ('right-join-on-left', Q(J(a, b, 'right', X('and', onab, X('gt', E(a, 'x'), L(1)))), [E(a, 'x'), E(b, 'z')])),
        ('right-join-on-right', Q(J(a, b, 'right', X('and', onab, X('gt', E(b, 'z'), L(1)))), [E(a, 'x'), E(b, 'z')])),
        ('right-join-isnull', Q(J(a, b, 'right', onab), [E(a, 'x'), E(b, 'z')], X('isnull', E(a, 'x')))),
        ('full-join-on-left', Q(J(a, b, 'full', X('and', onab, X('gt', E(a, 'x'), L(1)))), [E(a, 'x'), E(b, 'z')])),
        ('full-join-on', Q(J(a, b, 'full', X('and', onab, X('gt', E(b, 'z'), L(1)))), [E(a, 'x'), E(b, 'z')])),
        ('full-join-where', Q(J(a, b, 'full', onab), [E(a, 'x'), E(b, 'z')], X('or', X('isnull', E(a, 'x')), X('isnull', E(b, 'z'))))),
        ('left-nested-left', Q(J(a, bc, 'left', X('and', onab, X('isnull', E(c, 'w')))), [E(a, 'x'), E(b, 'z'), E(c, 'w')],
                               X('gt', E(a, 'y'), L(0)))),
        ('inner-above-left', Q(J(J(a, b, 'left', onab), c, 'inner', X('and', X('eq', E(c, 'bid'), E(b, 'id')), X('notnull', E(b, 'z')))),
                               [E(a, 'x'), E(c, 'w')], X('gt', E(a, 'x'), L(0)))),
        ('inner-below-left', Q(J(a, J(b, c, 'inner', X('and', X('eq', E(c, 'bid'), E(b, 'id')), X('gt', E(c, 'w'), L(0)))), 'left', onab),
                               [E(a, 'x'), E(c, 'w')], X('isnull', E(c, 'w')))),
        # scans through references: before / after the factor of the table is registered, two references, reference on
        # the optional side of an outer join
        ('alias-on-factor', Q(J(r, a, 'inner', X('and', X('eq', E(r, 'x'), E(a, 'x')), X('gt', E(a, 'x'), L(1)))), [E(a, 'x'), E(r, 'y')])),
        ('alias-late-factor', Q(J(r, J(a, b, 'inner', X('and', onab, X('gt', E(a, 'x'), L(1)))), 'inner', X('eq', E(r, 'x'), E(b, 'z'))),
                                [E(r, 'x'), E(a, 'y')])),
        ('two-references', Q(J(r, ('ref', a, 's'), 'inner', X('lt', E(r, 'x'), E(('ref', a, 's'), 'y'))),
                             [E(r, 'g'), E(('ref', a, 's'), 'id')], X('gt', E(r, 'x'), L(0)))),
        ('alias-left-join', Q(J(a, r, 'left', X('eq', E(a, 'id'), E(r, 'g'))), [E(a, 'x'), E(r, 'x')], X('gt', E(a, 'x'), L(1)))),
        # columns: grouping without HAVING, ordering only, columns used only through a reference / a referenced query
        ('group-no-having', Q(ab, [X('count', E(b, 'z'))], None, [E(a, 'g')])),
        ('group-having', Q(ab, [X('count', E(b, 'z'))], None, [E(a, 'g')], X('gt', X('count', E(a, 'y')), L(0)))),
        ('order-only', Q(a, [E(a, 'x')], None, [], None, [('ord', E(a, 'y'), 'desc')])),
        ('reference-star', Q(r, [], X('gt', E(r, 'y'), L(0)))),
    ])
    low = ('ref', Q(a, [('alias', E(a, 'id'), 'k'), ('alias', E(a, 'x'), 'v')], X('lt', E(a, 'x'), L(2))), 'low')
    top = ('ref', Q(a, [('alias', E(a, 'id'), 'k'), ('alias', E(a, 'y'), 'v')], X('gt', E(a, 'g'), L(0))), 'top')
    CORPUS.extend([
        # several query contexts scanning one table
        ('two-contexts', Q(J(low, top, 'inner', X('eq', E(low, 'k'), E(top, 'k'))), [E(low, 'v'), E(top, 'v')])),
        ('two-contexts-outer', Q(J(low, top, 'left', X('eq', E(low, 'k'), E(top, 'k'))), [E(low, 'v'), E(top, 'v')], X('isnull', E(top, 'v')))),
        ('context-and-direct', Q(J(a, low, 'inner', X('eq', E(a, 'id'), E(low, 'k'))), [E(a, 'y'), E(low, 'v')], X('gt', E(a, 'g'), L(1)))),
        ('set-same-table', ('set', Q(a, [E(a, 'x')], X('gt', E(a, 'x'), L(1))), Q(r, [E(r, 'y')], X('lt', E(r, 'g'), L(2))), 'union')),
    ])
    big = 2 ** 61 - 1
    CORPUS.extend([
        # predicates with equal hashes (hash(-1) == hash(-2), hash(2**61 - 1) == hash(0)) are different predicates
        ('hash-twins-or', Q(a, [E(a, 'x')], X('or', X('gt', E(a, 'x'), L(-1)), X('gt', E(a, 'x'), L(-2))))),
        ('hash-twins-or-big', Q(a, [E(a, 'x')], X('or', X('gt', E(a, 'x'), L(big)), X('gt', E(a, 'x'), L(0))))),
        ('hash-twins-and', Q(a, [E(a, 'x')], X('and', X('lt', E(a, 'x'), L(-1)), X('lt', E(a, 'x'), L(-2))))),
        ('hash-twins-nested', Q(ab, [E(a, 'x'), E(b, 'z')],
                                X('or', X('and', X('ge', E(a, 'y'), L(-1)), X('gt', E(b, 'z'), L(0))),
                                  X('and', X('ge', E(a, 'y'), L(-2)), X('gt', E(b, 'z'), L(0)))))),
        ('hash-twins-join-on', Q(J(a, b, 'inner', X('and', onab, X('or', X('eq', E(b, 'z'), L(-2)), X('eq', E(b, 'z'), L(-1))))),
                                 [E(a, 'x'), E(b, 'z')])),
    ])
    q = ('ref', Q(a, [('alias', E(a, 'x'), 'c0'), ('alias', E(a, 'y'), 'c1')], X('gt', E(a, 'x'), L(1))), 'q')
    CORPUS.append(('nested-join', Q(J(q, b, 'inner', X('eq', E(q, 'c0'), E(b, 'z'))), [E(q, 'c1'), E(b, 'x')], X('gt', E(b, 'x'), L(1)))))
    return CORPUS


class C14(fw.Check):
    ID = 'C14'
    LEAN_MODULES = ['ForML.Props.C14']
    DRIVER = 'drv_c14'
    RULE = ('statements = queries / sets of queries over joins of 1..3 origins (tables, references to tables incl. '
            'self-joins, references to nested queries) with inner/cross/left/right/full joins, equality and inequality '
            'join conditions optionally and/or-combined with predicates, prefilters = and/or/not trees (depth <= 3) of '
            'comparisons / IS NULL over one or several origins, plain / all-features / grouped selections, having, '
            'ordering; three-table outer-join skeletons (both nestings x all pairs of join kinds x IS NULL / NOT NULL prefilters); '
            'plus the shared dslgen statements (hints and columns only). Every statement is parsed by the '
            'real parser (recorded generate_table calls compared with the variant of the model under test, columns oracle, '
            'context oracle, lazy._Columns) and '
            'executed on SQLite over 2 (thorough 3) random table contents (values -2..3 and NULL, 0..6 rows) ignoring / '
            'honouring the hints; the model denotation is run on the same data for plain projections. A case is distinct '
            'by (statement, data) and non-trivial when some scan is offered a row filter.')
    TRUSTED = [
        'SQLite + SQLAlchemy as the evaluator of both the hint-honouring and the hint-ignoring back-end (same engine on both sides)',
        'the hint-honouring back-end is a harness subclass of forml.provider.feed.reader.alchemy.Parser/Reader: generate_table = '
        'SELECT <offered features> FROM <table> WHERE <offered predicate>; NOT/ABS rendering and CROSS join replaced (C06 defects)',
        'parametric denotation: scalar operators, aggregation/ordering/limit (`finish`) and set operators are parameters of the '
        'Lean theorems; AND/OR/NOT are Kleene 3-valued, a row passes iff the condition is TRUE',
    ]
    ASSUMPTIONS = [
        'join conditions reference only origins of their own join (enforced by dsl.Join.__new__, checked by a malformed stream)',
        'origins of one query are pairwise distinct (SQL requires distinct table names / aliases)',
        'two predicates of one table are one factor iff they are structurally identical (what the DSL equality is since 9f6ec89); '
        'hash-colliding literal pairs (-1/-2, 0/2**61-1, 1/2**61) are generated on purpose (C14-X7)',
    ]

    # ---- judging one driven statement ------------------------------------------------------------------------------
    def _columns_oracle(self, ast, hints, lazy, label: str):
        """needs of every scan must be offered (matching scans of the same table in any order)"""
        spec = scans_spec(ast)
        by_table: dict = {}
        for name, need, *_ in spec:
            by_table.setdefault(name, []).append(need)
        offered: dict = {}
        for name, cols, _ in hints:
            offered.setdefault(name, []).append(set(cols))
        for name, needs in by_table.items():
            offers = offered.get(name, [])
            if len(offers) != len(needs):
                self.diverge('number of generate_table calls for a table differs from its scans',
                             {'stmt': ast, 'label': label}, {name: len(offers)}, {name: len(needs)})
                continue
            ok = any(all(n <= o for n, o in zip(needs, perm)) for perm in itertools.permutations(offers))
            if not ok:
                missing = sorted(set().union(*needs) - set().union(*offers)) or sorted(set().union(*needs))
                self.violate(f'columns {missing} of table {name} are used by the statement but not in the offered column set '
                             f'{[sorted(o) for o in offers]}', {'kind': 'columns', 'stmt': ast}, SIG_COLS,
                             {'label': label, 'needs': [sorted(n) for n in needs]})
        if isinstance(lazy, str):
            self.diverge('lazy._Columns.extract raised', {'stmt': ast}, lazy, None)
            return
        for name, needs in by_table.items():
            need = set().union(*needs)
            if not need <= set(lazy.get(name, ())):
                self.violate(f'lazy._Columns.extract offers {sorted(lazy.get(name, ()))} for table {name}, the statement uses '
                             f'{sorted(need)}', {'kind': 'lazy-columns', 'stmt': ast}, SIG_LAZY, {'label': label})

    def _context_oracle(self, ast, hints, nested, label: str):
        """a nested statement (referenced query, side of a set operation) is offered, inside the statement, exactly the
        hints it is offered when parsed on its own: hints depend only on the query context that scans the table"""
        if not nested:
            return
        if isinstance(nested, str):
            self.notes.append(f'nested statements of {label} could not be parsed on their own: {nested}')
            return
        whole = canon_hints(hints)
        for offset, status, inner in nested:
            if status != 'ok':
                continue
            alone = canon_hints(inner)
            if whole[offset:offset + len(alone)] != alone:
                self.violate(f'scans {offset}..{offset + len(alone) - 1} belong to a nested statement which on its own is offered '
                             f'{alone}, inside the statement {whole[offset:offset + len(alone)]}: the hints of a scan depend on '
                             f'another query context', {'kind': 'columns', 'stmt': ast}, SIG_CTX, {'label': label})
                return

    def _exec_oracle(self, ast, run: dict, label: str):
        """honouring == ignoring on this data (`run` = what `drive` observed on one table content)"""
        ignored, both, db = run['ignore'], run['both'], run['db']
        if not isinstance(ignored, list):
            self.notes.append(f'statement not executable on SQLite ({str(ignored)[:80]}): {sexp.dumps(ast)[:200]}')
            return
        if both == ignored:
            return
        witness = {'kind': 'exec', 'stmt': ast, 'db': db}
        cols = run['cols']
        if cols != ignored:
            what = cols[1] if not isinstance(cols, list) else 'different rows'
            self.violate(f'a back-end restricted to the offered columns cannot answer the statement as the unrestricted one: {what}',
                         witness, SIG_COLS, {'label': label})
            return
        k = run['culprit']
        spec = scans_spec(ast)
        sig, name = SIG_FILTER, '?'
        if k is not None and k < len(spec) and len(spec) == run['ncalls']:
            name = spec[k][0]
            # one of the listed findings only if the culprit scan itself lies in the finding's region (computed from
            # the findings' text on the AST) and the code under test does not claim to be repaired
            f1, f2 = scan_regions(ast)[k]
            if self.variant != 'fixed' and f2:
                sig = SIG_ALIAS
            elif self.variant != 'fixed' and f1:
                sig = SIG_OUTER
        if not isinstance(both, list):
            self.violate(f'the row filter offered for table {name} (scan {k}) cannot be evaluated on that table alone: {both[1]}',
                         witness, SIG_EVAL, {'label': label})
            return
        change = f'{len(both)} rows instead of {len(ignored)}' if len(both) != len(ignored) else f'{len(both)} rows, but other ones'
        self.violate(f'pre-filtering table {name} (scan {k}) by the offered row filter changes the result: {change}',
                     witness, sig, {'label': label, 'honoured': both, 'ignored': ignored})

    def _judge(self, obs: dict, lines: list, pending: list):
        """account one driven statement, run the oracles on what the real code did, queue the model lines"""
        label = obs['label']
        if 'unbuildable' in obs:
            self.case(('unbuildable', obs['ast']), f'{label} unbuildable:{obs["unbuildable"]}', nontrivial=False)
            return
        stored, status, hints = obs['stored'], obs['status'], obs['hints']
        for op in MODEL_OPS:
            lines.append(sexp.dumps(op + (stored,)))
        entry = {'label': label, 'ast': stored, 'status': status, 'hints': hints, 'at': len(lines) - len(MODEL_OPS), 'exec': [],
                 'lazy': obs.get('lazy'), 'viol': (0, 0)}
        pending.append(entry)
        filtered = status == 'ok' and any(p for _, _, p in hints)
        shape = f'{label} origins={len(scans_spec(stored))} ' \
                f'{"outer " if has_outer(stored) else ""}{"alias " if has_alias(stored) else ""}' \
                f'{"filtered" if filtered else "unfiltered" if status == "ok" else "error:" + str(hints)}'
        if status != 'ok':
            self.case(('stmt', stored), shape, nontrivial=False)
            return
        before = len(self.violations)
        entry['viol'] = (before, before)
        self._columns_oracle(stored, hints, obs['lazy'], label)
        self._context_oracle(stored, hints, obs.get('nested'), label)
        sample = {'statement': sexp.dumps(stored)[:300], 'hints': canon_hints(hints)}
        if not obs['runs']:
            self.case(('stmt', stored), shape, nontrivial=filtered, sample=sample)
            return
        tie = exec_fragment(stored)
        for run in obs['runs']:
            self.case(('stmt', stored, sorted(run['db'].items())), shape, nontrivial=filtered, sample=sample)
            self._exec_oracle(stored, run, label)
            if tie and isinstance(run['ignore'], list):
                for mode in ('ignore', 'both'):
                    lines.append(sexp.dumps(('exec', 'fixed' if self.variant == 'fixed' else 'current', mode, stored,
                                             db_sexp(run['db']))))
                entry['exec'].append((len(lines) - 2, run))
        entry['viol'] = (before, len(self.violations))

    def _compare(self, pending: list, answers: list):
        for entry in pending:
            at = entry['at']
            strict = answers[at + A_STRICT]
            case = {'stmt': entry['ast'], 'label': entry['label']}
            if entry['status'] == 'error':
                if entry['label'] == 'dslgen' and entry['hints'] != 'AttributeError':
                    continue  # a construct of the shared generator outside this model (accounted as error:<class>)
                if entry['hints'] == 'AttributeError':
                    if sexp.loads(strict) != ['error', 'AttributeError']:
                        self.diverge('parser raised AttributeError, the model offers hints', case, 'AttributeError', strict)
                else:
                    self.diverge('parser raised', case, entry['hints'], strict)
                    if entry['label'] != 'dslgen':
                        # a statement of the property's quantifier for which the model (hence the theorems) has hints:
                        # no hints are offered at all - the statement itself is the failing input
                        self.violate(f'the parser raises {entry["hints"]} instead of offering hints for a statement of the '
                                     f'property\'s quantifier', {'kind': 'raises', 'stmt': entry['ast']}, SIG_RAISES,
                                     {'label': entry['label']})
                continue
            mine = canon_hints(entry['hints'])
            modelled = {}
            for variant, pos in (('current', A_CURRENT), ('fixed', A_FIXED)):
                ans = sexp.loads(answers[at + pos])
                modelled[variant] = canon_hints([(h[1], h[2], h[3]) for h in ans[1:]]) \
                    if isinstance(ans, list) and ans[0] == 'ok' else answers[at + pos]
            if self.variant == 'mixed':  # a tree with one of the two repairs: either model, statement by statement
                if mine not in modelled.values():
                    self.diverge('generate_table arguments (neither variant of the model)', case, mine, modelled)
            elif not isinstance(modelled[self.variant], list):
                self.diverge('model has no hints for a statement the parser accepts', case, mine, modelled[self.variant])
                continue
            elif mine != modelled[self.variant]:
                self.diverge(f'generate_table arguments ({self.variant} variant of the model)', case, mine, modelled[self.variant])
            # lazy._Columns.extract vs the model's lazyS
            if isinstance(entry['lazy'], dict):
                lazy: dict = {}
                for t, c in sexp.loads(answers[at + A_LAZY])[1:]:
                    lazy.setdefault(t, set()).add(c)
                lazy = {t: sorted(cs) for t, cs in lazy.items()}
                if lazy != {t: sorted(cs) for t, cs in entry['lazy'].items() if cs}:
                    self.diverge('lazy._Columns.extract', case, entry['lazy'], lazy)
            # the specification functions of the theorems vs the independent ones of the oracles
            spec = scans_spec(entry['ast'])
            wanted = [sorted(n) for _, n, *_ in spec]
            for pos, name in ((A_NEEDS, 'needs'), (A_USES, 'usesIn')):
                got = [sorted(set(n)) for n in sexp.loads(answers[at + pos])[1:]]
                if got != wanted:
                    self.diverge(f'spec `{name}` (Lean) vs used columns per scan (oracle)', case, wanted, got)
            scoped = sexp.loads(answers[at + A_SCOPED])  # ok innerOnly safe-current grammarScoped shaped safe-fixed
            regions = scan_regions(entry['ast'])
            mine_scoped = ['ok', 'false' if has_outer(entry['ast']) else 'true',
                           'false' if any(f1 or f2 for f1, f2 in regions) else 'true']
            if entry['label'] != 'dslgen' and scoped[:3] != mine_scoped:
                self.diverge('hypotheses innerOnly / safe (Lean) vs outer-join detection / regions of the findings (oracle)', case,
                             mine_scoped, scoped)
            if entry['label'] != 'dslgen' and scoped[3:] != ['true', 'true', 'true']:
                self.diverge('generated statement is not `grammarScoped` / `shaped`, or the repaired model is not `safe`', case,
                             'true', scoped)
            # hypotheses of C14_filter_partial (code that exists) / C14_filter_fixed (repaired code)
            proved = scoped[3] == 'true' and (self.variant == 'fixed' or scoped[2] == 'true')
            self.extra['in_proved_fragment'] = self.extra.get('in_proved_fragment', 0) + int(proved)
            self.extra['outer_joins_in_proved_fragment'] = self.extra.get('outer_joins_in_proved_fragment', 0) + \
                int(proved and has_outer(entry['ast']))
            self.extra['aliased_scans_in_proved_fragment'] = self.extra.get('aliased_scans_in_proved_fragment', 0) + \
                int(proved and has_alias(entry['ast']))
            if proved:
                # a filter violation here contradicts the theorem: never to be taken for one of the listed findings
                lo, hi = entry['viol']
                for i in range(lo, hi):
                    v = self.violations[i]
                    if v.signature in (SIG_OUTER, SIG_ALIAS):
                        self.violations[i] = v._replace(signature=SIG_FILTER,
                                                        what=v.what + ' (statement is in the fragment proved safe)')
            for at_exec, run in entry['exec']:
                for offset, mode in enumerate(('ignore', 'both')):
                    if self.variant == 'mixed' and mode == 'both':
                        continue
                    rows, real = model_rows(answers[at_exec + offset]), run[mode]
                    if isinstance(real, list) and rows != real:
                        self.diverge(f'row-level denotation ({mode} back-end) vs SQLite', {**case, 'db': run['db']}, real, rows)

    def _batch(self, items: list, execs: bool = True):
        """items: [(label, ast, [dbs])] — driven on the real code in worker processes, judged here"""
        lines: list = []
        pending: list = []
        tasks = [(label, ast, dbs if execs else []) for label, ast, dbs in items]
        for obs in _map(drive, tasks):
            self._judge(obs, lines, pending)
        self._compare(pending, self.model(lines))

    # ---- streams -----------------------------------------------------------------------------------------------------
    variant = 'current'

    def _probe_variant(self) -> str:
        """which of the two modelled variants of the parser is under test: the code that exists, or the code with
        fixes/C14-outer-join-and-scan-segments.diff applied?  Decided once per run on the two witnesses of the findings
        (what is offered, not how): is the preserved side of `A LEFT JOIN B ON A.x > 1` offered a filter, is the scan
        behind `r` in `A CROSS JOIN A AS r WHERE A.x > 1`?"""
        a, b, r = TA, TB, ('ref', TA, 'r')
        outer = drive(('probe', Q(J(a, b, 'left', X('gt', E(a, 'x'), L(1))), [E(a, 'x')]), []))
        alias = drive(('probe', Q(J(a, r, 'cross', None), [E(a, 'x'), E(r, 'x')], X('gt', E(a, 'x'), L(1))), []))
        try:
            repaired = (not outer['hints'][0][2], not alias['hints'][1][2])
        except Exception:  # pylint: disable=broad-except
            return 'current'  # the probes do not even parse: compared with (and reported against) the code that exists
        return 'fixed' if all(repaired) else 'current' if not any(repaired) else 'mixed'

    def correspondence(self):
        adapters()
        self.variant = self._probe_variant()
        self.extra['parser_variant'] = self.variant
        self.notes.append(f'parser variant under test: {self.variant}' + (
            '' if self.variant == 'current' else ' (outer joins / scans through references repaired: no statement is exempt)'))
        rng = self.rng
        gen = Gen(rng)
        ndb = self.n(2, 3)
        self._batch([(f'corpus:{name}', ast, [gen.db() for _ in range(ndb + 1)] + [gen.dense_db()]) for name, ast in _corpus()])
        # main stream
        items = []
        for _ in range(self.n(240, 2000)):
            items.append(('gen', gen.statement(), [gen.db() for _ in range(ndb)]))
        self._batch(items)
        # provable fragment only (inner joins, no aliased scans): everything must agree, nothing is a known finding
        inner = Gen(rng, outer=0.0, alias=0.0)
        self._batch([('inner', inner.statement(), [inner.db() for _ in range(ndb)]) for _ in range(self.n(170, 1600))])
        # boolean operands that are no predicates: AttributeError today (strict model) or no factors (lenient)
        nonpred = Gen(rng, outer=0.0, alias=0.0, nonpred=0.3)
        self._batch([('nonpred', nonpred.statement(), []) for _ in range(self.n(30, 300))], execs=False)
        # the shared generator: hints and columns only (strings, floats, dates, casts, limits, sets)
        broad = g.Gen(rng, small_ints=True)
        items = []
        for _ in range(self.n(170, 1500)):
            ast = broad.statement(1)
            if ast[0] not in ('query', 'set'):
                ast = Q(ast)
            text = sexp.dumps(ast)
            if '(window ' in text:
                continue  # the parser raises for window features
            if 'School' in text and 'Campus' in text:
                continue  # twins with equal schemas are one and the same dsl.Table (C08): a duplicate origin
            items.append(('dslgen', ast, []))
        self._batch_broad(items)
        self._skeleton_stream(gen, ndb)
        self._outer_stream(gen)
        self._malformed()
        if not self.quick:
            self._planted()
        self.extra['known_root_causes'] = {SIG_OUTER: 'C14-F1', SIG_ALIAS: 'C14-F2'}

    def _skeleton_stream(self, gen, ndb):
        """every boolean skeleton with <= 2 connectives over atoms on A, on B and across both, as prefilter of
        A <kind> JOIN B (thorough: all of them for inner/left/full; quick: a sample), and with <= 1 connective as a
        conjunct of the join condition"""
        a, b = TA, TB
        atoms = [X('gt', E(a, 'x'), L(1)), X('le', E(a, 'y'), L(0)), X('gt', E(b, 'z'), L(1)), X('lt', E(a, 'x'), E(b, 'z')),
                 X('isnull', E(b, 'x'))]
        memo: dict = {0: atoms}

        def trees(n):
            if n not in memo:
                out = [X('not', t) for t in trees(n - 1)]
                for k in range(n):
                    out += [X(op, l, r) for l in trees(k) for r in trees(n - 1 - k) for op in ('and', 'or')]
                memo[n] = out
            return memo[n]

        on = X('eq', E(a, 'id'), E(b, 'aid'))
        items = []
        for kind in ('inner', 'left', 'full'):
            for n in (0, 1, 2):
                for t in trees(n):
                    items.append((f'skeleton:{kind}', Q(J(a, b, kind, on), [E(a, 'x'), E(b, 'z')], t)))
            for n in (0, 1):
                for t in trees(n):
                    items.append((f'skeleton-on:{kind}', Q(J(a, b, kind, X('and', on, t)), [E(a, 'y'), E(b, 'x')])))
        if self.quick:
            items = self.rng.sample(items, 70)
        self._batch([(label, ast, [gen.db() for _ in range(2)]) for label, ast in items])

    def _outer_items(self) -> list:
        """join trees of three tables in both nestings x every pair of join kinds, plain equality conditions optionally
        with one single-table conjunct, and a prefilter that accepts or rejects NULLs of one table: the shapes on which
        the hints of outer joins can go wrong (side preserved / NULL-extended, nesting, conditions from above)"""
        a, b, c = TA, TB, TC
        ab, bc = X('eq', E(a, 'id'), E(b, 'aid')), X('eq', E(c, 'bid'), E(b, 'id'))
        pres = [None] + [X(op, col) for col in (E(a, 'x'), E(b, 'z'), E(c, 'w')) for op in ('isnull', 'notnull')] + \
            [X('gt', E(a, 'x'), L(0)), X('le', E(c, 'w'), L(1)), X('or', X('isnull', E(b, 'z')), X('gt', E(b, 'z'), L(1)))]
        extras = [None, X('gt', E(a, 'y'), L(0)), X('le', E(b, 'x'), L(1)), X('ge', E(c, 'x'), L(1)), X('isnull', E(c, 'w'))]
        items = []
        kinds = ('inner', 'left', 'right', 'full')
        for k1 in kinds:
            for k2 in kinds:
                for extra in extras:
                    def on(cond, own):
                        ok = extra is not None and feat_elems(extra)[0][0] in own
                        return X('and', cond, extra) if ok else cond
                    shapes = (('deep-right', J(a, J(b, c, k2, on(bc, (b, c))), k1, on(ab, (a,)))),
                              ('deep-left', J(J(a, b, k1, on(ab, (a, b))), c, k2, on(bc, (c,)))))
                    for name, src in shapes:
                        for pre in pres:
                            items.append((f'outer3:{name}:{k1}-{k2}', Q(src, [E(a, 'x'), E(b, 'z'), E(c, 'w')], pre)))
        return items

    def _outer_stream(self, gen):
        items = self._outer_items()
        if self.quick:
            items = self.rng.sample(items, 90)
        self._batch([(label, ast, [gen.db() for _ in range(2)]) for label, ast in items])

    def _planted(self):
        """self-test of the comparison: a deliberately wrong model line (another literal) must come out different"""
        a = TA
        real = Q(a, [E(a, 'x')], X('gt', E(a, 'x'), L(1)))
        wrong = Q(a, [E(a, 'x')], X('gt', E(a, 'x'), L(2)))
        obs = drive(('planted', real, []))
        ans = sexp.loads(self.model([sexp.dumps(('hints', 'fixed' if self.variant == 'fixed' else 'current', 'lenient', wrong))])[0])
        if not isinstance(ans, list) or ans[0] != 'ok':
            raise fw.MachineryError(f'planted-divergence self-test: the model does not answer ({ans})')
        if obs['status'] == 'ok' and canon_hints(obs['hints']) == canon_hints([(h[1], h[2], h[3]) for h in ans[1:]]):
            raise fw.MachineryError('planted divergence (literal changed in the model line) was not detected')
        self.notes.append('planted-divergence self-test: detected')

    def _batch_broad(self, items):
        """dslgen statements use another catalog: only hints and the columns oracle (no SQLite tables for them)"""
        self._batch(items, execs=False)

    def _malformed(self):
        """the grammar must refuse a join condition using an origin outside the join (assumed by C14_filter_partial)"""
        bad = [J(TA, TB, 'inner', X('eq', E(TA, 'id'), E(TC, 'bid'))),
               J(J(TA, TB, 'inner', X('eq', E(TA, 'id'), E(TC, 'bid'))), TC, 'inner', X('eq', E(TC, 'bid'), E(TB, 'id')))]
        for ast in bad:
            try:
                g.Builder().build(Q(ast, [E(TA, 'x')]))
            except Exception as e:  # pylint: disable=broad-except
                self.case(('malformed', ast), f'malformed refused:{type(e).__name__}', nontrivial=False)
            else:
                self.case(('malformed', ast), 'malformed accepted', nontrivial=False)
                self.notes.append('dsl.Join accepted a condition over a foreign origin: hypothesis joinsScoped is no longer guaranteed')
                self.diverge('out-of-scope join condition accepted by the grammar', {'stmt': ast}, 'accepted', 'refused')

    # ---- search / replay -------------------------------------------------------------------------------------------
    def _oracles_only(self, label: str, tasks: list) -> int:
        n = 0
        for obs in _map(drive, tasks):
            if 'unbuildable' in obs or obs['status'] != 'ok':
                continue
            n += 1
            self._columns_oracle(obs['stored'], obs['hints'], obs['lazy'], label)
            self._context_oracle(obs['stored'], obs['hints'], obs.get('nested'), label)
            for run in obs['runs']:
                self._exec_oracle(obs['stored'], run, label)
        return n

    def search(self, reason):
        """re-run the diverging statements (and fresh ones of the provable fragment) on more data through the oracles"""
        seeds = [tuplify(d.case['stmt']) for d in self.divergences if isinstance(d.case, dict) and 'stmt' in d.case]
        seeds = [s for s in seeds if s[0] in ('query', 'set') and all(t in TABLES for t in _tables_of(s))]
        # the fragment in which every filter violation is a new one: no outer joins / aliased scans for the code that
        # exists, everything for the repaired code
        gen = Gen(self.rng, outer=0.3, alias=0.15) if self.variant == 'fixed' else Gen(self.rng, outer=0.0, alias=0.0)
        extra = [ast for _, ast in self._outer_items()] if self.variant == 'fixed' else []
        if self.quick and extra:
            extra = self.rng.sample(extra, 600)
        tasks = [('search', ast, [gen.db() for _ in range(6)]) for ast in
                 list(dict.fromkeys(seeds))[:60] + [gen.statement() for _ in range(self.n(300, 2000))] + extra]
        tried = self._oracles_only('search', tasks)
        self.notes.append(f'failing-input search ({reason}): {tried} statements x 6 table contents through the oracles')

    def replay_finding(self, entry):
        if 'parser_variant' not in self.extra:  # `--replay` without a correspondence run
            self.variant = self.extra['parser_variant'] = self._probe_variant()
        w = entry['witness']
        ast = tuplify(w['stmt'])
        db = {k: [tuple(r) for r in v] for k, v in w.get('db', {}).items()}
        obs = drive(('replay', ast, [db] if w.get('kind') == 'exec' else []))
        if 'unbuildable' in obs:
            return None
        if obs['status'] != 'ok':
            # the parser refuses a statement it used to accept (fixed entries of kind `raises`)
            return fw.Violation(f'the parser raises {obs["hints"]} instead of offering hints', w, SIG_RAISES)
        before = len(self.violations)
        self._columns_oracle(obs['stored'], obs['hints'], obs['lazy'], 'replay')
        self._context_oracle(obs['stored'], obs['hints'], obs.get('nested'), 'replay')
        for run in obs['runs']:
            self._exec_oracle(obs['stored'], run, 'replay')
        found = self.violations[before:]
        del self.violations[before:]
        # the witnesses are in the corpus as well: a different way of failing on them is reported from there
        if 'signature' not in entry:  # --replay of a replay file: anything that fails
            return found[0] if found else None
        same = [v for v in found if v.signature == entry['signature']]
        return same[0] if same else None


def _tables_of(ast) -> list:
    out = []

    def walk(x):
        if isinstance(x, tuple):
            if x and x[0] == 'table':
                out.append(x)
            else:
                for i in x:
                    walk(i)

    walk(ast)
    return out


if __name__ == '__main__':
    raise SystemExit(fw.run(C14))
